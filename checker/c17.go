package main

import (
	"fmt"
	"go/constant"
	"go/token"
	"go/types"
	"math/big"
	"strings"

	"golang.org/x/tools/go/ssa"
)

func init() {
	register(&Property{
		ID:       "C17",
		Patterns: []string{"./remap", "./cache", "./cache/tiny", "./syncx/keylock", "./syncx/semap"},
		Explanation: "Decides, on every path of the current source: (1) the values returned by ReMap.SimpleIndex / XHashIndex / SearchIndex lie in [0, numbs) " +
			"(interval evaluation with symbolic bounds, overflow aware; assumption 1 <= numbs <= MaxInt64 and len(nps)==numbs, the latter checked on NewReMap); " +
			"(2) every sharded container sizes its shard slice, bounds its fill loop and binds its index function from one and the same ReMap; " +
			"(3) every single-key method indexes the shard slice with calKeyFn(own key); (4) it delegates to the same-named shard method with its own arguments and returns that result unchanged; " +
			"(5) nothing reachable from the index functions reads a clock, randomness, the environment or iterates a map; (6) NewReMap fills boundaries y*(i+1) and forces the last to MaxUint64. " +
			"NOT decided: equality of sharded and unsharded containers over whole histories (only routing and delegation), quality of the hash.",
		Assumptions: []string{"1 <= numbs <= MaxInt64 (a shard count of 0 divides by zero in NewReMap itself)", "sort.Search(n,f) returns a value in [0,n]"},
		Floors:      map[string]int{"C17.index-range": 3, "C17.construction": 6, "C17.index-provenance": 20, "C17.delegation": 20, "C17.deterministic": 3, "C17.partition": 2, "C17.multi-key-route": 1, "C17.to-bytes": 1, "C17.ctor-options": 13},
		Run:         runC17,
	})
}

type wideSpec struct {
	rel, typ, shards string
	ctor             string
}

var wideContainers = []wideSpec{
	{"cache", "WideMap", "ms", "newWideMap"},
	{"cache", "WideLRUCache", "ls", "newWideLRUCache"},
	{"cache/tiny", "WideLRUCache", "ls", "newWideLRUCache"},
	{"syncx/keylock", "KeyLockerGrp", "ls", "newKeyLockeGrp"},
	{"syncx/keylock", "TKeyLockerGrp", "ls", "newTKeyLockeGrp"},
	{"syncx/semap", "WideSemMap", "ms", "newWideSemMap"},
}

func runC17(c *Ctx) {
	numbs := c.mustField("remap", "ReMap", "numbs")
	nps := c.mustField("remap", "ReMap", "nps")
	if numbs == nil || nps == nil {
		return
	}
	c.checkIndexRange(numbs, nps)
	c.checkPartition(numbs, nps)
	c.checkDeterministic()
	for _, w := range wideContainers {
		c.checkWideContainer("C17", w, numbs)
	}
	c.checkMultiKeyRoute()
	c.checkToBytes()
	c.checkCtorOptions()
}

// checkCtorOptions: a public constructor of a sharded container hands the options it accepts on to the code that
// interprets them, on every path — a constructor that drops them builds every shard with the defaults (shard
// count, rwRatio), so the sharded container no longer behaves like the configured unsharded one.
func (c *Ctx) checkCtorOptions() {
	seen := map[string]bool{}
	for _, w := range wideContainers {
		if seen[w.rel] {
			continue
		}
		seen[w.rel] = true
		for _, fn := range c.funcsOf(w.rel) {
			if fn.Parent() != nil || fn.Signature.Recv() != nil || !fn.Signature.Variadic() || !token.IsExported(fn.Name()) || !strings.HasPrefix(fn.Name(), "Ne") {
				continue
			}
			opts := fn.Params[len(fn.Params)-1]
			cons := w.rel + "." + fn.Name()
			noInl := func(*ssa.Function, int) bool { return false }
			traces, complete := c.Trace(fn, TraceConfig{Inline: noInl})
			if !complete {
				c.undecided("C17.ctor-options", cons, fn.Pos(), "path budget exceeded")
				continue
			}
			ok, n := true, 0
			for _, t := range traces {
				if t.End != EndReturn {
					continue
				}
				n++
				used := false
				for _, e := range t.Events {
					// handed to another function, or applied here (a loop calling each option)
					if e.Kind == EvCall {
						for _, a := range e.Args {
							if a.mentions("$" + opts.Name()) {
								used = true
							}
						}
						if e.Val != nil && e.Val.mentions("$"+opts.Name()) {
							used = true
						}
					}
					// the loop over the options was evaluated (possibly zero iterations on this path)
					if e.Kind == EvBranch && e.Cond.mentions("$"+opts.Name()) {
						used = true
					}
				}
				if !used && ok {
					ok = false
					c.violated("C17.ctor-options", cons, fn.Pos(), "the constructor accepts options ("+opts.Name()+") but does not pass them on: every shard is built with the defaults, whatever the caller configured", c.witness(t, len(t.Events)-1)...)
				}
			}
			if ok && n > 0 {
				c.holds("C17.ctor-options", cons, fn.Pos(), "options forwarded on every path")
			}
		}
	}
}

// checkToBytes: the hash route is total — for every supported key type remap.ToBytes returns without panicking:
// each fixed-width encoding writes into a scratch slice at least as long as the width it writes, and returns
// that scratch slice (the bytes hashed are the bytes written).
func (c *Ctx) checkToBytes() {
	fn := c.mustFn("remap", "ToBytes")
	if fn == nil {
		return
	}
	traces, complete := c.Trace(fn, TraceConfig{})
	if !complete {
		c.undecided("C17.to-bytes", "remap.ToBytes", fn.Pos(), "path budget exceeded")
		return
	}
	width := map[string]int64{"PutUint16": 2, "PutUint32": 4, "PutUint64": 8}
	ok, n := true, 0
	for _, t := range traces {
		for i, e := range t.Events {
			if e.Kind != EvCall || !strings.HasPrefix(e.callName(), "(encoding/binary.") {
				continue
			}
			m := e.callName()[strings.LastIndex(e.callName(), ".")+1:]
			w, known := width[m]
			if !known || len(e.Args) < 2 {
				continue
			}
			n++
			have := constSliceLen(e.Args[1])
			if have < w && ok {
				ok = false
				c.violated("C17.to-bytes", "remap.ToBytes", e.Pos, fmt.Sprintf("%s writes %d bytes into a scratch slice of %d: for keys of this type the hash route panics (index out of range) where the unsharded container works", m, w, have), c.witness(t, i)...)
			}
			if t.End == EndReturn && len(t.Ret) == 1 && ok {
				if r := t.Ret[0]; r.root() == nil || e.Args[1].root() == nil || r.root().Key() != e.Args[1].root().Key() || constSliceLen(r) != w {
					ok = false
					c.violated("C17.to-bytes", "remap.ToBytes", e.Pos, "the bytes returned for hashing are not exactly the bytes just written ("+c.short(t.Ret[0].Key())+")", c.witness(t, len(t.Events)-1)...)
				}
			}
		}
	}
	if ok {
		c.check(n >= 8, "C17.to-bytes", "remap.ToBytes", fn.Pos(), fmt.Sprintf("%d fixed-width encodings, each into a scratch slice of its own width", n), "fewer fixed-width encodings than integer key types were found in ToBytes")
	}
}

// checkMultiKeyRoute: the multi-key forms of the sharded key locker route each key with the container's own
// index function, the one the single-key forms use — otherwise Locks([k]) and Lock(k) are different locks.
func (c *Ctx) checkMultiKeyRoute() {
	const rel = "syncx/keylock"
	fn := c.mustFn(rel, "(*TKeyLockerGrp).calculateSortedMultiKeys")
	calKey := c.mustField(rel, "TKeyLockerGrp", "calKeyFn")
	if fn == nil || calKey == nil {
		return
	}
	cons := "(*keylock.TKeyLockerGrp).calculateSortedMultiKeys"
	traces, complete := c.Trace(fn, TraceConfig{})
	if !complete {
		c.undecided("C17.multi-key-route", cons, fn.Pos(), "path budget exceeded")
		return
	}
	ok, n := true, 0
	for _, t := range traces {
		for i, e := range t.Events {
			if e.Kind != EvMapUpdate || e.Addr.root().Kind != KAlloc {
				continue
			}
			n++
			k := e.Args[0]
			routed := false
			for _, y := range t.Events {
				if y.Kind == EvCall && y.Val != nil && y.Res != nil && y.Res.Key() == k.Key() && len(y.Args) == 1 {
					if _, isCal := isInitOfField(y.Val, calKey); isCal {
						// the routed value is an element of the caller's key list
						routed = y.Args[0].strip().root().Kind == KParam || y.Args[0].strip().Kind == KInit
					}
				}
			}
			if !routed && ok {
				ok = false
				c.violated("C17.multi-key-route", cons, e.Pos, "the multi-key forms group keys by something other than calKeyFn(key), the routing of the single-key forms: in an xxhash group Locks([k]) and Lock(k) land on different shards, so the sharded locker no longer behaves as the unsharded one (no exclusion between the two forms; Unlock after Locks hits a missing entry)", c.witness(t, i)...)
			}
		}
	}
	// and the groups leave in ascending shard order on every path: the sharded locker takes shards in that order,
	// which is what makes it deadlock-free like the unsharded one
	for _, t := range traces {
		if t.End != EndReturn || !ok {
			continue
		}
		sorted := false
		for i, e := range t.Events {
			if e.Kind == EvCall && e.Callee != nil && (strings.Contains(e.Callee.String(), "slices.Sort") || strings.Contains(e.Callee.String(), "sort.Slice") || strings.Contains(e.Callee.String(), "sort.Ints")) {
				sorted = true
				// the sort orders shards, not keys: an unstable sort over one element per key loses the caller's order
				// of the keys that share a shard, which the unsharded locker keeps
				if len(e.Args) >= 1 && !strings.Contains(e.Callee.String(), "Stable") {
					if st := sortedElemStruct(e.Args[0].strip()); st != nil {
						perShard := false
						for fi := 0; fi < st.NumFields(); fi++ {
							if _, isSl := st.Field(fi).Type().Underlying().(*types.Slice); isSl {
								perShard = true
							}
						}
						if !perShard && ok {
							ok = false
							c.violated("C17.multi-key-route", cons, e.Pos, "an unstable sort orders individual keys by their shard index: the keys of one shard are locked in an arbitrary order instead of the caller's list order, so two callers with consistently ordered lists can deadlock where the unsharded locker cannot", c.witness(t, i)...)
						}
					}
				}
			}
		}
		if !sorted {
			// nothing to order when at most one group exists
			trivial := hasFact(t.factsBefore(len(t.Events)), func(f Fact) bool {
				k, isK := f.Y.intConst()
				return f.X.Kind == KOp && f.X.Name == "len" && isK && ((f.Op == token.LEQ && k <= 1) || (f.Op == token.LSS && k <= 2) || (f.Op == token.EQL && k <= 1))
			})
			if !trivial {
				ok = false
				c.violated("C17.multi-key-route", cons, fn.Pos(), "the shard groups are returned without being sorted on a path where more than one group can exist: map iteration order decides the order in which shards are locked, two callers with the same key list can deadlock where the unsharded locker cannot", c.witness(t, len(t.Events)-1)...)
			}
		}
	}
	if ok && n > 0 {
		c.holds("C17.multi-key-route", cons, fn.Pos(), fmt.Sprintf("%d grouping sites keyed by calKeyFn(key)", n))
	} else if ok {
		c.undecided("C17.multi-key-route", cons, fn.Pos(), "no grouping site found")
	}
}

// ---------------------------------------------------------------------------------------------

func (c *Ctx) checkIndexRange(numbs, nps *types.Var) {
	_, maxInt, _ := typeRange(types.Typ[types.Int64], "amd64")
	for _, name := range []string{"SimpleIndex", "XHashIndex", "SearchIndex"} {
		fn := c.mustFn("remap", "(*ReMap)."+name)
		if fn == nil {
			continue
		}
		cons := "(*remap.ReMap)." + name
		traces, complete := c.Trace(fn, TraceConfig{})
		if !complete {
			c.undecided("C17.index-range", cons, fn.Pos(), "path budget exceeded")
			continue
		}
		ok, n := true, 0
		recv := &Sym{Kind: KParam, Ref: fn.Params[0], Typ: fn.Params[0].Type()}
		numbsCell := &Sym{Kind: KFieldAddr, Args: []*Sym{recv}, Field: numbs}
		numbsVal := &Sym{Kind: KInit, Args: []*Sym{numbsCell}, Typ: numbs.Type()}
		npsVal := &Sym{Kind: KInit, Args: []*Sym{{Kind: KFieldAddr, Args: []*Sym{recv}, Field: nps}}, Typ: nps.Type()}
		for _, t := range traces {
			if t.End != EndReturn || len(t.Ret) != 1 {
				continue
			}
			n++
			r := c.newRanger(t, len(t.Events))
			r.Assume[numbsVal.Key()] = Itv{lo: bi(1), hi: maxInt}
			lenNps := &Sym{Kind: KOp, Name: "len", Args: []*Sym{npsVal}, Typ: types.Typ[types.Int]}
			r.Assume[lenNps.Key()] = Itv{lo: bi(1), hi: maxInt}
			v := r.Eval(t.Ret[0])
			in, why := r.inRange0(v, numbsVal)
			if !in && ok {
				ok = false
				c.violated("C17.index-range", cons, fn.Pos(), fmt.Sprintf("a returned shard index is not provably in [0, numbs): %s; returned expression %s", why, c.short(t.Ret[0].Key())), c.witness(t, len(t.Events)-1)...)
			}
		}
		if n == 0 {
			c.undecided("C17.index-range", cons, fn.Pos(), "no returning path found")
		} else if ok {
			c.holds("C17.index-range", cons, fn.Pos(), fmt.Sprintf("%d returning paths, every returned value in [0,numbs)", n))
		}
	}
}

func (c *Ctx) checkPartition(numbs, nps *types.Var) {
	fn := c.mustFn("remap", "NewReMap")
	if fn == nil {
		return
	}
	traces, complete := c.Trace(fn, TraceConfig{MayPanic: nil})
	if !complete {
		c.undecided("C17.partition", "remap.NewReMap", fn.Pos(), "path budget exceeded")
		return
	}
	maxU := new(big.Int).Sub(new(big.Int).Lsh(bi(1), 64), bi(1))
	okLast, okFill, okLen, n := true, true, true, 0
	for _, t := range traces {
		if t.End != EndReturn {
			continue
		}
		n++
		// the slice stored into nps
		var slice, numbsVal *Sym
		for _, e := range t.Events {
			if e.Kind == EvStore && e.Addr.isFieldAddrOf(nps) {
				slice = e.Val
			}
			if e.Kind == EvStore && e.Addr.isFieldAddrOf(numbs) {
				numbsVal = e.Val
			}
		}
		if slice == nil || numbsVal == nil || slice.Kind != KAlloc || len(slice.Args) != 2 {
			okLen = false
			c.violated("C17.partition", "len(nps) == numbs", fn.Pos(), "NewReMap does not store a freshly made boundary slice and the shard count", c.witness(t, len(t.Events)-1)...)
			continue
		}
		if boundKey(slice.Args[0]) != boundKey(numbsVal) {
			okLen = false
			c.violated("C17.partition", "len(nps) == numbs", fn.Pos(), fmt.Sprintf("the boundary slice has length %s but the shard count is %s: SearchIndex can return an index no container has", c.short(slice.Args[0].Key()), c.short(numbsVal.Key())), c.witness(t, len(t.Events)-1)...)
		}
		// last store to an element of the slice
		var last *Event
		fillSeen := false
		for _, e := range t.Events {
			if e.Kind == EvStore && e.Addr.Kind == KIndexAddr && e.Addr.Args[0].Key() == slice.Key() {
				last = e
				if e.Val.Kind == KConst && !e.Gen {
					fillSeen = true // first iteration with a constant shard count: folded
				}
				if e.Val.Kind == KBin && e.Val.Op == token.MUL {
					fillSeen = true
					// y * (i+1) with y = MaxUint64 / numbs
					a, b := e.Val.Args[0], e.Val.Args[1]
					isY := func(s *Sym) bool {
						if s.Kind == KConst && s.Const != nil && numbsVal.Kind == KConst && numbsVal.Const != nil {
							v, _ := new(big.Int).SetString(s.Const.ExactString(), 10)
							nb, _ := new(big.Int).SetString(numbsVal.Const.ExactString(), 10)
							return v != nil && nb != nil && nb.Sign() > 0 && v.Cmp(new(big.Int).Quo(maxU, nb)) == 0
						}
						if s.Kind != KBin || s.Op != token.QUO || boundKey(s.Args[1]) != boundKey(numbsVal) {
							return false
						}
						if s.Args[0].Kind != KConst || s.Args[0].Const == nil {
							return false
						}
						v, _ := new(big.Int).SetString(s.Args[0].Const.ExactString(), 10)
						return v != nil && v.Cmp(maxU) == 0
					}
					isI1 := func(s *Sym) bool {
						if s.Kind == KConst {
							v, ok := s.intConst()
							return ok && v == 1 // first iteration: (0+1) folded
						}
						if s.Kind != KBin || s.Op != token.ADD {
							return false
						}
						one, ok := s.Args[1].intConst()
						return ok && one == 1 && boundKey(s.Args[0]) == boundKey(e.Addr.Args[1])
					}
					if !((isY(a) && isI1(b)) || (isY(b) && isI1(a))) {
						okFill = false
						c.violated("C17.partition", "boundaries increase", e.Pos, "a boundary is not (MaxUint64/numbs)*(i+1): the partition is no longer monotone/covering: "+c.short(e.Val.Key()), c.witness(t, len(t.Events)-1)...)
					}
				}
			}
		}
		zeroIter := false
		for _, e := range t.Events {
			if e.Kind == EvBranch && !e.Taken && e.Cond.Kind == KBin && e.Cond.Op == token.LSS {
				if z, ok := e.Cond.Args[0].intConst(); ok && z == 0 && boundKey(e.Cond.Args[1]) == boundKey(numbsVal) {
					zeroIter = true
				}
			}
		}
		if zeroIter {
			n--
			continue // shard count 0: excluded by the stated assumption (NewReMap divides by it)
		}
		if last == nil || !fillSeen {
			okFill = false
			c.violated("C17.partition", "boundaries increase", fn.Pos(), "the boundary fill loop was not found", "")
			continue
		}
		lv, isC := last.Val, last.Val.Kind == KConst && last.Val.Const != nil
		idx := last.Addr.Args[1]
		lastIdx := idx.Kind == KBin && idx.Op == token.SUB && boundKey(idx.Args[0]) == boundKey(numbsVal)
		if lastIdx {
			one, ok := idx.Args[1].intConst()
			lastIdx = ok && one == 1
		}
		if iv, ok := idx.intConst(); ok {
			if nv, ok2 := numbsVal.intConst(); ok2 && iv == nv-1 {
				lastIdx = true
			}
		}
		good := false
		if isC && lastIdx {
			v, _ := new(big.Int).SetString(lv.Const.ExactString(), 10)
			good = v != nil && v.Cmp(maxU) == 0
		}
		if !good {
			okLast = false
			c.violated("C17.partition", "last boundary = MaxUint64", last.Pos, "after the fill loop the last boundary nps[numbs-1] is not forced to MaxUint64: hashes above the last boundary map to no shard (SearchIndex falls back to shard 0)", c.witness(t, len(t.Events)-1)...)
		}
	}
	if n == 0 {
		c.undecided("C17.partition", "remap.NewReMap", fn.Pos(), "no returning path")
		return
	}
	if okLen {
		c.holds("C17.partition", "len(nps) == numbs", fn.Pos(), "")
	}
	if okFill {
		c.holds("C17.partition", "boundaries increase", fn.Pos(), "nps[i] = (MaxUint64/numbs)*(i+1)")
	}
	if okLast {
		c.holds("C17.partition", "last boundary = MaxUint64", fn.Pos(), "")
	}
}

// checkDeterministic: nothing reachable from the index functions is a source of non-determinism.
func (c *Ctx) checkDeterministic() {
	forbiddenPkg := map[string]bool{"time": true, "math/rand": true, "crypto/rand": true, "os": true, "runtime": true, "math/rand/v2": true}
	for _, name := range []string{"SimpleIndex", "XHashIndex", "SearchIndex"} {
		fn := c.mustFn("remap", "(*ReMap)."+name)
		if fn == nil {
			continue
		}
		cons := "(*remap.ReMap)." + name
		seen := map[*ssa.Function]bool{}
		var bad []string
		var visit func(f *ssa.Function)
		visit = func(f *ssa.Function) {
			if seen[f] {
				return
			}
			seen[f] = true
			for _, b := range f.Blocks {
				for _, in := range b.Instrs {
					switch in := in.(type) {
					case *ssa.Range:
						if _, ok := in.X.Type().Underlying().(*types.Map); ok {
							bad = append(bad, c.posStr(in.Pos())+": map iteration in "+c.fname(f))
						}
					case *ssa.Store:
						if g, ok := in.Addr.(*ssa.Global); ok {
							bad = append(bad, c.posStr(in.Pos())+": write of package variable "+g.Name())
						}
					case *ssa.UnOp:
						if g, ok := in.X.(*ssa.Global); ok && in.Op == token.MUL && c.inModule(g.Pkg.Pkg) && c.globalMutable(g) {
							bad = append(bad, c.posStr(in.Pos())+": read of mutable package variable "+g.Name())
						}
					case ssa.CallInstruction:
						callee := in.Common().StaticCallee()
						if callee == nil {
							continue
						}
						if c.fnInModule(callee) {
							visit(callee)
							for _, a := range callee.AnonFuncs {
								visit(a)
							}
						} else if callee.Pkg != nil && forbiddenPkg[callee.Pkg.Pkg.Path()] {
							bad = append(bad, c.posStr(in.Pos())+": call of "+callee.String())
						} else if callee.String() == "(*sync.Pool).Get" {
							// recycled storage carries whatever the previous key left in it: every byte handed on must have
							// been overwritten on the path first
							if why := c.pooledBytesUnwritten(f); why != "" {
								bad = append(bad, c.posStr(in.Pos())+": storage recycled through sync.Pool in "+c.fname(f)+": "+why)
							}
						}
					case *ssa.MakeClosure:
						if f2, ok := in.Fn.(*ssa.Function); ok {
							visit(f2)
						}
					}
				}
			}
		}
		visit(fn)
		if len(bad) > 0 {
			c.violated("C17.deterministic", cons, fn.Pos(), "the shard index depends on a non-deterministic source: "+strings.Join(bad, "; "), bad...)
		} else {
			c.holds("C17.deterministic", cons, fn.Pos(), fmt.Sprintf("%d module functions reachable, no clock/random/env/map-order/mutable-global dependence", len(seen)))
		}
	}
}

// globalMutable: a package variable that is stored to outside package initialisation.
func (c *Ctx) globalMutable(g *ssa.Global) bool {
	for fn := range allFunctions(c.Prog) {
		if fn.Pkg != g.Pkg || fn.Name() == "init" || strings.HasPrefix(fn.Name(), "init#") {
			continue
		}
		for _, b := range fn.Blocks {
			for _, in := range b.Instrs {
				if st, ok := in.(*ssa.Store); ok {
					if st.Addr == ssa.Value(g) {
						return true
					}
				}
			}
		}
	}
	return false
}

// ---------------------------------------------------------------------------------------------

func (c *Ctx) namedType(rel, name string) *types.Named {
	p := c.pkg(rel)
	if p == nil {
		return nil
	}
	o := p.Types.Scope().Lookup(name)
	if o == nil {
		return nil
	}
	n, _ := o.Type().(*types.Named)
	return n
}

func recvNamed(f *ssa.Function) *types.Named {
	if f == nil || f.Signature.Recv() == nil {
		return nil
	}
	t := f.Signature.Recv().Type()
	if p, ok := t.(*types.Pointer); ok {
		t = p.Elem()
	}
	n, _ := t.(*types.Named)
	if n != nil {
		return n.Origin()
	}
	return nil
}

// checkWideContainer: construction consistency, index provenance and delegation for one sharded container.
func (c *Ctx) checkWideContainer(prefix string, w wideSpec, numbs *types.Var) {
	named := c.namedType(w.rel, w.typ)
	shards := c.mustField(w.rel, w.typ, w.shards)
	// the index function: a stored method value of the container's ReMap (field calKeyFn), or — the same thing
	// decided at call time — the ReMap kept in a field and one of its two index methods chosen by a flag field
	calKey := c.field(w.rel, w.typ, "calKeyFn")
	var rehashF *types.Var
	if named != nil {
		if st, ok := named.Underlying().(*types.Struct); ok {
			for i := 0; i < st.NumFields(); i++ {
				if p, isP := st.Field(i).Type().(*types.Pointer); isP {
					if n, isN := p.Elem().(*types.Named); isN && n.Obj().Name() == "ReMap" {
						rehashF = st.Field(i)
					}
				}
			}
		}
	}
	if calKey == nil && rehashF == nil {
		c.mustField(w.rel, w.typ, "calKeyFn")
	}
	if named == nil || shards == nil || (calKey == nil && rehashF == nil) {
		c.undecided("anchor", w.rel+"."+w.typ, 0, "sharded container type not found")
		return
	}
	flagForm := calKey == nil
	if flagForm && !c.immutableField(rehashF) {
		c.violated(prefix+".construction", w.rel+"."+w.typ, rehashF.Pos(), "the ReMap the container routes by is replaced after construction: a key can move to another shard", "")
	}
	tname := w.rel + "." + w.typ

	// (2) construction
	if ctor := c.mustFn(w.rel, w.ctor); ctor != nil {
		traces, complete := c.Trace(ctor, TraceConfig{})
		if !complete {
			c.undecided(prefix+".construction", tname, ctor.Pos(), "path budget exceeded")
		} else {
			ok, n := true, 0
			kinds := map[string]bool{}
			for _, t := range traces {
				if t.End != EndReturn {
					continue
				}
				n++
				var slice, fnv, rmStored *Sym
				for _, e := range t.Events {
					if e.Kind == EvStore && e.Addr.isFieldAddrOf(shards) {
						slice = e.Val
					}
					if calKey != nil && e.Kind == EvStore && e.Addr.isFieldAddrOf(calKey) {
						fnv = e.Val
					}
					if flagForm && e.Kind == EvStore && e.Addr.isFieldAddrOf(rehashF) {
						rmStored = e.Val
					}
				}
				fail := func(msg string) {
					if ok {
						ok = false
						c.violated(prefix+".construction", tname, ctor.Pos(), msg, c.witness(t, len(t.Events)-1)...)
					}
				}
				var rm *Sym
				if flagForm {
					if slice == nil || slice.Kind != KAlloc || len(slice.Args) != 2 || rmStored == nil {
						fail("the constructor does not store a freshly made shard slice and the ReMap it routes by")
						continue
					}
					rm = rmStored
					kinds["SimpleIndex"], kinds["XHashIndex"] = true, true // chosen per call by the flag: see index-provenance
				} else {
					if slice == nil || slice.Kind != KAlloc || len(slice.Args) != 2 || fnv == nil || fnv.Kind != KClosure || len(fnv.Args) != 1 {
						fail("the constructor does not store a freshly made shard slice and a method value of a ReMap as index function")
						continue
					}
					rm = fnv.Args[0] // the ReMap bound into the index function
					bf := fnv.Ref.(*ssa.Function)
					mname := strings.TrimSuffix(bf.Name(), "$bound")
					if rn := recvNamedOfBound(bf); rn == nil || rn.Obj().Name() != "ReMap" || (mname != "SimpleIndex" && mname != "XHashIndex") {
						fail("the index function is not ReMap.SimpleIndex / ReMap.XHashIndex: " + bf.String())
						continue
					}
					kinds[mname] = true
				}
				// numbs of that very ReMap
				nv := fieldValues(t, numbs, rm)
				if !nv[boundKey(slice.Args[0])] {
					found := false
					for k := range nv {
						if k == boundKey(slice.Args[0]) {
							found = true
						}
					}
					// values are recorded with their own keys; compare through boundKey on both sides
					for _, e := range t.Events {
						if (e.Kind == EvLoad || e.Kind == EvStore) && e.Addr.isFieldAddrOf(numbs) && e.Addr.Args[0].Key() == rm.Key() {
							v := e.Res
							if e.Kind == EvStore {
								v = e.Val
							}
							if boundKey(v) == boundKey(slice.Args[0]) {
								found = true
							}
						}
					}
					if !found {
						fail(fmt.Sprintf("the shard slice has length %s which is not the shard count of the ReMap bound into the index function: an index can fall outside the slice", c.short(slice.Args[0].Key())))
						continue
					}
				}
				// fill loop: stores to slice[i] in a generalised iteration and exit test against the same count
				filled, bounded := false, false
				for _, e := range t.Events {
					if e.Kind == EvStore && e.Addr.Kind == KIndexAddr && e.Addr.Args[0].Key() == slice.Key() {
						filled = true
					}
					if e.Kind == EvBranch && e.Cond.Kind == KBin && e.Cond.Op == token.LSS && boundKey(e.Cond.Args[1]) == boundKey(slice.Args[0]) && !e.Taken {
						lv := e.Cond.Args[0]
						for lv.Kind == KConv {
							lv = lv.Args[0]
						}
						if lv.Kind == KFresh && lv.Name == "loop" {
							bounded = true
						}
					}
				}
				zeroIter := false
				for _, e := range t.Events {
					if e.Kind == EvBranch && !e.Taken && e.Cond.Kind == KBin && e.Cond.Op == token.LSS {
						if z, ok := e.Cond.Args[0].intConst(); ok && z == 0 && boundKey(e.Cond.Args[1]) == boundKey(slice.Args[0]) {
							zeroIter = true // shard count 0: excluded by the stated assumption
						}
					}
				}
				if zeroIter {
					n--
					continue
				}
				if !filled || !bounded {
					fail("the shard slice is not filled by a loop that runs up to its own length: a nil shard would be dereferenced")
				}
			}
			if n == 0 {
				c.undecided(prefix+".construction", tname, ctor.Pos(), "no returning path")
			} else if ok {
				if !kinds["SimpleIndex"] || !kinds["XHashIndex"] {
					c.violated(prefix+".construction", tname, ctor.Pos(), "the constructor no longer offers both routings (modulo and xxhash)", "")
				} else {
					c.holds(prefix+".construction", tname, ctor.Pos(), fmt.Sprintf("%d paths: len(shards) = fill bound = numbs of the ReMap whose method is the index function", n))
				}
			}
		}
	}

	// (3)+(4) per single-key method
	routedType := map[string][]string{} // type of the routed parameter -> methods
	flagChoice := map[string]string{}   // flag valuation -> index method (flag form)
	for i := 0; i < named.NumMethods(); i++ {
		m := named.Method(i)
		if !m.Exported() {
			continue
		}
		fn := c.Prog.FuncValue(m)
		if fn == nil || len(fn.Blocks) == 0 {
			continue
		}
		sig := m.Type().(*types.Signature)
		if sig.Params().Len() == 0 {
			continue
		}
		// multi-key forms (slice parameter) are covered by C02
		if _, isSlice := sig.Params().At(0).Type().Underlying().(*types.Slice); isSlice {
			continue
		}
		cons := "(*" + tname + ")." + m.Name()
		// the key parameter is the one passed to calKeyFn; by convention of all six containers it is the
		// first parameter of kind interface/T; semap passes ctx first.
		inl := func(callee *ssa.Function, depth int) bool {
			return depth <= 3 && recvNamed(callee) == named.Origin()
		}
		traces, complete := c.Trace(fn, TraceConfig{Inline: inl})
		if !complete {
			c.undecided(prefix+".index-provenance", cons, fn.Pos(), "path budget exceeded")
			continue
		}
		okP, okD, n := true, true, 0
		for _, t := range traces {
			if t.End != EndReturn {
				continue
			}
			n++
			// index provenance
			var shardLoad *Event
			var shardIdx int
			for j, e := range t.Events {
				if e.Kind == EvLoad && e.Addr.Kind == KIndexAddr {
					if _, ok := isInitOfField(e.Addr.Args[0], shards); ok {
						shardLoad, shardIdx = e, j
					}
				}
			}
			if shardLoad == nil {
				okP = false
				c.violated(prefix+".index-provenance", cons, fn.Pos(), "the method does not select a shard from the shard slice", c.witness(t, len(t.Events)-1)...)
				continue
			}
			idx := shardLoad.Addr.Args[1]
			var keyArg *Sym
			for j := 0; j < shardIdx; j++ {
				e := t.Events[j]
				if calKey != nil && e.Kind == EvCall && e.Val != nil && e.Res != nil && e.Res.Key() == idx.Key() {
					if _, ok := isInitOfField(e.Val, calKey); ok && len(e.Args) == 1 {
						keyArg = e.Args[0].strip()
					}
				}
				if flagForm && e.Kind == EvCall && e.Callee != nil && e.Res != nil && e.Res.Key() == idx.Key() && len(e.Args) == 2 {
					mn := e.Callee.Name()
					if _, ok := isInitOfField(e.Args[0], rehashF); ok && recvNamedName(e.Callee) == "ReMap" && (mn == "SimpleIndex" || mn == "XHashIndex") {
						keyArg = e.Args[1].strip()
						// which of the two is decided by flag fields of the container only, the same way in every method
						sel := ""
						for _, f := range t.factsBefore(j) {
							if fa := f.X; fa.Kind == KInit && fa.Args[0].Kind == KFieldAddr && fa.Args[0].Args[0].Key() == t.Params[0].Key() {
								if b, isB := f.Y.boolConst(); isB && f.Op == token.EQL {
									sel += fmt.Sprintf("%s=%v;", fa.Args[0].Field.Name(), b)
									if !c.immutableField(fa.Args[0].Field) {
										okP = false
										c.violated(prefix+".index-provenance", cons, e.Pos, "the routing flag "+fa.Args[0].Field.Name()+" is written after construction: a key can move to another shard", c.witness(t, j)...)
									}
								}
							}
						}
						if prev, seen := flagChoice[sel]; seen && prev != mn {
							okP = false
							c.violated(prefix+".index-provenance", cons, e.Pos, fmt.Sprintf("under %q this method routes with %s while a sibling routes with %s: operations on one key can hit different shards", sel, mn, prev), c.witness(t, j)...)
						}
						flagChoice[sel] = mn
					}
				}
			}
			if keyArg == nil {
				okP = false
				c.violated(prefix+".index-provenance", cons, shardLoad.Pos, "the shard index is not the result of the container's index function: "+c.short(idx.Key()), c.witness(t, shardIdx)...)
				continue
			}
			if keyArg.Kind != KParam {
				okP = false
				c.violated(prefix+".index-provenance", cons, shardLoad.Pos, "the index function is not applied to the caller's key: "+c.short(keyArg.Key()), c.witness(t, shardIdx)...)
				continue
			}
			routedType[typeStr(keyArg.Typ)] = appendUnique(routedType[typeStr(keyArg.Typ)], m.Name())
			// delegation: a call of the same-named method on that shard with own arguments
			var call *Event
			for j := shardIdx; j < len(t.Events); j++ {
				e := t.Events[j]
				if e.Kind == EvCall && len(e.Args) > 0 && e.Args[0].Key() == shardLoad.Res.Key() {
					call = e
					break
				}
			}
			if call == nil || call.Method == nil || call.Method.Name() != m.Name() {
				okD = false
				got := "<none>"
				if call != nil {
					got = call.callName()
				}
				c.violated(prefix+".delegation", cons, fn.Pos(), fmt.Sprintf("%s does not delegate to the shard's %s (calls %s)", m.Name(), m.Name(), got), c.witness(t, len(t.Events)-1)...)
				continue
			}
			good := len(call.Args)-1 == len(fn.Params)-1
			if good {
				for k := 1; k < len(call.Args); k++ {
					a := call.Args[k].strip()
					if a.Kind != KParam || a.Ref.(ssa.Value) != ssa.Value(fn.Params[k]) {
						good = false
					}
				}
			}
			// the key given to the index function is a parameter that is also passed on
			passed := false
			for k := 1; k < len(call.Args); k++ {
				if call.Args[k].strip().Key() == keyArg.Key() {
					passed = true
				}
			}
			if !good || !passed {
				okD = false
				c.violated(prefix+".delegation", cons, call.Pos, "the shard method is not called with the wide method's own arguments in order (or the routed key is not the one passed on)", c.witness(t, len(t.Events)-1)...)
				continue
			}
			// results unchanged
			var res []*Sym
			if call.Res != nil {
				if call.Res.Kind == KTuple {
					res = call.Res.Args
				} else {
					res = []*Sym{call.Res}
				}
			}
			same := len(res) == len(t.Ret)
			if same {
				for k := range res {
					if res[k].Key() != t.Ret[k].Key() {
						same = false
					}
				}
			}
			if !same {
				okD = false
				c.violated(prefix+".delegation", cons, call.Pos, "the results of the shard method are not returned unchanged", c.witness(t, len(t.Events)-1)...)
			}
		}
		if n == 0 {
			c.undecided(prefix+".index-provenance", cons, fn.Pos(), "no returning path")
			continue
		}
		if okP {
			c.holds(prefix+".index-provenance", cons, fn.Pos(), "shards[calKeyFn(key)]")
		}
		if okD && okP {
			c.holds(prefix+".delegation", cons, fn.Pos(), "same-named shard method, own arguments, results returned unchanged")
		}
	}
	// siblings: all methods of one container route by a parameter of the same type (the key)
	if len(routedType) > 1 {
		best, bestN := "", 0
		for t, ms := range routedType {
			if len(ms) > bestN {
				best, bestN = t, len(ms)
			}
		}
		for t, ms := range routedType {
			if t == best {
				continue
			}
			for _, mn := range ms {
				c.violated(prefix+".index-provenance", "(*"+tname+")."+mn, named.Obj().Pos(), fmt.Sprintf("%s routes by a parameter of type %s while its siblings route by the key of type %s: acquire and release of one key can hit different shards", mn, t, best), "")
			}
		}
	}
}

func appendUnique(l []string, s string) []string {
	for _, x := range l {
		if x == s {
			return l
		}
	}
	return append(l, s)
}

func recvNamedOfBound(f *ssa.Function) *types.Named {
	// bound method wrapper: FreeVars[0] is the receiver
	if len(f.FreeVars) == 1 {
		t := f.FreeVars[0].Type()
		if p, ok := t.(*types.Pointer); ok {
			t = p.Elem()
		}
		n, _ := t.(*types.Named)
		return n
	}
	return nil
}

var _ = constant.MakeInt64

// pooledBytesUnwritten walks the paths of f, which takes a byte array from a sync.Pool: on every path, each slice of
// that array handed to another function must lie within the prefix the path has written (binary.*Endian.PutUintNN
// at offset 0, element stores at constant indexes). Returns "" when that holds, otherwise what was found.
func (c *Ctx) pooledBytesUnwritten(f *ssa.Function) string {
	traces, complete := c.Trace(f, TraceConfig{})
	if !complete || len(traces) == 0 {
		return "paths not enumerated"
	}
	sliceOver := func(a *Sym, buf string) (lo, n int64, ok bool) {
		// a slice expression over the pooled array: offset and length when constant
		if a == nil || a.Kind != KOp || a.Name != "slice" || len(a.Args) < 3 || !strings.Contains(a.Args[0].Key(), buf) {
			return 0, 0, false
		}
		var arrLen int64 = -1
		if a.Args[0].Typ != nil {
			if pt, isP := a.Args[0].Typ.Underlying().(*types.Pointer); isP {
				if arr, isA := pt.Elem().Underlying().(*types.Array); isA {
					arrLen = arr.Len()
				}
			}
		}
		if arrLen < 0 {
			return 0, 0, false
		}
		hi := arrLen
		if a.Args[1].Name != "none" {
			v, isC := a.Args[1].intConst()
			if !isC {
				return 0, 0, false
			}
			lo = v
		}
		if a.Args[2].Name != "none" {
			v, isC := a.Args[2].intConst()
			if !isC {
				return 0, 0, false
			}
			hi = v
		}
		return lo, hi - lo, true
	}
	for _, t := range traces {
		buf := ""
		var written int64
		for _, e := range t.Events {
			if e.Kind != EvCall && e.Kind != EvStore {
				continue
			}
			if e.Kind == EvCall && e.callName() == "(*sync.Pool).Get" && e.Res != nil {
				buf, written = e.Res.Key(), 0
				continue
			}
			if buf == "" {
				continue
			}
			if e.Kind == EvStore {
				if e.Addr.Kind == KIndexAddr && strings.Contains(e.Addr.Args[0].Key(), buf) {
					i, isC := e.Addr.Args[1].intConst()
					if !isC {
						return "a byte of the pooled buffer is written at a position that is not constant"
					}
					if i <= written && i+1 > written {
						written = i + 1
					}
				}
				continue
			}
			n := e.callName()
			if n == "(*sync.Pool).Put" {
				continue
			}
			width := int64(0)
			switch {
			case strings.HasSuffix(n, "Endian).PutUint16"):
				width = 2
			case strings.HasSuffix(n, "Endian).PutUint32"):
				width = 4
			case strings.HasSuffix(n, "Endian).PutUint64"):
				width = 8
			}
			for ai, a := range e.Args {
				if !strings.Contains(a.Key(), buf) {
					continue
				}
				lo, ln, ok := sliceOver(a, buf)
				if !ok {
					return "the pooled buffer is handed to " + n + " in a form whose extent is not constant"
				}
				if width > 0 && ai == 1 {
					if lo <= written && ln >= width && lo+width > written {
						written = lo + width
					}
					continue
				}
				if lo+ln > written {
					return fmt.Sprintf("%s is given bytes [%d,%d) of the pooled buffer while the path has written only the first %d: the rest is left over from the keys hashed before", n, lo, lo+ln, written)
				}
			}
		}
	}
	return ""
}
