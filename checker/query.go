package main

import (
	"fmt"
	"go/token"
	"go/types"
	"sort"
	"strings"

	"golang.org/x/tools/go/ssa"
)

// ---------------------------------------------------------------------------------------------
// trace queries used by the property rules

// lock modes
const (
	lockNone = 0
	lockR    = 1
	lockW    = 2
)

func lockOp(e *Event) (acquire bool, mode int, ok bool) {
	if e.Kind != EvCall {
		return
	}
	switch e.callName() {
	case "(*sync.Mutex).Lock", "(*sync.RWMutex).Lock", "(sync.Locker).Lock":
		return true, lockW, true
	case "(*sync.RWMutex).RLock":
		return true, lockR, true
	case "(*sync.Mutex).Unlock", "(*sync.RWMutex).Unlock", "(sync.Locker).Unlock":
		return false, lockW, true
	case "(*sync.RWMutex).RUnlock":
		return false, lockR, true
	}
	return
}

// heldBefore computes the lockset (mutex key -> mode) in force just before event i.
// entry gives the lockset assumed on entry (nil for public entry points).
func (t *Trace) heldBefore(i int) map[string]int {
	held := map[string]int{}
	for j := 0; j < i && j < len(t.Events); j++ {
		e := t.Events[j]
		if acq, mode, ok := lockOp(e); ok && len(e.Args) > 0 {
			k := e.Args[0].Key()
			if acq {
				held[k] = mode
			} else {
				delete(held, k)
			}
		}
	}
	return held
}

// factsBefore lists the branch facts established before event i.
func (t *Trace) factsBefore(i int) []Fact {
	var out []Fact
	for j := 0; j < i && j < len(t.Events); j++ {
		e := t.Events[j]
		if e.Kind == EvBranch {
			out = append(out, factsOf(e.Cond, e.Taken, e.Pos, j)...)
		}
	}
	return out
}

// witness renders the path up to event i as file:line steps (branches and calls only, bounded).
func (c *Ctx) witness(t *Trace, i int) []string {
	var out []string
	for j := 0; j <= i && j < len(t.Events); j++ {
		e := t.Events[j]
		switch e.Kind {
		case EvBranch, EvCall, EvEnter, EvStore, EvMapDelete, EvMapUpdate, EvSelect, EvPanic, EvReturn, EvClose, EvSend:
			s := fmt.Sprintf("%s: %s", c.posStr(e.Pos), c.short(e.String()))
			out = append(out, s)
		}
	}
	if len(out) > 40 {
		out = append(out[:10], append([]string{"..."}, out[len(out)-29:]...)...)
	}
	return out
}

func (c *Ctx) short(s string) string {
	s = strings.ReplaceAll(s, c.ModPath+"/", "")
	if len(s) > 300 {
		s = s[:300] + "…"
	}
	return s
}

// cmpFact reports whether facts contain  X op Y  (also accepting the mirrored form).
func hasFact(facts []Fact, match func(f Fact) bool) bool {
	for _, f := range facts {
		if match(f) {
			return true
		}
		g := Fact{Op: swapOp(f.Op), X: f.Y, Y: f.X, Pos: f.Pos, Idx: f.Idx}
		if g.Op != f.Op || f.Op == token.EQL || f.Op == token.NEQ {
			if match(g) {
				return true
			}
		}
	}
	return false
}

// implies reports whether fact f entails X op Y for the same operands (e.g. X > Y entails X >= Y, X != Y).
func opImplies(have, want token.Token) bool {
	if have == want {
		return true
	}
	switch have {
	case token.LSS:
		return want == token.LEQ || want == token.NEQ
	case token.GTR:
		return want == token.GEQ || want == token.NEQ
	case token.EQL:
		return want == token.LEQ || want == token.GEQ
	}
	return false
}

// isLoadOfField: s is the (initial or havocked) content of cell &X.f ; returns X.
func (t *Trace) cellOf(s *Sym) *Sym {
	if s != nil && s.Kind == KInit {
		return s.Args[0]
	}
	return nil
}

// valueIsFieldContent reports whether sym s is the content of a cell of field f *at event index i*,
// i.e. the most recent load/store of such a cell before i produced s. Returns the cell address.
func (t *Trace) contentOfFieldAt(s *Sym, f *types.Var, i int) *Sym {
	for j := i - 1; j >= 0; j-- {
		e := t.Events[j]
		if e.Kind == EvStore && e.Addr.isFieldAddrOf(f) {
			if e.Val.Key() == s.Key() {
				return e.Addr
			}
			// a store of another value to a cell of this field: content changed (may alias)
			return nil
		}
		if e.Kind == EvLoad && e.Addr.isFieldAddrOf(f) && e.Res.Key() == s.Key() {
			// make sure no store to the field happened between j and i — ensured by scanning backwards
			return e.Addr
		}
		if acq, _, ok := lockOp(e); ok && acq {
			// the lock was (re)acquired after the value was read: the value may be stale
			// keep scanning: a later load would have been found first
		}
	}
	return nil
}

// isFieldValue: s is a value read from (or last stored to) a cell of field f on this path.
func isInitOfField(s *Sym, f *types.Var) (*Sym, bool) {
	if s != nil && s.Kind == KInit && s.Args[0].isFieldAddrOf(f) {
		return s.Args[0].Args[0], true
	}
	return nil, false
}

// ---------------------------------------------------------------------------------------------
// access classification for guarded-by rules

type access struct {
	idx   int
	ev    *Event
	base  *Sym
	write bool
	what  string
}

// refersToField: does sym denote the field cell itself (&X.f, or below it) or the object the field points to?
// immutablePtr: when the field is immutable after construction, reading the pointer itself is no access.
func symFieldBase(s *Sym, f *types.Var) (*Sym, bool) {
	for s != nil {
		switch s.Kind {
		case KFieldAddr:
			if sameField(s.Field, f) {
				return s.Args[0], true
			}
			s = s.Args[0]
		case KIndexAddr:
			s = s.Args[0]
		case KInit:
			s = s.Args[0]
		case KConv:
			s = s.Args[0]
		case KOp:
			if s.Name == "slice" {
				s = s.Args[0]
			} else {
				return nil, false
			}
		default:
			return nil, false
		}
	}
	return nil, false
}

var pureContainerMethods = map[string]bool{
	"(*container/list.List).Len": true, "(*container/list.List).Front": true, "(*container/list.List).Back": true,
	"(*container/list.Element).Next": true, "(*container/list.Element).Prev": true,
	"(*github.com/eapache/queue.Queue).Length": true, "(*github.com/eapache/queue.Queue).Peek": true, "(*github.com/eapache/queue.Queue).Get": true,
}

// accessesOf lists the events of a trace that touch state field f.
func (c *Ctx) accessesOf(t *Trace, f *types.Var) []access {
	var out []access
	imm := c.immutableField(f)
	for i, e := range t.Events {
		switch e.Kind {
		case EvLoad:
			if base, ok := symFieldBase(e.Addr, f); ok {
				if imm && e.Addr.isFieldAddrOf(f) {
					continue // reading a never-reassigned pointer/map header needs no lock
				}
				out = append(out, access{i, e, base, false, "read"})
			}
		case EvStore:
			if base, ok := symFieldBase(e.Addr, f); ok {
				out = append(out, access{i, e, base, true, "write"})
			}
		case EvCall:
			for _, a := range e.Args {
				if a == nil {
					continue
				}
				if base, ok := symFieldBase(a.strip(), f); ok {
					if _, isLock := lockOpName(e.callName()); isLock {
						continue
					}
					out = append(out, access{i, e, base, !pureContainerMethods[e.callName()], "call " + e.callName()})
					break
				}
			}
		case EvMapLookup:
			if base, ok := symFieldBase(e.Addr, f); ok {
				out = append(out, access{i, e, base, false, "map read"})
			}
		case EvMapUpdate, EvMapDelete:
			if base, ok := symFieldBase(e.Addr, f); ok {
				out = append(out, access{i, e, base, true, "map write"})
			}
		}
	}
	return out
}

func lockOpName(n string) (bool, bool) {
	switch n {
	case "(*sync.Mutex).Lock", "(*sync.RWMutex).Lock", "(*sync.RWMutex).RLock", "(*sync.Mutex).Unlock", "(*sync.RWMutex).Unlock", "(*sync.RWMutex).RUnlock",
		"(*sync.Cond).Wait", "(*sync.Cond).Signal", "(*sync.Cond).Broadcast":
		return true, true
	}
	return false, false
}

// guard describes one line of a guarded-by table.
type guard struct {
	Field    *types.Var // the state
	Mutex    *types.Var // the mutex field (value or pointer)
	SameBase bool       // the mutex must be the one of the same object as the field
	ReadOK   bool       // reads may happen under the read lock (RWMutex)
	Name     string
}

// mutexHeld checks whether the lockset contains a mutex that is field m (of object base when sameBase).
func mutexHeld(held map[string]int, m *types.Var, base *Sym, sameBase bool, needW bool) bool {
	for k, mode := range held {
		if needW && mode != lockW {
			continue
		}
		_ = k
	}
	return false
}

type heldLock struct {
	sym  *Sym
	mode int
}

// heldLocks is heldBefore with the symbolic mutexes kept.
func (t *Trace) heldLocks(i int) []heldLock {
	type hl struct {
		sym  *Sym
		mode int
	}
	m := map[string]heldLock{}
	var order []string
	for j := 0; j < i && j < len(t.Events); j++ {
		e := t.Events[j]
		if acq, mode, ok := lockOp(e); ok && len(e.Args) > 0 {
			k := e.Args[0].Key()
			if acq {
				if _, ok := m[k]; !ok {
					order = append(order, k)
				}
				m[k] = heldLock{e.Args[0], mode}
			} else {
				delete(m, k)
			}
		}
	}
	var out []heldLock
	for _, k := range order {
		if h, ok := m[k]; ok {
			out = append(out, h)
		}
	}
	return out
}

// isMutexField: is the held lock the mutex field m? Returns the object it belongs to.
func lockIsField(h heldLock, m *types.Var) (*Sym, bool) {
	s := h.sym
	if s.Kind == KFieldAddr && sameField(s.Field, m) { // value mutex: &X.m
		return s.Args[0], true
	}
	if s.Kind == KInit && s.Args[0].Kind == KFieldAddr && sameField(s.Args[0].Field, m) { // pointer mutex: *(&X.m)
		return s.Args[0].Args[0], true
	}
	// embedded: &X.m.RWMutex etc.
	if s.Kind == KFieldAddr {
		return lockIsField(heldLock{s.Args[0], h.mode}, m)
	}
	return nil, false
}

// entryPoints returns the functions of a package from which guarded-by style rules start: exported
// functions and methods, plus every function started with `go` and every function literal that is
// stored or passed (it may run on another goroutine with an empty lockset).
func (c *Ctx) entryPoints(rel string) []*ssa.Function {
	var out []*ssa.Function
	seen := map[*ssa.Function]bool{}
	all := c.funcsOf(rel)
	for _, f := range all {
		if f.Parent() != nil {
			continue
		}
		exported := false
		if o := fnObj(f); o != nil {
			exported = o.Exported()
			if sig, ok := o.Type().(*types.Signature); ok && sig.Recv() != nil && !exported {
				// unexported method: entry only if never called statically inside the module (checked below)
			}
		}
		if exported && !seen[f] {
			seen[f] = true
			out = append(out, f)
		}
	}
	// go targets
	for _, f := range all {
		for _, b := range f.Blocks {
			for _, in := range b.Instrs {
				if g, ok := in.(*ssa.Go); ok {
					var tgt *ssa.Function
					if sc := g.Call.StaticCallee(); sc != nil {
						tgt = sc
					} else if mc, ok := g.Call.Value.(*ssa.MakeClosure); ok {
						tgt = mc.Fn.(*ssa.Function)
					}
					if tgt != nil && len(tgt.Blocks) > 0 && !seen[tgt] && c.fnInModule(tgt) {
						seen[tgt] = true
						out = append(out, tgt)
					}
				}
			}
		}
	}
	sort.SliceStable(out, func(i, j int) bool { return out[i].Pos() < out[j].Pos() })
	return out
}

// checkGuardedBy applies a guarded-by table to every trace of every entry point.
// One obligation per (field, function containing the access).
func (c *Ctx) checkGuardedBy(rule string, entries []*ssa.Function, table []guard, cfg TraceConfig, exempt map[string]string) {
	type key struct{ field, fn string }
	type res struct {
		ok      bool
		pos     token.Pos
		detail  string
		witness []string
		n       int
	}
	results := map[key]*res{}
	var order []key
	for _, entry := range entries {
		if why, ok := exempt[c.fname(entry)]; ok {
			c.note("%s: entry %s exempt: %s", rule, c.fname(entry), why)
			continue
		}
		traces, complete := c.Trace(entry, cfg)
		if !complete {
			c.undecided(rule, c.fname(entry), entry.Pos(), "path enumeration exceeded its budget")
			continue
		}
		// lock balance: no path of an entry point returns while still holding one of the guarding mutexes
		// (every later operation on the object would block forever)
		{
			touches, balanced := false, true
			for _, t := range traces {
				for _, e := range t.Events {
					for _, g := range table {
						if lockOpOnField(e, g.Mutex) {
							touches = true
						}
					}
				}
				if t.End != EndReturn || !balanced {
					continue
				}
				for _, h := range t.heldLocks(len(t.Events)) {
					for _, g := range table {
						if _, is := lockIsField(h, g.Mutex); is && balanced {
							balanced = false
							c.violated(rule, c.fname(entry)+" lock balance", entry.Pos(), "a path returns while still holding "+g.Mutex.Name()+": every later operation that needs the mutex blocks forever", c.witness(t, len(t.Events)-1)...)
						}
					}
				}
			}
			if touches && balanced {
				c.holds(rule, c.fname(entry)+" lock balance", entry.Pos(), "every returning path has released the mutex")
			}
		}
		for _, t := range traces {
			for _, g := range table {
				for _, a := range c.accessesOf(t, g.Field) {
					if a.base != nil && a.base.root().Kind == KAlloc {
						continue // object under construction in this very path
					}
					fnName := c.fname(a.ev.Fn)
					if why, ok := exempt[fnName]; ok {
						_ = why
						continue
					}
					k := key{g.Name, fnName}
					r := results[k]
					if r == nil {
						r = &res{ok: true}
						results[k] = r
						order = append(order, k)
					}
					r.n++
					held := t.heldLocks(a.idx)
					ok := false
					for _, h := range held {
						obj, is := lockIsField(h, g.Mutex)
						if !is {
							continue
						}
						if g.SameBase && (a.base == nil || obj.Key() != a.base.Key()) {
							continue
						}
						if a.write || !g.ReadOK {
							if h.mode != lockW {
								continue
							}
						}
						ok = true
					}
					if !ok && r.ok {
						r.ok = false
						r.pos = a.ev.Pos
						mode := "read"
						if a.write {
							mode = "write"
						}
						r.detail = fmt.Sprintf("%s of %s (%s) without holding %s%s; entry point %s", mode, g.Name, a.what, g.Mutex.Name(), map[bool]string{true: " in write mode", false: ""}[a.write && g.ReadOK], c.fname(entry))
						r.witness = c.witness(t, a.idx)
					}
				}
			}
		}
	}
	for _, k := range order {
		r := results[k]
		cons := k.field + " in " + k.fn
		if r.ok {
			c.holds(rule, cons, token.NoPos, fmt.Sprintf("%d access(es) on all enumerated paths are made with the mutex held", r.n))
		} else {
			c.violated(rule, cons, r.pos, r.detail, r.witness...)
		}
	}
}

// fieldValues collects the values that cell &base.f held on this path (loaded from or stored to it).
// Meant for fields that are immutable after construction, where every such value is *the* value.
func fieldValues(t *Trace, f *types.Var, base *Sym) map[string]bool {
	out := map[string]bool{}
	for _, e := range t.Events {
		if (e.Kind == EvLoad || e.Kind == EvStore) && e.Addr.isFieldAddrOf(f) && e.Addr.Args[0].Key() == base.Key() {
			if e.Kind == EvLoad {
				out[e.Res.Key()] = true
			} else {
				out[e.Val.Key()] = true
			}
		}
	}
	return out
}

// loadedFrom reports whether sym v is a value that was loaded from (or stored to) a cell of field f
// somewhere in events [lo,hi) of the trace.
func loadedFrom(t *Trace, v *Sym, f *types.Var, lo, hi int) bool {
	if _, ok := isInitOfField(v, f); ok {
		return true
	}
	for j := lo; j < hi && j < len(t.Events); j++ {
		e := t.Events[j]
		if e.Kind == EvLoad && e.Addr.isFieldAddrOf(f) && e.Res.Key() == v.Key() {
			return true
		}
		if e.Kind == EvStore && e.Addr.isFieldAddrOf(f) && e.Val.Key() == v.Key() {
			return true
		}
	}
	return false
}

// constSliceLen: number of elements of a slice expression over a local array (buf[:], buf[:2], buf[1:3]); -1 if unknown.
func constSliceLen(a *Sym) int64 {
	if a == nil || a.Kind != KOp || a.Name != "slice" || len(a.Args) < 3 {
		return -1
	}
	r := a.Args[0].root()
	if r == nil || r.Kind != KAlloc || r.Typ == nil {
		return -1
	}
	p, ok := r.Typ.(*types.Pointer)
	if !ok {
		return -1
	}
	arr, ok := p.Elem().Underlying().(*types.Array)
	if !ok {
		return -1
	}
	lo, hi := int64(0), arr.Len()
	if a.Args[1].Name != "none" {
		v, isC := a.Args[1].intConst()
		if !isC {
			return -1
		}
		lo = v
	}
	if a.Args[2].Name != "none" {
		v, isC := a.Args[2].intConst()
		if !isC {
			return -1
		}
		hi = v
	}
	return hi - lo
}
