package main

import (
	"fmt"
	"go/token"
	"go/types"
	"sort"
	"strings"

	"golang.org/x/tools/go/ssa"
)

func init() {
	register(&Property{
		ID:       "C05",
		Patterns: []string{"./cache"},
		Explanation: "Decides on every path of the in-memory TTL cache's public methods (option callbacks opaque, the clock an opaque reading): (1) list, index and node fields are touched only under the cache's write lock; " +
			"(2) an entry found in the index is used — reported as existing, overwritten, refreshed, moved to the front or returned as a hit — only after its deadline was compared with a clock reading and found not expired (an expired entry is removed instead); " +
			"(3) index and list change together: a pushed element is indexed under the node's own key with no list removal in between, every list removal comes with the delete of that node's key, Clear resets both; " +
			"(4) after every insertion the length is compared with size and the victim of an eviction is list.Back(); (5) remove-after-get removes before returning, update-ttl recomputes the deadline, keep-ttl leaves it alone and otherwise a Set refreshes it; a hit returns the node's value; deadline(ttl) is MaxInt64 for ttl<=0 and now()+ttl otherwise; " +
			"(6) the redis back-end reads the same options and maps must-not-exist to SetNX (not-ok -> ErrTTLKeyExists), keep-ttl to redis.KeepTTL, remove-after-get to GetDel, update-ttl to Expire, redis.Nil to ErrTTLKeyNotFound; (7) every time.Duration handed to redis that derives from a ttl (seconds, as fixed by now()+ttl with now()=Unix()) is multiplied by time.Second. " +
			"NOT decided: behavioural agreement of the two back-ends over whole histories, redis server semantics, clock readings exactly on a deadline.",
		Assumptions: []string{"container/list contract", "now() returns Unix seconds (read from its definition)", "go-redis command semantics"},
		Floors:      map[string]int{"C05.guarded-by": 8, "C05.expiry-before-use": 2, "C05.index-list-coupled": 3, "C05.bound": 1, "C05.options": 4, "C05.deadline-fn": 1, "C05.redis-mapping": 5, "C05.ttl-unit": 3, "C05.ttl-source": 3, "C05.redis-clear": 1, "C05.recency": 2, "C05.option-setters": 5},
		Run:         runC05,
	})
}

type ttlCtx struct {
	c                                  *Ctx
	size, ttl, eleList, eleHash, mu    *types.Var
	nKey, nValue, nDeadline            *types.Var
	sTTL, sMust, sKeep, gTTL, gRem, gU *types.Var
	cfg                                TraceConfig
}

func runC05(c *Ctx) {
	const rel = "cache"
	// the per-call option object is the call's own (a recycled one carries an earlier call's keep-ttl, ttl or
	// one-shot flag into this one)
	c.checkOptionTargets("C05.options", rel)
	x := &ttlCtx{c: c}
	x.size = c.mustField(rel, "ttlMemCache", "size")
	x.ttl = c.mustField(rel, "ttlMemCache", "ttl")
	x.eleList = c.mustField(rel, "ttlMemCache", "eleList")
	x.eleHash = c.mustField(rel, "ttlMemCache", "eleHash")
	x.mu = c.mustField(rel, "ttlMemCache", "RWMutex")
	x.nKey = c.mustField(rel, "ttlNode", "key")
	x.nValue = c.mustField(rel, "ttlNode", "value")
	x.nDeadline = c.mustField(rel, "ttlNode", "deadline")
	x.sTTL = c.mustField(rel, "setOption", "ttl")
	x.sMust = c.mustField(rel, "setOption", "mustNotExist")
	x.sKeep = c.mustField(rel, "setOption", "keepTTL")
	x.gTTL = c.mustField(rel, "getOption", "ttl")
	x.gRem = c.mustField(rel, "getOption", "removeAfterGet")
	x.gU = c.mustField(rel, "getOption", "updateTTL")
	for _, f := range []*types.Var{x.size, x.ttl, x.eleList, x.eleHash, x.mu, x.nKey, x.nValue, x.nDeadline, x.sTTL, x.sMust, x.sKeep, x.gTTL, x.gRem, x.gU} {
		if f == nil {
			return
		}
	}
	x.cfg = TraceConfig{
		NoHavoc: func(e *Event) bool { return isClockCall(e) },
		Inline: func(callee *ssa.Function, depth int) bool {
			return depth <= 6 && c.fnInModule(callee) && callee.Pkg != nil && strings.HasSuffix(callee.Pkg.Pkg.Path(), "/cache")
		},
	}
	var methods []*ssa.Function
	for _, m := range []string{"Set", "Get", "Remove", "Clear"} {
		if fn := c.mustFn(rel, "(*ttlMemCache)."+m); fn != nil {
			methods = append(methods, fn)
		}
	}
	c.checkGuardedBy("C05.guarded-by", methods, []guard{
		{Field: x.eleList, Mutex: x.mu, SameBase: true, Name: "ttlMemCache.eleList"},
		{Field: x.eleHash, Mutex: x.mu, SameBase: true, Name: "ttlMemCache.eleHash"},
		{Field: x.nValue, Mutex: x.mu, Name: "ttlNode.value"},
		{Field: x.nDeadline, Mutex: x.mu, Name: "ttlNode.deadline"},
	}, x.cfg, nil)
	for _, fn := range methods {
		traces, complete := c.Trace(fn, x.cfg)
		name := "(*cache.ttlMemCache)." + fn.Name()
		if !complete {
			c.undecided("C05.paths", name, fn.Pos(), "path budget exceeded")
			continue
		}
		for _, t := range traces {
			if t.End != EndReturn || x.infeasible(t) {
				continue
			}
			x.checkExpiry(t, name, fn.Name())
			x.checkCoupled(t, name, fn.Name())
			x.checkOptions(t, name, fn.Name())
			x.checkRecency(t, name, fn.Name())
		}
	}
	x.checkDeadlineFn()
	x.checkRedis()
	x.checkOptionSetters()
}

// checkOptionSetters: each public option constructor returns a closure that sets exactly the option field(s) it is
// named for, from its own argument — the rules above reason about the option *fields*; this ties the public option
// *functions* to them (WithKeepTTL that sets mustNotExist would make every rule above hold on the wrong request).
func (x *ttlCtx) checkOptionSetters() {
	c := x.c
	const rel = "cache"
	type want struct {
		field string
		val   string // "true" or "$arg"
		cond  bool   // only when the argument is non-zero (WithUpdateTTL)
	}
	table := map[string][]want{
		"WithTTL":            {{"ttl", "$arg", false}},
		"WithMustNotExist":   {{"mustNotExist", "true", false}},
		"WithKeepTTL":        {{"keepTTL", "true", false}},
		"WithRemoveAfterGet": {{"removeAfterGet", "true", false}},
		"WithUpdateTTL":      {{"updateTTL", "true", false}, {"ttl", "$arg", true}},
	}
	var names []string
	for n := range table {
		names = append(names, n)
	}
	sort.Strings(names)
	for _, n := range names {
		fn := c.mustFn(rel, n)
		if fn == nil {
			continue
		}
		cons := "cache." + n
		if len(fn.AnonFuncs) != 1 {
			c.violated("C05.option-setters", cons, fn.Pos(), "the option constructor does not return a single closure", "")
			continue
		}
		anon := fn.AnonFuncs[0]
		arg := ""
		if len(fn.Params) == 1 {
			arg = "$" + fn.Params[0].Name()
			// a captured parameter is reached through its cell inside the closure
			if len(anon.FreeVars) == 1 {
				if _, isPtr := anon.FreeVars[0].Type().(*types.Pointer); isPtr {
					arg = "*$" + anon.FreeVars[0].Name()
				}
			}
		}
		traces, _ := c.Trace(anon, TraceConfig{})
		ok, np := true, 0
		for _, t := range traces {
			if t.End != EndReturn {
				continue
			}
			np++
			got := map[string]string{}
			for _, e := range t.Events {
				if e.Kind == EvStore && e.Addr.Kind == KFieldAddr && e.Addr.Args[0].Kind == KParam {
					v := e.Val.Key()
					if b, isB := e.Val.boolConst(); isB {
						v = fmt.Sprint(b)
					}
					got[e.Addr.Field.Name()] = v
				}
			}
			facts := t.factsBefore(len(t.Events))
			argZero := arg != "" && hasFact(facts, func(f Fact) bool {
				z, isz := f.Y.intConst()
				return f.X.Key() == arg && isz && z == 0 && f.Op == token.EQL
			})
			exp := map[string]string{}
			for _, w := range table[n] {
				if w.cond && argZero {
					continue
				}
				v := w.val
				if v == "$arg" {
					v = arg
				}
				exp[w.field] = v
			}
			if fmt.Sprint(got) != fmt.Sprint(exp) && ok {
				ok = false
				c.violated("C05.option-setters", cons, anon.Pos(), fmt.Sprintf("the option sets %v, expected %v: callers asking for %s get a different request than the one the cache rules are checked for", got, exp, n), c.witness(t, len(t.Events)-1)...)
			}
		}
		if ok {
			c.check(np > 0, "C05.option-setters", cons, fn.Pos(), "sets exactly its own field(s)", "the option closure has no returning path")
		}
	}
	// the redis back-end addresses every key through its prefix, in all four keyed operations
	for _, m := range []string{"Set", "Get", "Remove"} {
		fn := c.mustFn(rel, "(*ttlRdsCache)."+m)
		if fn == nil {
			continue
		}
		cons := "(*cache.ttlRdsCache)." + m + " key"
		traces, _ := c.Trace(fn, x.cfg)
		ok, n := true, 0
		keyP := "$" + fn.Params[2].Name()
		for _, t := range traces {
			for i, e := range t.Events {
				if e.Kind != EvCall || e.Method == nil || e.Method.Pkg() == nil || !strings.HasSuffix(e.Method.Pkg().Path(), "go-redis/v9") {
					continue
				}
				switch e.Method.Name() {
				case "Set", "SetNX", "Get", "GetDel", "Expire", "Del":
				default:
					continue
				}
				n++
				// some argument is prefix + key
				good := false
				for _, a := range e.Args {
					a.walk(func(y *Sym) {
						if y.Kind == KBin && y.Op == token.ADD && y.Args[1].Key() == keyP && strings.Contains(y.Args[0].Key(), ".prefix") {
							good = true
						}
					})
					// Del takes a slice: look at the stored element
					if r := a.root(); r != nil && r.Kind == KAlloc {
						for _, st := range t.Events[:i] {
							if st.Kind == EvStore && st.Addr.root().Key() == r.Key() {
								st.Val.walk(func(y *Sym) {
									if y.Kind == KBin && y.Op == token.ADD && y.Args[1].Key() == keyP && strings.Contains(y.Args[0].Key(), ".prefix") {
										good = true
									}
								})
							}
						}
					}
				}
				if !good && ok {
					ok = false
					c.violated("C05.redis-mapping", cons, e.Pos, e.Method.Name()+" is issued for a key that is not prefix+key: this operation addresses another redis key than the other operations of the same cache (a removed key stays readable / a set key is not found)", c.witness(t, i)...)
				}
			}
		}
		if ok {
			c.check(n > 0, "C05.redis-mapping", cons, fn.Pos(), "every command addresses prefix+key", "no redis command found")
		}
	}
}

// checkRecency: a successful Get or Set that finds the key and keeps its entry moves that entry to the front of the
// list — eviction takes the tail, so an entry that is read or written without being moved is evicted although
// it was touched more recently than `size` other keys.
func (x *ttlCtx) checkRecency(t *Trace, name, method string) {
	if method != "Get" && method != "Set" {
		return
	}
	c := x.c
	if !t.Ret[len(t.Ret)-1].isNilConst() {
		return
	}
	facts := t.factsBefore(len(t.Events))
	ele, hit, _ := x.indexLookup(t, facts)
	if ele == nil || !hit {
		return
	}
	removed, moved := false, false
	for _, e := range t.Events {
		if x.listCall(e, "Remove") && len(e.Args) > 1 && e.Args[1].Key() == ele.Key() {
			removed = true
		}
		if x.listCall(e, "MoveToFront") && len(e.Args) > 1 && e.Args[1].Key() == ele.Key() {
			moved = true
		}
	}
	if removed {
		return
	}
	c.check(moved, "C05.recency", name+" touch", t.Events[0].Pos, "a found entry that is kept is moved to the front", method+" succeeds on an entry it found and keeps, without moving it to the front of the list: the key just touched is the next to be evicted although `size` other keys were touched less recently", c.witness(t, len(t.Events)-1)...)
}

// infeasible: paths excluded by container/list's contract or by the index invariant (only non-nil
// elements returned by PushFront are ever stored in eleHash — checked by the coupled-insert rule):
// Back()/Front() == nil directly after a push, or a found index entry that is nil.
func (x *ttlCtx) infeasible(t *Trace) bool {
	facts := t.factsBefore(len(t.Events))
	pushed := false
	for _, e := range t.Events {
		if x.listCall(e, "PushFront") || x.listCall(e, "PushBack") {
			pushed = true
		}
		if x.listCall(e, "Remove") || x.listCall(e, "Init") {
			pushed = false
		}
		if pushed && x.listCall(e, "Len") {
			r := e.Res
			if hasFact(facts, func(f Fact) bool {
				z, isz := f.Y.intConst()
				return f.X.Key() == r.Key() && isz && ((z == 0 && (f.Op == token.EQL || f.Op == token.LEQ)) || (z == 1 && f.Op == token.LSS))
			}) {
				return true // a list that was just pushed to is not empty
			}
		}
		if pushed && (x.listCall(e, "Back") || x.listCall(e, "Front")) {
			r := e.Res
			if hasFact(facts, func(f Fact) bool { return f.X.Key() == r.Key() && f.Op == token.EQL && f.Y.isNilConst() }) {
				return true
			}
		}
		if e.Kind == EvMapLookup && e.Res.Kind == KTuple {
			if _, ok := symFieldBase(e.Addr, x.eleHash); ok {
				if v, known := boolFact(facts, e.Res.Args[1]); known && v {
					mv := e.Res.Args[0]
					if hasFact(facts, func(f Fact) bool { return f.X.Key() == mv.Key() && f.Op == token.EQL && f.Y.isNilConst() }) {
						return true
					}
				}
			}
		}
	}
	return false
}

// isClockCall: a call through the package variable `now`.
func isClockCall(e *Event) bool {
	if e.Kind != EvCall || e.Val == nil || e.Val.Kind != KInit || e.Val.Args[0].Kind != KGlobal {
		return false
	}
	return e.Val.Args[0].Ref.(*ssa.Global).Name() == "now"
}

func (x *ttlCtx) listCall(e *Event, m string) bool {
	if e.Kind != EvCall || e.callName() != "(*container/list.List)."+m || len(e.Args) == 0 {
		return false
	}
	_, ok := isInitOfField(e.Args[0], x.eleList)
	return ok
}

// nodeOfElem: the node pointer obtained from element ele on this path (typeassert of ele.Value)
func nodeOfElem(n *Sym) (*Sym, bool) {
	if n.Kind == KOp && n.Name == "typeassert" && n.Args[0].Kind == KInit && n.Args[0].Args[0].Kind == KFieldAddr && n.Args[0].Args[0].Field.Name() == "Value" {
		return n.Args[0].Args[0].Args[0], true
	}
	return nil, false
}

// checkExpiry: rule 2.
func (x *ttlCtx) checkExpiry(t *Trace, name, method string) {
	c := x.c
	if method != "Set" && method != "Get" {
		return
	}
	facts := t.factsBefore(len(t.Events))
	// the looked-up element
	ele, found, missed := x.indexLookup(t, facts)
	_ = missed
	if ele == nil || !found {
		return
	}
	// was the node's deadline compared with a clock reading, and with which outcome?
	// expired := now > deadline
	checked, expired := false, false
	checkIdx := -1
	for i, e := range t.Events {
		if e.Kind != EvBranch {
			continue
		}
		for _, f := range factsOf(e.Cond, e.Taken, e.Pos, i) {
			var nowS, dl *Sym
			op := f.Op
			if x.isClockVal(t, f.X) && x.isDeadlineOf(f.Y, ele) {
				nowS, dl = f.X, f.Y
			} else if x.isClockVal(t, f.Y) && x.isDeadlineOf(f.X, ele) {
				nowS, dl, op = f.Y, f.X, swapOp(f.Op)
			}
			if nowS == nil || dl == nil {
				continue
			}
			switch op {
			case token.GTR, token.GEQ:
				checked, expired, checkIdx = true, true, i
			case token.LEQ, token.LSS:
				checked, expired, checkIdx = true, false, i
			}
		}
	}
	// uses of the found entry
	for i, e := range t.Events {
		use := ""
		switch {
		case x.listCall(e, "MoveToFront") && len(e.Args) > 1 && e.Args[1].Key() == ele.Key():
			use = "moved to the front (recency refreshed)"
		case e.Kind == EvStore && (e.Addr.isFieldAddrOf(x.nValue) || e.Addr.isFieldAddrOf(x.nDeadline)):
			if b, ok := nodeOfElem(e.Addr.Args[0]); ok && b.Key() == ele.Key() {
				use = "overwritten in place"
			}
		}
		if use == "" {
			continue
		}
		if !checked || expired || checkIdx > i {
			why := "without its deadline having been compared with the clock"
			if checked && expired {
				why = "although it was found expired"
			}
			c.violated("C05.expiry-before-use", name, e.Pos, "an entry found in the index is "+use+" "+why+": an expired key does not behave like a key that was never set (e.g. keep-ttl keeps a dead deadline, Get revives it)", c.witness(t, i)...)
			return
		}
	}
	ret := t.Ret[len(t.Ret)-1]
	isErr := func(n string) bool {
		return ret.Kind == KInit && ret.Args[0].Kind == KGlobal && ret.Args[0].Ref.(*ssa.Global).Name() == n
	}
	if method == "Set" && isErr("ErrTTLKeyExists") {
		if !checked || expired {
			c.violated("C05.expiry-before-use", name, t.Entry.Pos(), "Set(must-not-exist) reports ErrTTLKeyExists for an entry whose deadline was not compared with the clock (or that was found expired): Set(k, ttl=1); clock+2; Set(k, must-not-exist) fails although the key's time-to-live has elapsed", c.witness(t, len(t.Events)-1)...)
			return
		}
	}
	if method == "Get" && ret.isNilConst() {
		if !checked || expired {
			c.violated("C05.expiry-before-use", name, t.Entry.Pos(), "Get returns a hit for an entry whose deadline was not compared with the clock (or that was found expired)", c.witness(t, len(t.Events)-1)...)
			return
		}
	}
	if checked && expired {
		// an expired entry must be removed from list and index, and Get must report not-found
		removed := false
		for _, e := range t.Events {
			if x.listCall(e, "Remove") && len(e.Args) > 1 && e.Args[1].Key() == ele.Key() {
				removed = true
			}
		}
		if !removed {
			c.violated("C05.expiry-before-use", name, t.Entry.Pos(), "an entry found expired is left in the cache", c.witness(t, len(t.Events)-1)...)
			return
		}
		if method == "Get" && !isErr("ErrTTLKeyNotFound") {
			c.violated("C05.expiry-before-use", name, t.Entry.Pos(), "Get does not report not-found for an expired entry", c.witness(t, len(t.Events)-1)...)
			return
		}
	}
	c.holds("C05.expiry-before-use", name, t.Entry.Pos(), "")
}

func (x *ttlCtx) isClockVal(t *Trace, s *Sym) bool {
	for _, e := range t.Events {
		if isClockCall(e) && e.Res != nil && e.Res.Key() == s.Key() {
			return true
		}
	}
	return false
}

// isDeadlineOf: s is a value read from the deadline of the node of element ele
func (x *ttlCtx) isDeadlineOf(s *Sym, ele *Sym) bool {
	if s.Kind != KInit || !s.Args[0].isFieldAddrOf(x.nDeadline) {
		return false
	}
	b, ok := nodeOfElem(s.Args[0].Args[0])
	return ok && b.Key() == ele.Key()
}

// checkCoupled: rules 3 and 4.
func (x *ttlCtx) checkCoupled(t *Trace, name, method string) {
	c := x.c
	for i, e := range t.Events {
		switch {
		case x.listCall(e, "PushFront") || x.listCall(e, "PushBack"):
			if x.listCall(e, "PushBack") {
				c.violated("C05.index-list-coupled", name+" insert", e.Pos, "a new entry is pushed at the back: it is the first to be evicted although it is the most recently touched", c.witness(t, i)...)
				continue
			}
			node := e.Args[1].strip()
			ele := e.Res
			idx := -1
			for j := i + 1; j < len(t.Events); j++ {
				y := t.Events[j]
				if y.Kind == EvMapUpdate {
					if _, ok := symFieldBase(y.Addr, x.eleHash); ok && y.Val.Key() == ele.Key() {
						idx = j
						break
					}
				}
			}
			if idx < 0 {
				c.violated("C05.index-list-coupled", name+" insert", e.Pos, "an element is pushed on the list but not put in the index: it can never be found, refreshed or removed by key", c.witness(t, len(t.Events)-1)...)
				continue
			}
			// key of the index entry == node.key
			var nk *Sym
			for j := 0; j < i; j++ {
				y := t.Events[j]
				if y.Kind == EvStore && y.Addr.isFieldAddrOf(x.nKey) && y.Addr.Args[0].Key() == node.Key() {
					nk = y.Val
				}
			}
			if nk == nil || t.Events[idx].Args[0].Key() != nk.Key() {
				c.violated("C05.index-list-coupled", name+" insert", t.Events[idx].Pos, "the element is indexed under a key that is not its node's own key: removing it later deletes the wrong index entry", c.witness(t, idx)...)
				continue
			}
			bad := false
			for j := i + 1; j < idx; j++ {
				y := t.Events[j]
				if x.listCall(y, "Remove") || x.listCall(y, "Init") {
					bad = true
					c.violated("C05.index-list-coupled", name+" insert", y.Pos, "an element can be removed from the list between pushing the new element and indexing it: with size 0 the element just pushed is the victim, is removed and then indexed anyway — it stays retrievable and is never reclaimed", c.witness(t, idx)...)
					break
				}
			}
			if !bad {
				c.holds("C05.index-list-coupled", name+" insert", e.Pos, "PushFront(node) and eleHash[node.key]=ele with no removal in between")
			}
			// bound
			x.checkBound(t, name, i)
		case x.listCall(e, "Remove"):
			ele := e.Args[1]
			deleted := false
			for j := 0; j < len(t.Events); j++ {
				y := t.Events[j]
				if y.Kind == EvMapDelete {
					if _, ok := symFieldBase(y.Addr, x.eleHash); ok {
						k := y.Args[0]
						if k.Kind == KInit && k.Args[0].isFieldAddrOf(x.nKey) {
							if b, ok := nodeOfElem(k.Args[0].Args[0]); ok && b.Key() == ele.Key() {
								deleted = true
							}
						}
						// or the very key the element was just found under (the insert rule indexes every
						// element under its node's own key, so that is the same key)
						for _, z := range t.Events {
							if z.Kind != EvMapLookup || z.Args[0].Key() != k.Key() {
								continue
							}
							if _, isIdx := symFieldBase(z.Addr, x.eleHash); !isIdx {
								continue
							}
							r := z.Res
							if r.Kind == KTuple {
								r = r.Args[0]
							}
							if r.Key() == ele.Key() {
								deleted = true
							}
						}
					}
				}
			}
			c.check(deleted, "C05.index-list-coupled", name+" removal", e.Pos, "list.Remove(ele) with delete(eleHash, node.key)", "an element is removed from the list without deleting its node's key from the index: the key stays retrievable (and the bound on retrievable keys is lost)", c.witness(t, len(t.Events)-1)...)
		case x.listCall(e, "Init"):
			reset := false
			for _, y := range t.Events {
				if y.Kind == EvStore && y.Addr.isFieldAddrOf(x.eleHash) && y.Val.Kind == KAlloc {
					reset = true
				}
			}
			c.check(reset, "C05.index-list-coupled", name+" clear", e.Pos, "list and index reset together", "the list is cleared but the index keeps its entries", c.witness(t, i)...)
		case e.Kind == EvMapDelete:
			if _, ok := symFieldBase(e.Addr, x.eleHash); ok {
				// every index delete belongs to a list removal
				rm := false
				for _, y := range t.Events {
					if x.listCall(y, "Remove") {
						rm = true
					}
				}
				if !rm {
					c.violated("C05.index-list-coupled", name+" removal", e.Pos, "a key is deleted from the index while its element stays on the list: it occupies a slot forever", c.witness(t, i)...)
				}
			}
		}
	}
}

// checkBound: after the push at event i the length is compared with size; an eviction removes list.Back().
func (x *ttlCtx) checkBound(t *Trace, name string, i int) {
	c := x.c
	facts := t.factsBefore(len(t.Events))
	tested, over := false, false
	for j := i + 1; j < len(t.Events); j++ {
		y := t.Events[j]
		if x.listCall(y, "Len") {
			r := y.Res
			for _, f0 := range facts {
				// either way round: Len() > size, size < Len()
				for _, f := range []Fact{f0, {Op: swapOp(f0.Op), X: f0.Y, Y: f0.X}} {
					if f.X.Key() == r.Key() && loadedFrom(t, f.Y, x.size, 0, len(t.Events)) {
						switch f.Op {
						case token.GTR:
							tested, over = true, true
						case token.LEQ:
							tested, over = true, false
						}
					}
				}
			}
		}
	}
	if !tested {
		c.violated("C05.bound", name, t.Events[i].Pos, "after inserting an element the list length is not compared with size (`Len() > size`): more than size keys stay retrievable", c.witness(t, len(t.Events)-1)...)
		return
	}
	if over {
		// the victim is Back()
		okv := false
		// the element found in the index under the key of Back()'s node is Back() itself (every element is indexed
		// under its node's own key, and that lookup cannot miss: index-list-coupled)
		viaIndex := func(upto int, elem *Sym) (isBack, missed bool) {
			for k := i + 1; k < upto; k++ {
				z := t.Events[k]
				if z.Kind != EvMapLookup {
					continue
				}
				if _, isIdx := symFieldBase(z.Addr, x.eleHash); !isIdx {
					continue
				}
				kk := z.Args[0]
				if !(kk.Kind == KInit && kk.Args[0].isFieldAddrOf(x.nKey)) {
					continue
				}
				b, isNode := nodeOfElem(kk.Args[0].Args[0])
				if !isNode {
					continue
				}
				fromBack := false
				for m := i + 1; m < k; m++ {
					if x.listCall(t.Events[m], "Back") && t.Events[m].Res.Key() == b.Key() {
						fromBack = true
					}
				}
				if !fromBack {
					continue
				}
				r, okFlag := z.Res, (*Sym)(nil)
				if r.Kind == KTuple {
					r, okFlag = z.Res.Args[0], z.Res.Args[1]
				}
				if elem != nil && r.Key() == elem.Key() {
					isBack = true
				}
				if okFlag != nil {
					if v, known := boolFact(facts, okFlag); known && !v {
						missed = true
					}
				}
			}
			return
		}
		for j := i + 1; j < len(t.Events); j++ {
			y := t.Events[j]
			if x.listCall(y, "Remove") {
				for k := j - 1; k > i; k-- {
					if x.listCall(t.Events[k], "Back") && t.Events[k].Res.Key() == y.Args[1].Key() {
						okv = true
					}
				}
				if isBack, _ := viaIndex(j, y.Args[1]); isBack {
					okv = true
				}
			}
		}
		if _, missed := viaIndex(len(t.Events), nil); missed && !okv {
			c.holds("C05.bound", name, t.Events[i].Pos, "path on which the index lookup of the tail's own key misses: excluded by index-list-coupled")
			return
		}
		if !okv {
			c.violated("C05.bound", name, t.Events[i].Pos, "the cache is over its size but the element evicted is not list.Back() (the least recently touched key) or nothing is evicted", c.witness(t, len(t.Events)-1)...)
			return
		}
	}
	c.holds("C05.bound", name, t.Events[i].Pos, "")
}

// checkOptions: rule 5.
func (x *ttlCtx) checkOptions(t *Trace, name, method string) {
	c := x.c
	facts := t.factsBefore(len(t.Events))
	optVal := func(f *types.Var) (val, known bool) {
		for _, e := range t.Events {
			if e.Kind == EvLoad && e.Addr.isFieldAddrOf(f) {
				if v, k := boolFact(facts, e.Res); k {
					return v, true
				}
			}
		}
		return false, false
	}
	ele, found, missed := x.indexLookup(t, facts)
	_ = missed
	if len(t.Ret) == 0 {
		return
	}
	ret := t.Ret[len(t.Ret)-1]
	dlStores := 0
	var dlStore *Event
	valStored := false
	removedEle := false
	for _, e := range t.Events {
		if e.Kind == EvStore && e.Addr.isFieldAddrOf(x.nDeadline) && e.Addr.Args[0].root().Kind != KAlloc {
			dlStores++
			dlStore = e
		}
		if e.Kind == EvStore && e.Addr.isFieldAddrOf(x.nValue) && e.Addr.Args[0].root().Kind != KAlloc {
			valStored = e.Val.Key() == t.Params[3].Key()
		}
		if ele != nil && x.listCall(e, "Remove") && len(e.Args) > 1 && e.Args[1].Key() == ele.Key() {
			removedEle = true
		}
	}
	switch method {
	case "Set":
		if found && ret.isNilConst() && !removedEle {
			// overwrite path
			keep, known := optVal(x.sKeep)
			if known && keep && dlStores > 0 {
				c.violated("C05.options", name+" keep-ttl", dlStore.Pos, "keep-ttl is set but the deadline is rewritten", c.witness(t, len(t.Events)-1)...)
				return
			}
			if known && !keep && dlStores == 0 {
				c.violated("C05.options", name+" keep-ttl", t.Entry.Pos(), "an overwrite without keep-ttl does not refresh the deadline: the entry expires with its old time-to-live", c.witness(t, len(t.Events)-1)...)
				return
			}
			if !known {
				c.violated("C05.options", name+" keep-ttl", t.Entry.Pos(), "an overwrite decides about the deadline without consulting keep-ttl (keep-ttl must leave it alone, a plain Set must refresh it)", c.witness(t, len(t.Events)-1)...)
				return
			}
			if !valStored {
				c.violated("C05.options", name+" value", t.Entry.Pos(), "an overwrite does not store the caller's value in the entry: Get keeps returning the previous Set's value", c.witness(t, len(t.Events)-1)...)
				return
			}
			must, mk := optVal(x.sMust)
			if mk && must {
				c.violated("C05.options", name+" must-not-exist", t.Entry.Pos(), "must-not-exist is set, the key is live, but the Set succeeds", c.witness(t, len(t.Events)-1)...)
				return
			}
			if !mk {
				c.violated("C05.options", name+" must-not-exist", t.Entry.Pos(), "a live entry is overwritten without consulting must-not-exist", c.witness(t, len(t.Events)-1)...)
				return
			}
			c.holds("C05.options", name+" keep-ttl", t.Entry.Pos(), "")
			c.holds("C05.options", name+" must-not-exist", t.Entry.Pos(), "")
		}
	case "Get":
		if found && ret.isNilConst() {
			rem, rk := optVal(x.gRem)
			if !rk {
				c.violated("C05.options", name+" remove-after-get", t.Entry.Pos(), "a hit is returned without consulting remove-after-get", c.witness(t, len(t.Events)-1)...)
				return
			}
			if rem != removedEle {
				msg := "remove-after-get is set but the entry stays in the cache: a second reader gets the one-shot value again"
				if !rem {
					msg = "the entry is removed by a plain Get"
				}
				c.violated("C05.options", name+" remove-after-get", t.Entry.Pos(), msg, c.witness(t, len(t.Events)-1)...)
				return
			}
			c.holds("C05.options", name+" remove-after-get", t.Entry.Pos(), "")
			if !rem {
				upd, uk := optVal(x.gU)
				if !uk || (upd && dlStores == 0) || (!upd && dlStores > 0) {
					c.violated("C05.options", name+" update-ttl", t.Entry.Pos(), "update-ttl and the deadline rewrite do not agree on this path (update-ttl must recompute the deadline, a plain Get must not)", c.witness(t, len(t.Events)-1)...)
					return
				}
				c.holds("C05.options", name+" update-ttl", t.Entry.Pos(), "")
			}
			// the value returned is the node's value
			v := t.Ret[0]
			good := v.Kind == KInit && v.Args[0].isFieldAddrOf(x.nValue)
			if good {
				b, ok := nodeOfElem(v.Args[0].Args[0])
				good = ok && b.Key() == ele.Key()
			}
			c.check(good, "C05.options", name+" value", t.Entry.Pos(), "", "a hit does not return the found node's value", c.witness(t, len(t.Events)-1)...)
		}
		if !found && ele != nil {
			isNF := ret.Kind == KInit && ret.Args[0].Kind == KGlobal && ret.Args[0].Ref.(*ssa.Global).Name() == "ErrTTLKeyNotFound"
			if missed {
				c.check(isNF, "C05.options", name+" miss", t.Entry.Pos(), "", "a key that is not in the index is not reported as ErrTTLKeyNotFound", c.witness(t, len(t.Events)-1)...)
			}
		}
	}
}

func (x *ttlCtx) checkDeadlineFn() {
	c := x.c
	fn := c.mustFn("cache", "deadline")
	if fn == nil {
		return
	}
	traces, _ := c.Trace(fn, x.cfg)
	ok, n := true, 0
	for _, t := range traces {
		if t.End != EndReturn {
			continue
		}
		n++
		facts := t.factsBefore(len(t.Events))
		ttl := t.Params[0]
		nonPos := hasFact(facts, func(f Fact) bool {
			z, isz := f.Y.intConst()
			return f.X.Key() == ttl.Key() && isz && z == 0 && f.Op == token.LEQ
		})
		r := t.Ret[0]
		if nonPos {
			v, isC := r.intConst()
			if !(isC && v == 1<<63-1) {
				ok = false
			}
		} else {
			good := r.Kind == KBin && r.Op == token.ADD && ((x.isClockVal(t, r.Args[0]) && r.Args[1].Key() == ttl.Key()) || (x.isClockVal(t, r.Args[1]) && r.Args[0].Key() == ttl.Key()))
			if !good {
				ok = false
			}
		}
	}
	c.check(ok && n >= 2, "C05.deadline-fn", "cache.deadline", fn.Pos(), "MaxInt64 for ttl<=0, now()+ttl otherwise", "deadline(ttl) is not `never` for ttl<=0 and now()+ttl otherwise")
	// the clock is Unix seconds
	if pkg := c.ssaPkg("cache"); pkg != nil {
		okClock := false
		if init := pkg.Func("init"); init != nil {
			for _, b := range init.Blocks {
				for _, in := range b.Instrs {
					if st, isSt := in.(*ssa.Store); isSt {
						if g, isG := st.Addr.(*ssa.Global); isG && g.Name() == "now" {
							if f, isF := st.Val.(*ssa.Function); isF {
								for _, bb := range f.Blocks {
									for _, ii := range bb.Instrs {
										if call, isC := ii.(*ssa.Call); isC && call.Call.StaticCallee() != nil && call.Call.StaticCallee().String() == "(time.Time).Unix" {
											okClock = true
										}
									}
								}
							}
						}
					}
				}
			}
		}
		c.check(okClock, "C05.deadline-fn", "cache.now unit", 0, "now() = time.Now().Unix(): ttl values are seconds", "the clock of the in-memory cache no longer reads Unix seconds: the unit of every ttl changed for one back-end only")
	}
}

// ---------------------------------------------------------------------------------------------
// redis back-end

func (x *ttlCtx) checkRedis() {
	c := x.c
	const rel = "cache"
	setFn := c.mustFn(rel, "(*ttlRdsCache).Set")
	getFn := c.mustFn(rel, "(*ttlRdsCache).Get")
	if setFn == nil || getFn == nil {
		return
	}
	cmdName := func(e *Event) string {
		if e.Kind != EvCall {
			return ""
		}
		if e.Method != nil && e.Method.Pkg() != nil && strings.HasSuffix(e.Method.Pkg().Path(), "go-redis/v9") {
			return e.Method.Name()
		}
		if e.Callee != nil && strings.HasSuffix(e.Callee.Name(), "$bound") && strings.Contains(e.Callee.String(), "redis") {
			return strings.TrimSuffix(e.Callee.Name(), "$bound")
		}
		return ""
	}
	optVal := func(t *Trace, f *types.Var) (bool, bool) {
		facts := t.factsBefore(len(t.Events))
		for _, e := range t.Events {
			if e.Kind == EvLoad && e.Addr.isFieldAddrOf(f) {
				if v, k := boolFact(facts, e.Res); k {
					return v, true
				}
			}
		}
		return false, false
	}
	// unit rule on every Duration argument
	unitOK := func(t *Trace, i int, e *Event, cons string) {
		var sig *types.Signature
		if e.Method != nil {
			sig, _ = e.Method.Type().(*types.Signature)
		} else if e.Callee != nil {
			sig = e.Callee.Signature
		}
		for ai, a := range e.Args {
			isDur := a.Typ != nil && a.Typ.String() == "time.Duration"
			if sig != nil {
				pi := ai
				if e.Method != nil && e.Callee == nil {
					pi = ai - 1 // interface invoke: receiver first
				}
				if pi >= 0 && pi < sig.Params().Len() && sig.Params().At(pi).Type().String() == "time.Duration" {
					isDur = true
				}
			}
			if !isDur {
				continue
			}
			// constants (KeepTTL) are fine
			if a.isConst() {
				continue
			}
			fromTTL := false
			a.walk(func(s *Sym) {
				if loadedFrom(t, s, x.sTTL, 0, i) || loadedFrom(t, s, x.gTTL, 0, i) {
					fromTTL = true
				}
			})
			// the option's ttl as it stands at the call: last value stored to / loaded from the option's ttl
			// cell, forgotten whenever the option object is handed to a callback (the option functions)
			var cur, optBase *Sym
			for j := 0; j < i; j++ {
				x2 := t.Events[j]
				switch {
				case (x2.Kind == EvStore || x2.Kind == EvLoad) && (x2.Addr.isFieldAddrOf(x.sTTL) || x2.Addr.isFieldAddrOf(x.gTTL)):
					optBase = x2.Addr.Args[0]
					if x2.Kind == EvStore {
						cur = x2.Val
					} else {
						cur = x2.Res
					}
				case x2.Kind == EvCall && optBase != nil:
					for _, ca := range x2.Args {
						if ca.Key() == optBase.Key() {
							cur = nil
						}
					}
				}
			}
			fromCur := false
			if cur != nil {
				a.walk(func(s *Sym) {
					if s.Key() == cur.Key() {
						fromCur = true
					}
				})
			}
			c.check(fromTTL && fromCur, "C05.ttl-source", cons+" "+cmdName(e), e.Pos, "the expiry handed to redis is computed from the per-call option's ttl as it stands after the option functions ran", "the expiry handed to redis is not computed from the per-call option's ttl as it stands after the option functions ran (the value the in-memory back-end uses for the same call): with a ttl option that differs from the cache default the two back-ends expire the key at different times", c.witness(t, i)...)
			if !fromTTL {
				continue
			}
			scaled := a.Kind == KBin && a.Op == token.MUL
			if scaled {
				sec := false
				for _, op := range a.Args {
					if v, isC := op.intConst(); isC && v == 1000000000 {
						sec = true
					}
				}
				scaled = sec
			}
			c.check(scaled, "C05.ttl-unit", cons+" "+cmdName(e), e.Pos, "ttl * time.Second", "a ttl in seconds (the in-memory back-end adds it to Unix seconds) is handed to redis as a time.Duration without multiplying by time.Second: 10 s becomes 10 ns (PX 1), the key expires at once", c.witness(t, i)...)
		}
	}
	// Set
	{
		cons := "(*cache.ttlRdsCache).Set"
		traces, _ := c.Trace(setFn, x.cfg)
		okMap := true
		seenNX, seenKeep := false, false
		for _, t := range traces {
			if t.End != EndReturn {
				continue
			}
			must, mk := optVal(t, x.sMust)
			keep, kk := optVal(t, x.sKeep)
			facts := t.factsBefore(len(t.Events))
			for i, e := range t.Events {
				n := cmdName(e)
				if n == "" {
					continue
				}
				unitOK(t, i, e, cons)
				switch n {
				case "SetNX":
					seenNX = true
					if !(mk && must) && okMap {
						okMap = false
						c.violated("C05.redis-mapping", cons+" must-not-exist", e.Pos, "SETNX is used although must-not-exist is not set", c.witness(t, i)...)
					}
				case "Set":
					if mk && must && okMap {
						okMap = false
						c.violated("C05.redis-mapping", cons+" must-not-exist", e.Pos, "must-not-exist is set but a plain SET (which overwrites) is issued", c.witness(t, i)...)
					}
					if !mk && okMap {
						okMap = false
						c.violated("C05.redis-mapping", cons+" must-not-exist", e.Pos, "a plain SET (which overwrites) is issued on a path that never examined must-not-exist: combined with another option (keep-ttl) the request overwrites a live key on redis while the in-memory back-end reports already-exists", c.witness(t, i)...)
					}
					// expiration argument
					ex := e.Args[len(e.Args)-1]
					v, isC := ex.intConst()
					isKeep := isC && v == -1
					if kk && keep {
						seenKeep = true
						if !isKeep && okMap {
							okMap = false
							c.violated("C05.redis-mapping", cons+" keep-ttl", e.Pos, "keep-ttl is set but SET is not issued with redis.KeepTTL", c.witness(t, i)...)
						}
					} else if isKeep && okMap {
						okMap = false
						c.violated("C05.redis-mapping", cons+" keep-ttl", e.Pos, "SET KEEPTTL is issued without keep-ttl", c.witness(t, i)...)
					}
				}
			}
			// !ok -> ErrTTLKeyExists
			ret := t.Ret[0]
			for _, e := range t.Events {
				if e.Kind == EvCall && e.Method != nil && e.Method.Name() == "Result" && e.Res.Kind == KTuple && len(e.Res.Args) == 2 && mk && must {
					okv, known := boolFact(facts, e.Res.Args[0])
					errNil := hasFact(facts, func(f Fact) bool { return f.X.Key() == e.Res.Args[1].Key() && f.Op == token.EQL && f.Y.isNilConst() })
					if errNil && !known && ret.isNilConst() && okMap {
						okMap = false
						c.violated("C05.redis-mapping", cons+" must-not-exist", e.Pos, "SETNX's `was it set` answer is not examined before reporting success: an already existing key is reported as stored", c.witness(t, len(t.Events)-1)...)
					}
					if known && !okv && errNil {
						isEx := ret.Kind == KInit && ret.Args[0].Kind == KGlobal && ret.Args[0].Ref.(*ssa.Global).Name() == "ErrTTLKeyExists"
						if !isEx && okMap {
							okMap = false
							c.violated("C05.redis-mapping", cons+" must-not-exist", e.Pos, "SETNX reported `not set` but the caller does not get ErrTTLKeyExists", c.witness(t, len(t.Events)-1)...)
						}
					}
				}
			}
		}
		if okMap {
			c.check(seenNX, "C05.redis-mapping", cons+" must-not-exist", setFn.Pos(), "must-not-exist <-> SETNX, not-ok -> ErrTTLKeyExists", "must-not-exist is never mapped to SETNX: the redis back-end ignores the option the in-memory one honours")
			c.check(seenKeep, "C05.redis-mapping", cons+" keep-ttl", setFn.Pos(), "keep-ttl <-> redis.KeepTTL", "keep-ttl is never mapped to redis.KeepTTL: the redis back-end ignores the option the in-memory one honours")
		}
	}
	// Get
	{
		cons := "(*cache.ttlRdsCache).Get"
		traces, _ := c.Trace(getFn, x.cfg)
		okMap := true
		seenDel, seenExp, seenNil := false, false, false
		for _, t := range traces {
			if t.End != EndReturn {
				continue
			}
			rem, rk := optVal(t, x.gRem)
			upd, uk := optVal(t, x.gU)
			gotVal := t.Ret[1].isNilConst()
			expired := false
			for i, e := range t.Events {
				n := cmdName(e)
				if n != "" {
					unitOK(t, i, e, cons)
				}
				switch n {
				case "GetDel":
					seenDel = true
					if !(rk && rem) && okMap {
						okMap = false
						c.violated("C05.redis-mapping", cons+" remove-after-get", e.Pos, "GETDEL is used although remove-after-get is not set", c.witness(t, i)...)
					}
				case "Get":
					if rk && rem && okMap {
						okMap = false
						c.violated("C05.redis-mapping", cons+" remove-after-get", e.Pos, "remove-after-get is set but a plain GET is issued: the value can be read twice", c.witness(t, i)...)
					}
				case "Expire":
					seenExp = true
					expired = true
					if !(uk && upd) && okMap {
						okMap = false
						c.violated("C05.redis-mapping", cons+" update-ttl", e.Pos, "EXPIRE is issued without update-ttl", c.witness(t, i)...)
					}
				}
				if e.Kind == EvCall && e.callName() == "errors.Is" && len(e.Args) == 2 {
					facts := t.factsBefore(len(t.Events))
					if v, known := boolFact(facts, e.Res); known && v {
						ret := t.Ret[1]
						isNF := ret.Kind == KInit && ret.Args[0].Kind == KGlobal && ret.Args[0].Ref.(*ssa.Global).Name() == "ErrTTLKeyNotFound"
						isNilTarget := e.Args[1].Kind == KInit && e.Args[1].Args[0].Kind == KGlobal && e.Args[1].Args[0].Ref.(*ssa.Global).Name() == "Nil"
						if tv := e.Args[1].strip(); tv.Kind == KConst && tv.Typ != nil && strings.HasSuffix(tv.Typ.String(), "RedisError") {
							isNilTarget = true // redis.Nil is the typed constant proto.RedisError("redis: nil")
						}
						if isNilTarget {
							seenNil = true
							if !isNF && okMap {
								okMap = false
								c.violated("C05.redis-mapping", cons+" miss", e.Pos, "redis.Nil is not reported as ErrTTLKeyNotFound", c.witness(t, len(t.Events)-1)...)
							}
						}
					}
				}
			}
			if gotVal && uk && upd && !expired && okMap {
				okMap = false
				c.violated("C05.redis-mapping", cons+" update-ttl", getFn.Pos(), "update-ttl is set but no EXPIRE is issued on the hit path", c.witness(t, len(t.Events)-1)...)
			}
			if gotVal && !uk && okMap {
				okMap = false
				c.violated("C05.redis-mapping", cons+" update-ttl", getFn.Pos(), "a hit is returned without consulting update-ttl", c.witness(t, len(t.Events)-1)...)
			}
		}
		if okMap {
			c.check(seenDel, "C05.redis-mapping", cons+" remove-after-get", getFn.Pos(), "remove-after-get <-> GETDEL", "remove-after-get is never mapped to GETDEL")
			c.check(seenExp, "C05.redis-mapping", cons+" update-ttl", getFn.Pos(), "update-ttl <-> EXPIRE", "update-ttl is never mapped to EXPIRE")
			c.check(seenNil, "C05.redis-mapping", cons+" miss", getFn.Pos(), "redis.Nil -> ErrTTLKeyNotFound", "redis.Nil is no longer translated to ErrTTLKeyNotFound")
		}
	}
	// Clear: every key under the prefix is deleted — the enumeration must run to its end. Accepted forms: the
	// ScanCmd iterator driven until Next reports false, or explicit paging until the returned cursor is 0.
	if clearFn := c.mustFn(rel, "(*ttlRdsCache).Clear"); clearFn != nil {
		cons := "(*cache.ttlRdsCache).Clear"
		inl := func(callee *ssa.Function, depth int) bool { return false }
		traces, complete := c.Trace(clearFn, TraceConfig{Inline: inl})
		if !complete {
			c.undecided("C05.redis-clear", cons, clearFn.Pos(), "path budget exceeded")
		} else {
			ok, n, dels := true, 0, 0
			mname := func(e *Event) string {
				if e.Kind == EvCall && e.Method != nil {
					return e.Method.Name()
				}
				return ""
			}
			for _, t := range traces {
				if t.End != EndReturn {
					continue
				}
				n++
				facts := t.factsBefore(len(t.Events))
				// error exits: a command's Err() was found non-nil
				errExit := false
				var lastNext, scanRes *Event
				scanned := false
				for _, e := range t.Events {
					switch mname(e) {
					case "Err":
						if hasFact(facts, func(f Fact) bool { return f.X.Key() == e.Res.Key() && f.Op == token.NEQ && f.Y.isNilConst() }) {
							errExit = true
						}
					case "Scan":
						scanned = true
					case "Next":
						lastNext = e
					case "Result":
						scanRes = e
						if e.Res.Kind == KTuple && len(e.Res.Args) == 3 {
							ev := e.Res.Args[2]
							if hasFact(facts, func(f Fact) bool { return f.X.Key() == ev.Key() && f.Op == token.NEQ && f.Y.isNilConst() }) {
								errExit = true
							}
						}
					case "Del":
						dels++
					}
				}
				if errExit {
					continue
				}
				why := ""
				switch {
				case !scanned:
					why = "the keys under the prefix are not enumerated with SCAN on this path"
				case lastNext != nil:
					if v, known := boolFact(facts, lastNext.Res); !known || v {
						why = "the iterator is abandoned before Next reported the end of the enumeration"
					}
				case scanRes != nil && scanRes.Res.Kind == KTuple && len(scanRes.Res.Args) == 3:
					cur := scanRes.Res.Args[1]
					if !hasFact(facts, func(f Fact) bool {
						z, isz := f.Y.intConst()
						return f.X.Key() == cur.Key() && isz && z == 0 && f.Op == token.EQL
					}) {
						why = "only the page returned by one SCAN call is handled: the cursor it returned is not driven to 0"
					}
				default:
					why = "the SCAN result is neither iterated to its end nor paged until the cursor is 0"
				}
				if why != "" && ok {
					ok = false
					c.violated("C05.redis-clear", cons, clearFn.Pos(), why+": with more keys than one SCAN page returns, Clear leaves keys behind, the redis back-end keeps serving removed data (and reports already-exists) where the in-memory one is empty", c.witness(t, len(t.Events)-1)...)
				}
			}
			if ok {
				c.check(n > 0 && dels > 0, "C05.redis-clear", cons, clearFn.Pos(), fmt.Sprintf("%d normal exits, each after the enumeration ended; keys deleted with DEL", n), "Clear never issues DEL for the enumerated keys")
			}
		}
	}
}

// indexLookup: the element the path looked up in the index and what it learnt. Both spellings are read:
// `ele, ok := eleHash[key]` decided by ok, and `ele := eleHash[key]` decided by ele == nil (every value the
// index-list-coupled rule lets into the index is PushFront's result, never nil, so nil means absent).
func (x *ttlCtx) indexLookup(t *Trace, facts []Fact) (ele *Sym, found, missed bool) {
	for _, e := range t.Events {
		if e.Kind != EvMapLookup {
			continue
		}
		if _, ok := symFieldBase(e.Addr, x.eleHash); !ok {
			continue
		}
		found, missed = false, false
		if e.Res.Kind == KTuple {
			ele = e.Res.Args[0]
			if v, known := boolFact(facts, e.Res.Args[1]); known {
				found, missed = v, !v
			}
			continue
		}
		ele = e.Res
		r := e.Res
		if hasFact(facts, func(f Fact) bool { return f.X.Key() == r.Key() && f.Op == token.NEQ && f.Y.isNilConst() }) {
			found = true
		}
		if hasFact(facts, func(f Fact) bool { return f.X.Key() == r.Key() && f.Op == token.EQL && f.Y.isNilConst() }) {
			missed = true
		}
	}
	return
}
