package main

import (
	"fmt"
	"go/token"
	"go/types"
	"strings"

	"golang.org/x/tools/go/ssa"
)

// Engine E2: enumeration of the paths of a function's SSA control-flow graph with module callees inlined.
// Each path yields a Trace: the ordered events (calls, stores, loads of fields, branches, channel
// operations, returns, panics) with symbolic operands. Rules are predicates over traces.

type EvKind int

const (
	EvCall      EvKind = iota // opaque call (not inlined): Callee/Method, Args (receiver first), Res
	EvEnter                   // an inlined callee is entered: Callee, Args
	EvExit                    // an inlined callee returned: Callee, Res (tuple or value)
	EvStore                   // *Addr = Val (Old = previous content)
	EvLoad                    // Res = *Addr (only field / global / index cells are recorded)
	EvBranch                  // Cond evaluated to Taken
	EvReturn                  // entry function returns Args
	EvPanic                   // explicit panic(Args[0]) or injected panic of an opaque call
	EvGo                      // go Callee(Args) / go closure
	EvDefer                   // defer registered
	EvSend                    // Addr(chan) <- Val
	EvRecv                    // Res = <-Addr(chan)
	EvClose                   // close(Addr)
	EvSelect                  // select chose case FIdx (-1 default); Addr = chan of the case
	EvMapUpdate               // Addr(map)[Args[0]] = Val
	EvMapDelete               // delete(Addr, Args[0])
	EvMapLookup               // Res = Addr[Args[0]]
	EvLoopGen                 // loop header re-entered: state generalised
	EvRecover                 // recover() called; Res
)

var evNames = []string{"call", "enter", "exit", "store", "load", "branch", "return", "panic", "go", "defer", "send", "recv", "close", "select", "mapupdate", "mapdelete", "maplookup", "loopgen", "recover"}

type Event struct {
	Kind     EvKind
	Instr    ssa.Instruction
	Fn       *ssa.Function // function whose body contains Instr
	Depth    int
	Callee   *ssa.Function
	Method   *types.Func // invoked interface method, or the static callee's object
	Args     []*Sym
	Res      *Sym
	Addr     *Sym
	Val      *Sym
	Old      *Sym
	Cond     *Sym
	Taken    bool
	Gen      bool // inside a generalised loop iteration
	Deferred bool // executed from a defer
	InPanic  bool // executed while a panic unwinds
	Case     int
	Pos      token.Pos
}

func (e *Event) String() string {
	var b strings.Builder
	b.WriteString(evNames[e.Kind])
	if e.Callee != nil {
		b.WriteString(" " + e.Callee.String())
	} else if e.Method != nil {
		b.WriteString(" " + e.Method.FullName())
	}
	if e.Addr != nil {
		b.WriteString(" addr=" + e.Addr.Key())
	}
	if e.Val != nil {
		b.WriteString(" val=" + e.Val.Key())
	}
	if e.Cond != nil {
		fmt.Fprintf(&b, " cond=%s taken=%v", e.Cond.Key(), e.Taken)
	}
	if len(e.Args) > 0 {
		b.WriteString(" args=[")
		for i, a := range e.Args {
			if i > 0 {
				b.WriteString(", ")
			}
			b.WriteString(a.Key())
		}
		b.WriteString("]")
	}
	if e.Res != nil {
		b.WriteString(" res=" + e.Res.Key())
	}
	if e.Kind == EvSelect {
		fmt.Fprintf(&b, " case=%d", e.Case)
	}
	if e.Deferred {
		b.WriteString(" [deferred]")
	}
	if e.InPanic {
		b.WriteString(" [panicking]")
	}
	if e.Gen {
		b.WriteString(" [gen]")
	}
	return b.String()
}

type EndKind int

const (
	EndReturn EndKind = iota
	EndPanic
	EndCut   // loop cut after the generalised iteration
	EndBlock // blocks forever (e.g. select{} / unreachable)
	EndLimit // step limit
)

type Trace struct {
	Entry  *ssa.Function
	Events []*Event
	End    EndKind
	Ret    []*Sym
	Params []*Sym
	// Cut: for a path cut at a loop header after the generalised iteration, how each loop-carried
	// variable (phi of that header) is transformed by that iteration: Next expressed over Cur.
	Cut []PhiStep
}

// PhiStep is one loop-carried variable's transition across a generalised iteration.
type PhiStep struct {
	Phi  *ssa.Phi
	Name string
	Cur  *Sym
	Next *Sym
}

// callName gives a comparable name for the callee of a call event: "pkgpath.Func" or
// "(*pkgpath.T).M" / "(pkgpath.I).M" using the types.Func full name.
func (e *Event) callName() string {
	if e.Method != nil {
		return e.Method.FullName()
	}
	if e.Callee != nil {
		if o := e.Callee.Object(); o != nil {
			if f, ok := o.(*types.Func); ok {
				return f.FullName()
			}
		}
		return e.Callee.String()
	}
	return ""
}

// isCallTo reports whether the event is a call (opaque or entered) of the named function.
func (e *Event) isCallTo(names ...string) bool {
	if e.Kind != EvCall && e.Kind != EvEnter {
		return false
	}
	n := e.callName()
	for _, x := range names {
		if n == x {
			return true
		}
	}
	return false
}

type TraceConfig struct {
	MaxDepth  int
	MaxTraces int
	MaxSteps  int
	// Inline decides whether a resolved callee with a body is entered (default: module functions).
	Inline func(callee *ssa.Function, depth int) bool
	// MayPanic: opaque calls for which an additional panicking continuation is explored.
	MayPanic func(e *Event) bool
	// Devirt resolves an interface invoke or a call through a function value to a concrete function.
	Devirt func(call *ssa.CallCommon, recv *Sym) *ssa.Function
	// Havoc: opaque calls that must be treated as changing memory whatever the built-in table says.
	Havoc func(e *Event) bool
	// NoHavoc: opaque calls that leave memory alone in addition to the built-in table.
	NoHavoc func(e *Event) bool
	// RecordAllLoads records loads of every cell (default: field, index and global cells only)
	RecordAllLoads bool
}

type cell struct {
	addr *Sym
	val  *Sym
}

type deferred struct {
	instr *ssa.Defer
	fnSym *Sym // callee value for closures / func values (nil for static callee / invoke)
	args  []*Sym
}

type frame struct {
	fn       *ssa.Function
	block    *ssa.BasicBlock
	prev     *ssa.BasicBlock
	pc       int
	regs     map[ssa.Value]*Sym
	defers   []deferred
	loopGen  map[*ssa.BasicBlock]int
	call     ssa.CallInstruction // call site in the parent (nil for entry)
	fromDef  bool                // frame runs a deferred call
	unwind   bool                // this frame is running its defers because of a panic
	genDepth int
	inPanicD bool                                // deferred call started while panicking (recover() is live here)
	loopSnap map[*ssa.BasicBlock]map[string]*Sym // constant-valued cells when the loop header was first entered
	loopInv  map[*ssa.BasicBlock][]loopInvariant // candidate invariants assumed for the generalised iteration
}

// loopInvariant: cell `key` holds constant c at every arrival at the loop header (assumed for the
// generalised iteration, verified when the path returns to the header; refuted candidates are dropped
// and the enumeration restarts).
type loopInvariant struct {
	addr *Sym
	c    *Sym
	phi  *ssa.Phi // set (and addr nil) for a loop-carried variable instead of a cell
}

type evNode struct {
	ev   *Event
	prev *evNode
	n    int
}

type state struct {
	frames    []*frame
	store     map[string]*cell
	events    *evNode
	facts     map[string]bool
	eqc       map[string]*Sym
	nec       map[string][]*Sym
	nextID    int
	escaped   map[int]bool
	dirty     map[int]bool // escaped allocations that lived through a havoc: unmaterialised cells are unknown, not zero
	panicking *Sym
	steps     int
	gen       int
	cut       []PhiStep
}

type Tracer struct {
	c       *Ctx
	cfg     TraceConfig
	entry   *ssa.Function
	traces  []*Trace
	over    bool
	params  []*Sym
	badInv  map[string]bool // refuted candidate invariants: header block + cell key
	restart bool
}

func (st *state) clone() *state {
	n := &state{events: st.events, nextID: st.nextID, panicking: st.panicking, steps: st.steps, gen: st.gen}
	n.frames = make([]*frame, len(st.frames))
	for i, f := range st.frames {
		nf := *f
		nf.regs = make(map[ssa.Value]*Sym, len(f.regs))
		for k, v := range f.regs {
			nf.regs[k] = v
		}
		nf.defers = append([]deferred(nil), f.defers...)
		nf.loopGen = make(map[*ssa.BasicBlock]int, len(f.loopGen))
		for k, v := range f.loopGen {
			nf.loopGen[k] = v
		}
		if f.loopSnap != nil {
			nf.loopSnap = make(map[*ssa.BasicBlock]map[string]*Sym, len(f.loopSnap))
			for k, v := range f.loopSnap {
				nf.loopSnap[k] = v // snapshots are immutable once taken
			}
		}
		if f.loopInv != nil {
			nf.loopInv = make(map[*ssa.BasicBlock][]loopInvariant, len(f.loopInv))
			for k, v := range f.loopInv {
				nf.loopInv[k] = v
			}
		}
		n.frames[i] = &nf
	}
	n.store = make(map[string]*cell, len(st.store))
	for k, v := range st.store {
		n.store[k] = v
	}
	n.facts = make(map[string]bool, len(st.facts))
	for k, v := range st.facts {
		n.facts[k] = v
	}
	n.eqc = make(map[string]*Sym, len(st.eqc))
	for k, v := range st.eqc {
		n.eqc[k] = v
	}
	n.nec = make(map[string][]*Sym, len(st.nec))
	for k, v := range st.nec {
		n.nec[k] = v
	}
	n.escaped = make(map[int]bool, len(st.escaped))
	for k, v := range st.escaped {
		n.escaped[k] = v
	}
	n.dirty = make(map[int]bool, len(st.dirty))
	for k, v := range st.dirty {
		n.dirty[k] = v
	}
	return n
}

func (st *state) top() *frame { return st.frames[len(st.frames)-1] }

func (st *state) emit(e *Event) *Event {
	f := st.top()
	if e.Fn == nil {
		e.Fn = f.fn
	}
	e.Depth = len(st.frames) - 1
	e.Gen = st.gen > 0
	if e.Instr != nil && !e.Pos.IsValid() {
		e.Pos = e.Instr.Pos()
	}
	for _, fr := range st.frames {
		if fr.fromDef {
			e.Deferred = true
		}
	}
	e.InPanic = st.panicking != nil
	n := 0
	if st.events != nil {
		n = st.events.n + 1
	}
	st.events = &evNode{ev: e, prev: st.events, n: n}
	return e
}

// later gives the unknown content of cell addr after it may have been changed by other code (a later
// generation of the cell's content): still recognisable as "a value of that cell", but a different value.
func (st *state) later(addr *Sym, t types.Type) *Sym {
	st.nextID++
	return &Sym{Kind: KInit, Args: []*Sym{addr}, ID: st.nextID, Typ: t}
}

func (st *state) fresh(name string, t types.Type, ref interface{}) *Sym {
	st.nextID++
	return &Sym{Kind: KFresh, ID: st.nextID, Name: name, Typ: t, Ref: ref}
}

// Trace enumerates the paths of fn.
func (c *Ctx) Trace(fn *ssa.Function, cfg TraceConfig) ([]*Trace, bool) {
	if cfg.MaxDepth == 0 {
		cfg.MaxDepth = 6
		if c.Tier == "thorough" {
			cfg.MaxDepth = 8
		}
	}
	if cfg.MaxTraces == 0 {
		cfg.MaxTraces = 20000
		if c.Tier == "thorough" {
			cfg.MaxTraces = 200000
		}
	}
	if cfg.MaxSteps == 0 {
		cfg.MaxSteps = 20000
	}
	c.traced(fn)
	tr := &Tracer{c: c, cfg: cfg, entry: fn, badInv: map[string]bool{}}
	for round := 0; round < 6; round++ {
		tr.traces, tr.over, tr.restart, tr.params = nil, false, false, nil
		tr.runFrom(fn)
		if !tr.restart {
			break
		}
	}
	c.stat("traces", len(tr.traces))
	c.stat("trace_entries", 1)
	for _, t := range tr.traces {
		c.stat("trace_events", len(t.Events))
	}
	return tr.traces, !tr.over && !tr.restart
}

func (tr *Tracer) runFrom(fn *ssa.Function) {
	st := &state{store: map[string]*cell{}, facts: map[string]bool{}, eqc: map[string]*Sym{}, nec: map[string][]*Sym{}, escaped: map[int]bool{}, dirty: map[int]bool{}}
	fr := &frame{fn: fn, block: fn.Blocks[0], regs: map[ssa.Value]*Sym{}, loopGen: map[*ssa.BasicBlock]int{}}
	for _, p := range fn.Params {
		s := &Sym{Kind: KParam, Ref: p, Typ: p.Type()}
		fr.regs[p] = s
		tr.params = append(tr.params, s)
	}
	for _, fv := range fn.FreeVars {
		fr.regs[fv] = &Sym{Kind: KParam, Ref: fv, Typ: fv.Type()}
	}
	st.frames = []*frame{fr}
	tr.run(st)
}

func (tr *Tracer) finish(st *state, end EndKind, ret []*Sym) {
	if len(tr.traces) >= tr.cfg.MaxTraces {
		tr.over = true
		return
	}
	n := 0
	if st.events != nil {
		n = st.events.n + 1
	}
	evs := make([]*Event, n)
	for e := st.events; e != nil; e = e.prev {
		evs[e.n] = e.ev
	}
	t := &Trace{Entry: tr.entry, Events: evs, End: end, Ret: ret, Params: tr.params, Cut: st.cut}
	// a returned value the path has established to be nil is the nil constant (`return err` under `err == nil`)
	if end == EndReturn && len(ret) > 0 {
		var facts []Fact
		for i, r := range ret {
			if r == nil || r.isNilConst() || r.Typ == nil {
				continue
			}
			if b, isB := r.Typ.Underlying().(*types.Basic); isB && b.Info()&types.IsBoolean != 0 && !r.isConst() {
				// a returned condition the path has branched on is that constant (`return existed` under `existed`)
				if facts == nil {
					facts = t.factsBefore(len(evs))
				}
				if v, known := condFact(facts, r); known {
					nr := make([]*Sym, len(ret))
					copy(nr, t.Ret)
					nr[i] = symBool(v)
					t.Ret = nr
				}
				continue
			}
			switch r.Typ.Underlying().(type) {
			case *types.Interface, *types.Pointer, *types.Slice, *types.Map:
			default:
				continue
			}
			if k, known := st.eqc[r.Key()]; known && k.isNilConst() {
				// a loop-carried variable that is nil on every arrival at the loop header
				nr := make([]*Sym, len(ret))
				copy(nr, t.Ret)
				nr[i] = &Sym{Kind: KConst, Typ: r.Typ}
				t.Ret = nr
				continue
			}
			if facts == nil {
				facts = t.factsBefore(len(evs))
			}
			if hasFact(facts, func(f Fact) bool { return f.X.Key() == r.Key() && f.Op == token.EQL && f.Y.isNilConst() }) {
				nr := make([]*Sym, len(ret))
				copy(nr, t.Ret)
				nr[i] = &Sym{Kind: KConst, Typ: r.Typ}
				t.Ret = nr
			}
		}
	}
	tr.traces = append(tr.traces, t)
}
