package main

import (
	"fmt"
	"go/token"
	"go/types"
	"sort"
	"strings"

	"golang.org/x/tools/go/ssa"
)

func init() {
	register(&Property{
		ID:       "C15",
		Patterns: []string{"./syncx/pipe/mux"},
		Explanation: "Decides on every path of the worker's dispatch (handleAsync with the handlers inlined, store callbacks opaque and allowed to fail at every call): (1) every operation type that implements OpCode is dispatched and every path replies exactly once; " +
			"(2) the cache is written (Set) only with the value returned by the last store callback on the path, and only after that callback's error was tested nil; (3) the cache entry is deleted exactly on the paths where the delete callback succeeded; " +
			"(4) when the key was found cached and a mutating callback (add/update/upsert/delete) succeeded, the cache is refreshed or deleted before replying; (5) an add for a cached key replies ErrDupKey without calling any store callback; " +
			"(6) every cache call of a handler uses the key of its own operation; (7) Set/Delete on the cache are reachable only from the worker goroutine, never from the caller-side Do* methods (DoGet's fast path only reads); " +
			"(8) all WorkerGrp.Do* delegate to ws[locHash(k)] with their own arguments and locHash(k) lies in [0, muxSize) for every key; the worker loop dequeues with PopAnyway and handles each item once. " +
			"NOT decided: coherence when a callback fails after partially changing the store; ordering across workers; same-key serialisation under every schedule (follows informally from one FIFO worker per key, C12/C14).",
		Assumptions: []string{"muxSize >= 1", "callbacks named load*/isNotFound* do not modify the store"},
		Floors:      map[string]int{"C15.dispatch": 7, "C15.reply-once": 7, "C15.cache-set": 6, "C15.cache-delete": 1, "C15.refresh-on-hit": 5, "C15.dup-add": 1, "C15.key": 7, "C15.cache-writer": 7, "C15.route": 7, "C15.hash-range": 1, "C15.worker-loop": 2, "C15.facade": 4, "C15.reply-channel": 4},
		Run:         runC15,
	})
}

func runC15(c *Ctx) {
	const rel = "syncx/pipe/mux"
	handle := c.mustFn(rel, "(*Worker).handleAsync")
	ca := c.mustField(rel, "Worker", "ca")
	opF := c.mustField(rel, "AsyncC", "op")
	if handle == nil || ca == nil || opF == nil {
		return
	}
	inl := func(callee *ssa.Function, depth int) bool {
		if depth > 6 || !c.fnInModule(callee) || isQueueRecv(callee) {
			return false
		}
		if callee.Pkg != nil && strings.HasSuffix(callee.Pkg.Pkg.Path(), "/ulog") {
			return false
		}
		switch callee.Name() {
		case "SetR":
			return false
		}
		return true
	}
	traces, complete := c.Trace(handle, TraceConfig{Inline: inl, MaxDepth: 6})
	if !complete {
		c.undecided("C15.paths", "(*mux.Worker).handleAsync", handle.Pos(), "path budget exceeded")
		return
	}
	// implementers of OpCode
	opCode := c.namedType(rel, "OpCode")
	want := map[string]bool{}
	if opCode != nil {
		iface := opCode.Underlying().(*types.Interface)
		scope := c.pkg(rel).Types.Scope()
		// a struct that only serves as the embedded base of the operations (carrying the shared key field and its
		// accessor) is not an operation of its own
		embeddedBase := map[string]bool{}
		for _, n := range scope.Names() {
			if tn, ok := scope.Lookup(n).(*types.TypeName); ok {
				if st, isSt := tn.Type().Underlying().(*types.Struct); isSt {
					for i := 0; i < st.NumFields(); i++ {
						if f := st.Field(i); f.Embedded() {
							ft := f.Type()
							if p, isP := ft.(*types.Pointer); isP {
								ft = p.Elem()
							}
							if nn, isN := ft.(*types.Named); isN {
								embeddedBase[nn.Obj().Name()] = true
							}
						}
					}
				}
			}
		}
		for _, n := range scope.Names() {
			if tn, ok := scope.Lookup(n).(*types.TypeName); ok {
				if _, isIface := tn.Type().Underlying().(*types.Interface); isIface {
					continue
				}
				if embeddedBase[tn.Name()] && !tn.Exported() {
					continue
				}
				if types.Implements(types.NewPointer(tn.Type()), iface) {
					want["*"+tn.Name()] = true
				}
			}
		}
	}
	type agg struct {
		n                                        int
		reply, set, del, refresh, dup, key, seen bool
	}
	per := map[string]*agg{}
	get := func(k string) *agg {
		if per[k] == nil {
			per[k] = &agg{reply: true, set: true, del: true, refresh: true, dup: true, key: true}
		}
		return per[k]
	}
	isCacheCall := func(e *Event, m string) bool {
		if e.Kind != EvCall || e.Method == nil || e.Method.Name() != m || len(e.Args) == 0 {
			return false
		}
		_, ok := isInitOfField(e.Args[0], ca)
		return ok
	}
	cbName := func(e *Event) string {
		// call through a function-typed field of the op: returns the field name
		if e.Kind == EvCall && e.Val != nil && e.Val.Kind == KInit && e.Val.Args[0].Kind == KFieldAddr {
			return e.Val.Args[0].Field.Name()
		}
		return ""
	}
	readOnly := func(n string) bool {
		l := strings.ToLower(n)
		return strings.HasPrefix(l, "load") || strings.HasPrefix(l, "isnotfound")
	}
	for _, t := range traces {
		if t.End != EndReturn {
			continue
		}
		// which op type
		opType := ""
		var opSym *Sym
		facts := t.factsBefore(len(t.Events))
		for _, f := range facts {
			if f.X.Kind == KOp && f.X.Name == "typeassertok" && f.Op == token.EQL {
				if b, ok := f.Y.boolConst(); ok && b {
					opType = typeStr(f.X.Typ)
					opSym = &Sym{Kind: KOp, Name: "typeassert", Args: f.X.Args, Typ: f.X.Typ}
				}
			}
		}
		if opType == "" {
			continue // no case matched: covered by the dispatch obligation
		}
		if i := strings.LastIndex(opType, "."); i >= 0 {
			opType = "*" + opType[i+1:]
		}
		a := get(opType)
		a.n++
		a.seen = true
		cons := opType
		var replies, sets, dels, cbs []int
		hit, hitKnown := false, false
		for i, e := range t.Events {
			if e.Kind == EvCall && e.Method != nil && e.Method.Name() == "SetR" {
				replies = append(replies, i)
			}
			if isCacheCall(e, "Set") {
				sets = append(sets, i)
			}
			if isCacheCall(e, "Delete") {
				dels = append(dels, i)
			}
			if cbName(e) != "" {
				cbs = append(cbs, i)
			}
			if isCacheCall(e, "Peek") || isCacheCall(e, "Get") {
				okv := e.Res.Args[1]
				if v, known := boolFact(facts, okv); known {
					hit, hitKnown = v, true
				}
			}
			// key of every cache call
			for _, m := range []string{"Get", "Peek", "Set", "Delete"} {
				if isCacheCall(e, m) {
					k := e.Args[1].strip()
					good := k.Kind == KInit && k.Args[0].Kind == KFieldAddr && k.Args[0].Field.Name() == "k" && opSym != nil
					if good {
						// the key field of the operation itself, or promoted from a struct embedded in it
						base := k.Args[0].Args[0]
						for base.Kind == KFieldAddr && base.Field != nil && base.Field.Embedded() {
							base = base.Args[0]
						}
						good = base.Key() == opSym.Key()
					}
					if !good && a.key {
						a.key = false
						c.violated("C15.key", cons, e.Pos, "a cache call uses a key other than the key of the operation being handled: "+c.short(k.Key()), c.witness(t, i)...)
					}
				}
			}
		}
		// the reply is published last: a cache write or delete after SetR happens while the caller (whose get fast
		// path reads the cache from its own goroutine) already acts on the result
		if len(replies) == 1 && a.reply {
			for _, ci := range append(append([]int{}, sets...), dels...) {
				if ci > replies[0] {
					a.reply = false
					c.violated("C15.reply-once", cons, t.Events[ci].Pos, "the cache is updated after the reply was published: the caller can return from the operation and still read the old entry (e.g. a deleted value) from the cache", c.witness(t, ci)...)
					break
				}
			}
		}
		if len(replies) != 1 && a.reply {
			a.reply = false
			c.violated("C15.reply-once", cons, handle.Pos(), fmt.Sprintf("%d replies on a path (exactly one required: none leaves the caller waiting until its context ends, two block the worker on the 1-buffered channel and with it every key of this worker)", len(replies)), c.witness(t, len(t.Events)-1)...)
		}
		cbOK := func(i int) (succeeded, known bool) {
			e := t.Events[i]
			var errv *Sym
			if e.Res.Kind == KTuple && len(e.Res.Args) > 0 {
				errv = e.Res.Args[len(e.Res.Args)-1]
			} else {
				errv = e.Res
			}
			if hasFact(facts, func(f Fact) bool { return f.X.Key() == errv.Key() && f.Op == token.EQL && f.Y.isNilConst() }) {
				return true, true
			}
			if hasFact(facts, func(f Fact) bool { return f.X.Key() == errv.Key() && f.Op == token.NEQ && f.Y.isNilConst() }) {
				return false, true
			}
			return false, false
		}
		// (2) Set: value of the last callback before it, tested nil
		for _, si := range sets {
			e := t.Events[si]
			last := -1
			for _, ci := range cbs {
				if ci < si && !strings.HasPrefix(strings.ToLower(cbName(t.Events[ci])), "isnotfound") {
					last = ci
				}
			}
			good := false
			why := "no store callback precedes the cache write"
			if last >= 0 {
				ce := t.Events[last]
				succ, known := cbOK(last)
				v := e.Args[2].strip()
				switch {
				case !known:
					why = "the cache is written before the error of " + cbName(ce) + " was tested"
				case !succ:
					why = "the cache is written although " + cbName(ce) + " failed"
				case ce.Res.Kind != KTuple || v.Key() != ce.Res.Args[0].Key():
					why = "the value cached is not the value returned by the last store callback (" + cbName(ce) + "): " + c.short(v.Key())
				default:
					good = true
				}
				// a value computed by an update/upsert callback from "no existing item" says nothing about what the
				// store holds for the key: it is never cached (the handlers that upsert on a miss reload first or leave
				// the cache alone)
				if lname := strings.ToLower(cbName(ce)); good && (strings.HasPrefix(lname, "upd") || strings.HasPrefix(lname, "upsert")) && len(ce.Args) > 0 {
					if ex := ce.Args[len(ce.Args)-1]; ex.isNilConst() {
						good, why = false, "the value cached was computed by "+cbName(ce)+" from no existing item (nil) on a cache miss, without loading the stored one"
					}
				}
				// the error test must precede the write
				if good {
					tested := false
					errv := ce.Res.Args[len(ce.Res.Args)-1]
					for _, f := range t.factsBefore(si) {
						if f.X.Key() == errv.Key() && f.Y.isNilConst() {
							tested = true
						}
					}
					if !tested {
						good, why = false, "the cache is written before the error of "+cbName(ce)+" was tested"
					}
				}
			}
			if !good && a.set {
				a.set = false
				c.violated("C15.cache-set", cons, e.Pos, why+": the cache can hold a value the store does not hold", c.witness(t, si)...)
			}
		}
		// (3) Delete exactly when deleteFn succeeded
		delSucceeded := false
		for _, ci := range cbs {
			if strings.HasPrefix(strings.ToLower(cbName(t.Events[ci])), "delete") {
				if s, k := cbOK(ci); s && k {
					delSucceeded = true
				}
				for _, di := range dels {
					if di < ci && a.del {
						a.del = false
						c.violated("C15.cache-delete", cons, t.Events[di].Pos, "the cache entry is deleted before the store delete ran", c.witness(t, di)...)
					}
				}
			}
		}
		if delSucceeded != (len(dels) > 0) && a.del {
			a.del = false
			if delSucceeded {
				c.violated("C15.cache-delete", cons, handle.Pos(), "the store delete succeeded but the cached entry is kept: later reads serve a deleted value", c.witness(t, len(t.Events)-1)...)
			} else {
				c.violated("C15.cache-delete", cons, handle.Pos(), "the cache entry is deleted although the store delete did not succeed", c.witness(t, len(t.Events)-1)...)
			}
		}
		// (4) refresh on hit
		mutOK := false
		for _, ci := range cbs {
			n := cbName(t.Events[ci])
			if readOnly(n) {
				continue
			}
			if s, k := cbOK(ci); s && k {
				mutOK = true
			}
		}
		if !(hitKnown && !hit) && mutOK && len(sets) == 0 && len(dels) == 0 && a.refresh {
			a.refresh = false
			what := "the key is cached"
			if !hitKnown {
				what = "the key may be cached (the path never established a cache miss)"
			}
			c.violated("C15.refresh-on-hit", cons, handle.Pos(), what+" and the store was changed successfully, but the cache is neither refreshed nor deleted on this path: it keeps serving the old value", c.witness(t, len(t.Events)-1)...)
		}
		// a Set/Delete must not be followed by another successful mutating callback without a new Set
		for _, si := range append(append([]int{}, sets...), dels...) {
			for _, ci := range cbs {
				if ci > si && !readOnly(cbName(t.Events[ci])) {
					later := false
					for _, s2 := range append(append([]int{}, sets...), dels...) {
						if s2 > ci {
							later = true
						}
					}
					if s, k := cbOK(ci); s && k && !later && a.refresh {
						a.refresh = false
						c.violated("C15.refresh-on-hit", cons, t.Events[ci].Pos, "the store is changed after the last cache write of this operation", c.witness(t, ci)...)
					}
				}
			}
		}
		// (5) duplicate add: the store may only be touched after the cache was consulted and missed
		if opType == "*OpAdd" && len(cbs) > 0 && !(hitKnown && !hit) && a.dup {
			a.dup = false
			c.violated("C15.dup-add", cons, t.Events[cbs[0]].Pos, "the add callback runs without a preceding cache miss for the key: an add for a cached key reaches the store instead of being rejected as duplicate", c.witness(t, cbs[0])...)
		}
		if opType == "*OpAdd" && hitKnown && hit {
			good := len(cbs) == 0 && len(replies) == 1
			if good {
				r := t.Events[replies[0]]
				errv := r.Args[2]
				good = errv.Kind == KInit && errv.Args[0].Kind == KGlobal && errv.Args[0].Ref.(*ssa.Global).Name() == "ErrDupKey"
			}
			if !good && a.dup {
				a.dup = false
				c.violated("C15.dup-add", cons, handle.Pos(), "an add for a key that is cached is not rejected as ErrDupKey before touching the store", c.witness(t, len(t.Events)-1)...)
			}
		}
	}
	// obligations per op type
	var names []string
	for n := range want {
		names = append(names, n)
	}
	sort.Strings(names)
	for _, n := range names {
		a := per[n]
		if a == nil || !a.seen {
			c.violated("C15.dispatch", n, handle.Pos(), "operation type "+n+" implements OpCode but handleAsync has no case for it: its callers never get a reply", "")
			continue
		}
		c.holds("C15.dispatch", n, handle.Pos(), fmt.Sprintf("%d paths", a.n))
		if a.reply {
			c.holds("C15.reply-once", n, handle.Pos(), "")
		}
		if a.set {
			c.holds("C15.cache-set", n, handle.Pos(), "")
		}
		if a.del && n == "*OpDelete" {
			c.holds("C15.cache-delete", n, handle.Pos(), "")
		}
		if a.refresh {
			c.holds("C15.refresh-on-hit", n, handle.Pos(), "")
		}
		if a.dup && n == "*OpAdd" {
			c.holds("C15.dup-add", n, handle.Pos(), "")
		}
		if a.key {
			c.holds("C15.key", n, handle.Pos(), "")
		}
	}

	// (7) cache writers: caller-side methods never Set/Delete
	worker := c.namedType(rel, "Worker")
	if worker != nil {
		for i := 0; i < worker.NumMethods(); i++ {
			m := worker.Method(i)
			if !m.Exported() || !strings.HasPrefix(m.Name(), "Do") {
				continue
			}
			fn := c.Prog.FuncValue(m)
			cons := "(*mux.Worker)." + m.Name()
			ts, complete := c.Trace(fn, TraceConfig{Inline: inl})
			if !complete {
				c.undecided("C15.cache-writer", cons, fn.Pos(), "path budget exceeded")
				continue
			}
			ok := true
			for _, t := range ts {
				for j, e := range t.Events {
					if (isCacheCall(e, "Set") || isCacheCall(e, "Delete")) && ok {
						ok = false
						c.violated("C15.cache-writer", cons, e.Pos, "the cache is written from the caller's goroutine: it races with the worker that serialises operations on this key", c.witness(t, j)...)
					}
					if isCacheCall(e, "Peek") || isCacheCall(e, "Get") {
						if m.Name() != "DoGet" && ok {
							ok = false
							c.violated("C15.cache-writer", cons, e.Pos, "a mutating operation consults the cache on the caller's goroutine instead of inside the worker", c.witness(t, j)...)
						}
					}
				}
			}
			if ok {
				c.holds("C15.cache-writer", cons, fn.Pos(), "")
			}
		}
	}

	// (8) routing
	c.checkMuxRouting(inl)
	c.checkMuxLoop(inl)
	c.checkMuxFacade()
	c.checkMuxReplyChannel()
	c.checkMuxEnqueue()
}

func (c *Ctx) checkMuxRouting(inl func(*ssa.Function, int) bool) {
	const rel = "syncx/pipe/mux"
	grp := c.namedType(rel, "WorkerGrp")
	ws := c.mustField(rel, "WorkerGrp", "ws")
	mux := c.mustField(rel, "WorkerGrp", "muxSize")
	loc := c.mustFn(rel, "(*WorkerGrp).locHash")
	if grp == nil || ws == nil || mux == nil || loc == nil {
		return
	}
	// range of locHash
	{
		traces, complete := c.Trace(loc, TraceConfig{})
		cons := "(*mux.WorkerGrp).locHash"
		if !complete {
			c.undecided("C15.hash-range", cons, loc.Pos(), "path budget exceeded")
		} else {
			_, maxInt, _ := typeRange(types.Typ[types.Int], c.GOARCH)
			ok, n := true, 0
			recv := &Sym{Kind: KParam, Ref: loc.Params[0], Typ: loc.Params[0].Type()}
			muxVal := &Sym{Kind: KInit, Args: []*Sym{{Kind: KFieldAddr, Args: []*Sym{recv}, Field: mux}}, Typ: mux.Type()}
			for _, t := range traces {
				if t.End != EndReturn || len(t.Ret) != 1 {
					continue
				}
				n++
				r := c.newRanger(t, len(t.Events))
				r.Assume[muxVal.Key()] = Itv{lo: bi(1), hi: maxInt}
				v := r.Eval(t.Ret[0])
				in, why := r.inRange0(v, muxVal)
				if !in && ok {
					ok = false
					c.violated("C15.hash-range", cons, loc.Pos(), fmt.Sprintf("the worker index is not in [0, muxSize) for every key: %s (returned %s; e.g. a key hashing to math.MinInt64: -hash overflows, stays negative, and the remainder is negative)", why, c.short(t.Ret[0].Key())), c.witness(t, len(t.Events)-1)...)
				}
			}
			if ok && n > 0 {
				c.holds("C15.hash-range", cons, loc.Pos(), fmt.Sprintf("%d paths", n))
			} else if n == 0 {
				c.undecided("C15.hash-range", cons, loc.Pos(), "no returning path")
			}
		}
	}
	// delegation of Do*
	noLoc := func(callee *ssa.Function, depth int) bool {
		return callee != loc && recvNamed(callee) == grp.Origin() && depth <= 3
	}
	for i := 0; i < grp.NumMethods(); i++ {
		m := grp.Method(i)
		if !m.Exported() || !strings.HasPrefix(m.Name(), "Do") {
			continue
		}
		fn := c.Prog.FuncValue(m)
		cons := "(*mux.WorkerGrp)." + m.Name()
		ts, _ := c.Trace(fn, TraceConfig{Inline: noLoc})
		ok, n := true, 0
		for _, t := range ts {
			if t.End != EndReturn {
				continue
			}
			n++
			var hashCall, load, call *Event
			for _, e := range t.Events {
				if e.Kind == EvCall && e.Callee == loc {
					hashCall = e
				}
				if e.Kind == EvLoad && e.Addr.Kind == KIndexAddr {
					if _, isWs := isInitOfField(e.Addr.Args[0], ws); isWs {
						load = e
					}
				}
				if e.Kind == EvCall && e.Method != nil && e.Method.Name() == m.Name() && load != nil && e.Args[0].Key() == load.Res.Key() {
					call = e
				}
			}
			good := hashCall != nil && load != nil && call != nil && load.Addr.Args[1].Key() == hashCall.Res.Key()
			if good {
				// key passed to locHash is a parameter that is also passed on; all own args in order
				k := hashCall.Args[1].strip()
				good = k.Kind == KParam
				passed := false
				for j := 1; j < len(call.Args); j++ {
					a := call.Args[j].strip()
					if a.Key() == k.Key() {
						passed = true
					}
					if j < len(fn.Params) {
						if a.Kind != KParam || a.Ref.(ssa.Value) != ssa.Value(fn.Params[j]) {
							good = false
						}
					}
				}
				good = good && passed && len(call.Args) == len(fn.Params)
				if good {
					var res []*Sym
					if call.Res.Kind == KTuple {
						res = call.Res.Args
					} else {
						res = []*Sym{call.Res}
					}
					good = len(res) == len(t.Ret)
					for j := range res {
						if good && res[j].Key() != t.Ret[j].Key() {
							good = false
						}
					}
				}
			}
			if !good && ok {
				ok = false
				c.violated("C15.route", cons, fn.Pos(), m.Name()+" does not delegate to ws[locHash(k)]."+m.Name()+" with its own arguments: operations on one key can reach different workers (and different caches)", c.witness(t, len(t.Events)-1)...)
			}
		}
		if ok && n > 0 {
			c.holds("C15.route", cons, fn.Pos(), "")
		}
	}
	// construction: len(ws) == muxSize
	if fn := c.mustFn(rel, "buildWorkGrp"); fn != nil {
		ts, _ := c.Trace(fn, TraceConfig{})
		ok, n := true, 0
		for _, t := range ts {
			if t.End != EndReturn {
				continue
			}
			n++
			var slice, mv *Sym
			for _, e := range t.Events {
				if e.Kind == EvStore && e.Addr.isFieldAddrOf(ws) {
					slice = e.Val
				}
				if e.Kind == EvStore && e.Addr.isFieldAddrOf(mux) {
					mv = e.Val
				}
			}
			if slice == nil || mv == nil || slice.Kind != KAlloc || len(slice.Args) != 2 || boundKey(slice.Args[0]) != boundKey(mv) {
				ok = false
			}
		}
		c.check(ok && n > 0, "C15.route", "mux.buildWorkGrp", fn.Pos(), "len(ws) == muxSize", "the worker slice is not made with length muxSize: a routed index can fall outside it")
	}
}

func (c *Ctx) checkMuxLoop(inl func(*ssa.Function, int) bool) {
	const rel = "syncx/pipe/mux"
	fn := c.mustFn(rel, "(*Worker).runLoop")
	handle := c.fn(rel, "(*Worker).handleAsync")
	if fn == nil || handle == nil {
		return
	}
	cons := "(*mux.Worker).runLoop"
	noHandle := func(callee *ssa.Function, depth int) bool { return callee != handle && inl(callee, depth) }
	ts, complete := c.Trace(fn, TraceConfig{Inline: noHandle})
	if !complete {
		c.undecided("C15.worker-loop", cons, fn.Pos(), "path budget exceeded")
		return
	}
	ok, iters := true, 0
	for _, t := range ts {
		var deq []int
		for i, e := range t.Events {
			if e.Kind == EvCall && e.Method != nil && (e.Method.Name() == "PopAnyway" || e.Method.Name() == "Pop") {
				deq = append(deq, i)
				if e.Method.Name() == "Pop" && ok {
					ok = false
					c.violated("C15.worker-loop", cons, e.Pos, "the worker dequeues with Pop: operations accepted before Stop are dropped without a reply", c.witness(t, i)...)
				}
			}
		}
		for k, di := range deq {
			end := len(t.Events)
			if k+1 < len(deq) {
				end = deq[k+1]
			}
			if !(k+1 < len(deq) || t.End == EndReturn || t.End == EndCut) {
				continue
			}
			iters++
			item, derr := t.Events[di].Res.Args[0], t.Events[di].Res.Args[1]
			facts := t.factsBefore(end)
			// `for e, err := Pop(); err == nil; e, err = Pop()`: at the loop test the two variables hold the results of
			// the dequeue just made
			got := hasFact(facts, func(f Fact) bool {
				return (f.X.Key() == derr.Key() || (f.Idx > di && popPhi(f.X, 1))) && f.Op == token.EQL && f.Y.isNilConst()
			})
			handled := 0
			for j := di + 1; j < end; j++ {
				e := t.Events[j]
				if e.Kind == EvCall && e.Callee == handle {
					handled++
					a := e.Args[1]
					if !(a.Kind == KOp && a.Name == "typeassert" && (a.Args[0].Key() == item.Key() || popPhi(a.Args[0], 0))) && ok {
						ok = false
						c.violated("C15.worker-loop", cons, e.Pos, "the item handled is not the item dequeued", c.witness(t, j)...)
					}
				}
			}
			if got && handled != 1 && ok {
				ok = false
				c.violated("C15.worker-loop", cons, t.Events[di].Pos, fmt.Sprintf("a dequeued operation is handled %d times", handled), c.witness(t, end-1)...)
			}
			if !got && handled != 0 && ok {
				ok = false
				c.violated("C15.worker-loop", cons, t.Events[di].Pos, "an operation is handled after a failed dequeue", c.witness(t, end-1)...)
			}
		}
	}
	if iters == 0 {
		c.undecided("C15.worker-loop", cons, fn.Pos(), "no loop iteration found")
	} else if ok {
		c.holds("C15.worker-loop", cons, fn.Pos(), fmt.Sprintf("%d iterations: PopAnyway, each item handled once", iters))
	}
}

// checkMuxFacade: the handlers' "cache Set / Delete" only mean what the coherence rules assume if the facade's
// own Set and Delete reach the underlying cache on every path: after Set(key, v) the facade must not still
// hold an older value for key (it stores v, or at least deletes key), and Delete(key) deletes key.
func (c *Ctx) checkMuxFacade() {
	const rel = "syncx/pipe/mux"
	noInl := func(*ssa.Function, int) bool { return false }
	for _, typ := range []string{"FacadeLRU", "FacadeMap"} {
		for _, m := range []string{"Set", "Delete"} {
			fn := c.fn(rel, "(*"+typ+")."+m)
			if fn == nil || fn.Synthetic != "" {
				continue // promoted from the embedded cache: the underlying method itself
			}
			cons := "(*mux." + typ + ")." + m
			traces, complete := c.Trace(fn, TraceConfig{Inline: noInl})
			if !complete {
				c.undecided("C15.facade", cons, fn.Pos(), "path budget exceeded")
				continue
			}
			ok, n := true, 0
			key := "$" + fn.Params[1].Name()
			for _, t := range traces {
				if t.End != EndReturn {
					continue
				}
				n++
				reached := false
				for _, e := range t.Events {
					if e.Kind != EvCall || e.Callee == nil || len(e.Args) < 2 || e.Args[1].strip().Key() != key {
						continue
					}
					switch e.Callee.Name() {
					case "Set", "SetAndGetRemoved":
						if m == "Set" && len(e.Args) >= 3 && e.Args[2].mentions("$"+fn.Params[2].Name()) {
							reached = true
						}
					case "Delete":
						reached = true
					}
				}
				if !reached && ok {
					ok = false
					what := "stores the caller's value under the caller's key in the underlying cache (or at least deletes the key)"
					if m == "Delete" {
						what = "deletes the caller's key from the underlying cache"
					}
					c.violated("C15.facade", cons, fn.Pos(), "a path of the cache facade's "+m+" returns without having done what the worker relies on (it never "+what+"): an older value for the key survives a successful store operation and is served afterwards", c.witness(t, len(t.Events)-1)...)
				}
			}
			if ok && n > 0 {
				c.holds("C15.facade", cons, fn.Pos(), fmt.Sprintf("%d paths reach the underlying cache with the caller's key", n))
			}
		}
	}
}

// checkMuxReplyChannel: the plumbing the handler rules rely on. SetR sends exactly (r, err) on the call's own
// 1-buffered channel; R hands back the received pair in that order, or (nil, ctx.Err()) on the context branch;
// every operation's GetK returns the key its constructor stored; FacadeLRU.Peek/Get are the underlying Peek/Get
// (Peek must not refresh recency: the worker peeks before deciding).
func (c *Ctx) checkMuxReplyChannel() {
	const rel = "syncx/pipe/mux"
	noInl := func(*ssa.Function, int) bool { return false }
	cfg := TraceConfig{Inline: noInl}
	rChan := c.mustField(rel, "AsyncC", "rChan")
	if rChan == nil {
		return
	}
	if fn := c.mustFn(rel, "(*AsyncC).SetR"); fn != nil {
		ts, _ := c.Trace(fn, cfg)
		good, n := true, 0
		for _, t := range ts {
			if t.End != EndReturn {
				continue
			}
			n++
			sends := 0
			for _, e := range t.Events {
				if e.Kind == EvSend {
					sends++
					_, onR := isInitOfField(e.Addr, rChan)
					v := e.Val
					if !(onR && v.Kind == KStruct && len(v.Args) == 2 && v.Args[0].Key() == "$"+fn.Params[1].Name() && v.Args[1].Key() == "$"+fn.Params[2].Name()) {
						good = false
					}
				}
			}
			if sends != 1 {
				good = false
			}
		}
		c.check(good && n > 0, "C15.reply-channel", "(*mux.AsyncC).SetR", fn.Pos(), "one send of (r, err) on rChan", "SetR does not send exactly the pair (r, err) it was given on the call's result channel: the caller receives a value or an error the handler did not produce (e.g. a failed store operation reported as success)")
	}
	if fn := c.mustFn(rel, "(*AsyncC).R"); fn != nil {
		ts, _ := c.Trace(fn, cfg)
		good, recv, done := true, 0, 0
		for _, t := range ts {
			if t.End != EndReturn || len(t.Ret) != 2 {
				continue
			}
			var sel *Event
			for _, e := range t.Events {
				if e.Kind == EvSelect {
					sel = e
				}
			}
			if sel == nil {
				good = false
				continue
			}
			if _, onR := isInitOfField(sel.Addr, rChan); onR {
				recv++
				a, b := t.Ret[0], t.Ret[1]
				if !(a.Kind == KField && a.Field.Name() == "r" && b.Kind == KField && b.Field.Name() == "err" && a.Args[0].Key() == b.Args[0].Key()) {
					good = false
				}
			} else {
				done++
				errOK := false
				for _, e := range t.Events {
					if e.Kind == EvCall && e.callName() == "(context.Context).Err" && e.Res.Key() == t.Ret[1].Key() {
						errOK = true
					}
				}
				if !t.Ret[0].isNilConst() || !errOK {
					good = false
				}
			}
		}
		c.check(good && recv > 0 && done > 0, "C15.reply-channel", "(*mux.AsyncC).R", fn.Pos(), "(re.r, re.err) or (nil, ctx.Err())", "R does not hand back the received (value, error) pair unchanged, or (nil, ctx.Err()) when the context ends first")
	}
	if fn := c.mustFn(rel, "NewAsync"); fn != nil {
		ts, _ := c.Trace(fn, cfg)
		good := false
		for _, t := range ts {
			for _, e := range t.Events {
				if e.Kind == EvStore && e.Addr.isFieldAddrOf(rChan) && e.Val.Kind == KAlloc && len(e.Val.Args) >= 1 {
					if k, isK := e.Val.Args[0].intConst(); isK && k >= 1 {
						good = true
					}
				}
			}
		}
		// every call gets a cell and a result channel of its own: a recycled cell (free list, sync.Pool) can still sit
		// in a worker's queue when its caller has left on a cancelled context; the next call then shares it, runs twice
		// (possibly on a worker that does not own its key) and the two callers read each other's reply
		fresh := len(ts) > 0
		for _, t := range ts {
			if t.End != EndReturn {
				continue
			}
			if r := t.Ret[0]; r.root() == nil || r.root().Kind != KAlloc {
				fresh = false
				c.violated("C15.reply-channel", "mux.NewAsync fresh", fn.Pos(), "NewAsync can return a cell that it did not allocate ("+c.short(r.Key())+"): a recycled cell may still be queued for, or in use by, an earlier call — operations are then applied twice or out of their key's order, and replies go to the wrong caller", c.witness(t, len(t.Events)-1)...)
				break
			}
		}
		if fresh {
			c.holds("C15.reply-channel", "mux.NewAsync fresh", fn.Pos(), "a new cell per call")
		}
		c.check(good, "C15.reply-channel", "mux.NewAsync", fn.Pos(), "rChan has capacity >= 1", "the result channel is not buffered: the worker blocks in SetR whenever the caller has already left on its context, and every later operation of that worker waits behind it")
	}
	// GetK and the constructors
	for _, fn := range c.funcsOf(rel) {
		if fn.Name() != "GetK" || fn.Signature.Recv() == nil || fn.Synthetic != "" {
			continue
		}
		cons := c.fname(fn)
		ts, _ := c.Trace(fn, cfg)
		good := len(ts) > 0
		for _, t := range ts {
			r := t.Ret[0]
			if !(t.End == EndReturn && r.Kind == KInit && r.Args[0].Kind == KFieldAddr && r.Args[0].Field.Name() == "k" && r.Args[0].Args[0].Key() == "$"+fn.Params[0].Name()) {
				good = false
			}
		}
		c.check(good, "C15.key", cons, fn.Pos(), "returns the operation's k", "GetK does not return the operation's own key field: the worker routes, caches and replies under a key the caller did not name")
	}
	for _, fn := range c.funcsOf(rel) {
		if fn.Parent() != nil || fn.Signature.Recv() != nil || !strings.HasPrefix(fn.Name(), "New") || fn.Signature.Results().Len() != 1 || fn.Signature.Results().At(0).Type().String() != c.ModPath+"/"+rel+".OpCode" {
			continue
		}
		var kp *ssa.Parameter
		for _, p := range fn.Params {
			if p.Name() == "k" {
				kp = p
			}
		}
		if kp == nil {
			continue
		}
		ts, _ := c.Trace(fn, cfg)
		good := false
		for _, t := range ts {
			for _, e := range t.Events {
				if e.Kind == EvStore && e.Addr.Kind == KFieldAddr && e.Addr.Field.Name() == "k" {
					good = e.Val.Key() == "$k"
				}
			}
		}
		c.check(good, "C15.key", "mux."+fn.Name(), fn.Pos(), "k stored in the operation", "the constructor does not store its key argument in the operation's key field")
	}
	// FacadeLRU read side
	for m, under := range map[string]string{"Peek": "Peek", "Get": "Get"} {
		fn := c.mustFn(rel, "(*FacadeLRU)."+m)
		if fn == nil {
			continue
		}
		ts, _ := c.Trace(fn, cfg)
		good, n := true, 0
		for _, t := range ts {
			if t.End != EndReturn {
				continue
			}
			n++
			calls := 0
			for _, e := range t.Events {
				if e.Kind == EvCall && e.Callee != nil && recvNamedName(e.Callee) == "LRUCache" {
					calls++
					if e.Callee.Name() != under || len(e.Args) < 2 || e.Args[1].Key() != "$"+fn.Params[1].Name() {
						good = false
					}
				}
			}
			if calls != 1 {
				good = false
			}
		}
		c.check(good && n > 0, "C15.facade", "(*mux.FacadeLRU)."+m, fn.Pos(), "underlying "+under+"(key)", "the LRU facade's "+m+" is not the underlying cache's "+under+" of the same key: the worker's peek refreshes recency (or its get does not), so the cache evicts other entries than the ones the coherence rules assume are kept")
	}
}

// checkMuxEnqueue: an accepted operation joins its worker's queue at the back (AddReq): the worker applies operations
// in the order they were accepted. A retry or shortcut through AddPriorReq (front of the queue, no size check) lets
// a later operation overtake the ones queued for the same key.
func (c *Ctx) checkMuxEnqueue() {
	const rel = "syncx/pipe/mux"
	fn := c.mustFn(rel, "(*Worker).asyncCall")
	if fn == nil {
		return
	}
	noInl := func(*ssa.Function, int) bool { return false }
	ts, _ := c.Trace(fn, TraceConfig{Inline: noInl})
	good, n := true, 0
	for _, t := range ts {
		for i, e := range t.Events {
			if e.Kind != EvCall || e.Callee == nil || recvNamedName(e.Callee) != "Q" {
				continue
			}
			n++
			if e.Callee.Name() != "AddReq" && good {
				good = false
				c.violated("C15.worker-loop", "(*mux.Worker).asyncCall enqueue", e.Pos, "an operation is put on the worker's queue with "+e.Callee.Name()+" instead of AddReq: it is applied ahead of operations accepted earlier for the same key (and the queue bound is bypassed)", c.witness(t, i)...)
			}
		}
	}
	if good {
		c.check(n > 0, "C15.worker-loop", "(*mux.Worker).asyncCall enqueue", fn.Pos(), "AddReq only", "asyncCall does not enqueue the operation on the worker's queue")
	}
}

// popPhi: x is a loop-carried variable all of whose incoming values are result #idx of a dequeue call
// (Pop / PopAnyway) — the loop variable of `for e, err := q.Pop(); err == nil; e, err = q.Pop()`.
func popPhi(x *Sym, idx int) bool {
	for x != nil && x.Kind == KConv {
		x = x.Args[0]
	}
	if x == nil || x.Kind != KFresh || x.Name != "loop" {
		return false
	}
	phi, ok := x.Ref.(*ssa.Phi)
	if !ok || len(phi.Edges) == 0 {
		return false
	}
	for _, ed := range phi.Edges {
		ex, isEx := ed.(*ssa.Extract)
		if !isEx || ex.Index != idx {
			return false
		}
		call, isCall := ex.Tuple.(*ssa.Call)
		if !isCall {
			return false
		}
		name := ""
		if call.Call.IsInvoke() {
			name = call.Call.Method.Name()
		} else if sc := call.Call.StaticCallee(); sc != nil {
			name = sc.Name()
		}
		if name != "Pop" && name != "PopAnyway" {
			return false
		}
	}
	return true
}

// producerPhi: x is a loop-carried variable all of whose incoming values are result #idx of calls of one and the
// same function or method (`for v, ok := next(); ok; v, ok = next()`); returns that callee's name, "" otherwise.
func producerPhi(x *Sym, idx int) string {
	for x != nil && x.Kind == KConv {
		x = x.Args[0]
	}
	if x == nil || x.Kind != KFresh || x.Name != "loop" {
		return ""
	}
	phi, ok := x.Ref.(*ssa.Phi)
	if !ok || len(phi.Edges) == 0 {
		return ""
	}
	name := ""
	for _, ed := range phi.Edges {
		var call *ssa.Call
		if ex, isEx := ed.(*ssa.Extract); isEx && ex.Index == idx {
			call, _ = ex.Tuple.(*ssa.Call)
		} else if cl, isCall := ed.(*ssa.Call); isCall && idx == 0 {
			call = cl
		}
		if call == nil {
			return ""
		}
		n := ""
		if call.Call.IsInvoke() {
			n = call.Call.Method.FullName()
		} else if sc := call.Call.StaticCallee(); sc != nil {
			n = sc.String()
		}
		if n == "" || (name != "" && n != name) {
			return ""
		}
		name = n
	}
	return name
}
