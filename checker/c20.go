package main

import (
	"fmt"
	"go/token"
	"go/types"
	"math/big"
	"strings"

	"golang.org/x/tools/go/ssa"
)

func init() {
	register(&Property{
		ID:       "C20",
		Patterns: []string{"./tex"},
		Explanation: "Decides on every path of the text/SQL adapters: (1) an UnmarshalJSON that strips the first and last byte of its input does so only after establishing that both are the quote character (otherwise bare tokens such as 123 silently decode as 2); " +
			"(2) no decoder narrows an integer to a smaller type without a range check on the path (e.g. byte(t) for a parsed int: \"256\" would decode as 0); (3) codec pairs: each encoder/decoder pair uses matching standard-library primitives with matching constants — FormatInt(.,10)<->Atoi/ParseInt(.,10,64), FormatUint(.,10)<->ParseUint(.,10,64), bases 16 and 32 for the hex helpers, Unix()<->time.Unix(t,0), UnixNano()<->time.Unix(0,t), Duration.String<->ParseDuration, base64.RawStdEncoding both ways, Itoa+\"/\"<->Split(\"/\")+Atoi — and MarshalJSON wraps the codec output in exactly one quote at each end; (4) decode errors of the primitive are returned, never swallowed. " +
			"NOT decided: exactness of strconv/time themselves; Atoi into int64 on 32-bit platforms (observation in the thorough tier).",
		Assumptions: []string{"strconv, time, encoding/base64 round-trip their own formats"},
		Floors:      map[string]int{"C20.quote-guard": 7, "C20.narrowing": 1, "C20.codec-pair": 12, "C20.quote-wrap": 6, "C20.error-returned": 7, "C20.dest-assigned": 8, "C20.output-owned": 8, "C20.value-source": 13},
		Run:         runC20,
	})
}

type texCodec struct {
	name     string // construct
	enc, dec string // functions
	encCalls []string
	decCalls []string
}

func runC20(c *Ctx) {
	const rel = "tex"
	noInl := func(callee *ssa.Function, depth int) bool {
		// enter the type's own helpers (FromString, ToJS, splitBuilder) but nothing else
		return depth <= 3 && c.fnInModule(callee) && callee.Pkg != nil && strings.HasSuffix(callee.Pkg.Pkg.Path(), "/tex") && recvNamedName(callee) != "Buffer"
	}
	cfg := TraceConfig{Inline: noInl}

	// calls with their constant arguments, e.g. "strconv.FormatInt(_,10)"
	callSig := func(e *Event) string {
		if e.Kind != EvCall || e.callName() == "" {
			return ""
		}
		n := e.callName()
		if e.Callee != nil && c.fnInModule(e.Callee) {
			return ""
		}
		var as []string
		for i, a := range e.Args {
			if i == 0 && (strings.HasPrefix(n, "(") || true) && false {
				continue
			}
			if v, ok := a.intConst(); ok {
				as = append(as, fmt.Sprint(v))
			} else if s, ok := constStr(a); ok {
				as = append(as, fmt.Sprintf("%q", s))
			} else if a.Kind == KInit && a.Args[0].Kind == KGlobal {
				as = append(as, a.Args[0].Ref.(*ssa.Global).Name())
			} else {
				as = append(as, "_")
			}
		}
		return n + "(" + strings.Join(as, ",") + ")"
	}
	callsOf := func(fn *ssa.Function) (map[string]bool, []*Trace) {
		traces, _ := c.Trace(fn, cfg)
		set := map[string]bool{}
		for _, t := range traces {
			for _, e := range t.Events {
				if s := callSig(e); s != "" {
					set[s] = true
				}
			}
		}
		return set, traces
	}

	pairs := []texCodec{
		{"JsInt64", "JsInt64.MarshalJSON", "(*JsInt64).UnmarshalJSON", []string{"strconv.FormatInt(_,10)|strconv.AppendInt(_,_,10)"}, []string{"strconv.Atoi(_)|strconv.ParseInt(_,10,64)"}},
		{"JsUInt64", "JsUInt64.MarshalJSON", "(*JsUInt64).UnmarshalJSON", []string{"strconv.FormatUint(_,10)|strconv.AppendUint(_,_,10)"}, []string{"strconv.ParseUint(_,10,64)"}},
		{"UnixStamp", "UnixStamp.MarshalJSON", "(*UnixStamp).UnmarshalJSON", []string{"strconv.FormatInt(_,10)|strconv.AppendInt(_,_,10)"}, []string{"strconv.Atoi(_)|strconv.ParseInt(_,10,64)"}},
		{"JsUnixTime", "JsUnixTime.MarshalJSON", "(*JsUnixTime).UnmarshalJSON", []string{"(time.Time).Unix(_)", "strconv.FormatInt(_,10)|strconv.AppendInt(_,_,10)"}, []string{"strconv.Atoi(_)|strconv.ParseInt(_,10,64)", "time.Unix(_,0)"}},
		{"JsNanoTime", "JsNanoTime.MarshalJSON", "(*JsNanoTime).UnmarshalJSON", []string{"(time.Time).UnixNano(_)", "strconv.FormatInt(_,10)|strconv.AppendInt(_,_,10)"}, []string{"strconv.Atoi(_)|strconv.ParseInt(_,10,64)", "time.Unix(0,_)"}},
		{"Duration", "Duration.MarshalJSON", "(*Duration).UnmarshalJSON", []string{"(time.Duration).String(_)"}, []string{"time.ParseDuration(_)"}},
		{"Duration TOML", "Duration.MarshalJSON", "(*Duration).UnmarshalTOML", []string{"(time.Duration).String(_)"}, []string{"time.ParseDuration(_)"}},
		{"Base64Bytes", "Base64Bytes.Value", "(*Base64Bytes).Scan", []string{"(*encoding/base64.Encoding).EncodeToString(RawStdEncoding,_)"}, []string{"(*encoding/base64.Encoding).DecodeString(RawStdEncoding,_)|(*encoding/base64.Encoding).Decode(RawStdEncoding,_,_)"}},
		{"JsByte", "JsByte.MarshalJSON", "(*JsByte).UnmarshalJSON", []string{"strconv.Itoa(_)|strconv.FormatUint(_,10)|strconv.FormatInt(_,10)|strconv.AppendUint(_,_,10)|strconv.AppendInt(_,_,10)", "(*bytes.Buffer).WriteString(_,\"/\")"}, []string{"strings.Split(_,\"/\")", "strconv.Atoi(_)|strconv.ParseInt(_,10,64)"}},
		{"hex16 int64", "I64Hex", "HexI64", []string{"strconv.FormatInt(_,16)"}, []string{"strconv.ParseInt(_,16,64)"}},
		{"hex16 uint64", "U64Hex", "HexU64", []string{"strconv.FormatUint(_,16)"}, []string{"strconv.ParseUint(_,16,64)"}},
		{"hex32 int64", "I64HexV2", "HexI64V2", []string{"strconv.FormatInt(_,32)"}, []string{"strconv.ParseInt(_,32,64)"}},
		{"hex32 uint64", "U64HexV2", "HexU64V2", []string{"strconv.FormatUint(_,32)"}, []string{"strconv.ParseUint(_,32,64)"}},
		{"UnixNano2Time", "UnixNano2Time.Value", "(*UnixNano2Time).Scan", []string{"(time.Time).UnixNano(_)"}, []string{"time.Unix(0,_)"}},
		{"Unix2Time", "Unix2Time.Value", "(*Unix2Time).Scan", []string{"(time.Time).Unix(_)"}, []string{"time.Unix(_,0)"}},
		{"UnixStamp sql", "UnixStamp.Value", "(*UnixStamp).Scan", []string{"time.Unix(_,0)"}, []string{"(time.Time).Unix(_)"}},
		{"SQLTime2Unix", "SQLTime2Unix.Value", "(*SQLTime2Unix).Scan", []string{"time.Unix(_,0)"}, []string{"(time.Time).Unix(_)"}},
		{"JsByte text", "JsByte.ToString", "(*JsByte).FromString", []string{"strconv.Itoa(_)|strconv.FormatUint(_,10)|strconv.FormatInt(_,10)|strconv.AppendUint(_,_,10)|strconv.AppendInt(_,_,10)", "(*bytes.Buffer).WriteString(_,\"/\")"}, []string{"strings.Split(_,\"/\")", "strconv.Atoi(_)|strconv.ParseInt(_,10,64)"}},
	}
	has := func(set map[string]bool, alt string) bool {
		for _, a := range strings.Split(alt, "|") {
			if set[a] {
				return true
			}
		}
		return false
	}
	// public helpers that hand out an encoding as a byte slice
	for _, h := range []string{"JsByte.ToJS"} {
		if fn := c.mustFn(rel, h); fn != nil {
			_, ts := callsOf(fn)
			c.checkOutputOwned(fn, h, ts)
		}
	}
	for _, p := range pairs {
		enc, dec := c.mustFn(rel, p.enc), c.mustFn(rel, p.dec)
		if enc == nil || dec == nil {
			continue
		}
		es, etraces := callsOf(enc)
		ds, _ := callsOf(dec)
		c.checkOutputOwned(enc, p.name, etraces)
		c.checkValueSource(dec, p.name, cfg)
		var missing []string
		for _, w := range p.encCalls {
			if !has(es, w) {
				missing = append(missing, "encoder lacks "+w)
			}
		}
		for _, w := range p.decCalls {
			if !has(ds, w) {
				missing = append(missing, "decoder lacks "+w)
			}
		}
		// no competing primitive with another base / bit size / unit
		for s := range ds {
			for _, fam := range []string{"strconv.ParseInt(", "strconv.ParseUint(", "time.Unix("} {
				if strings.HasPrefix(s, fam) {
					okFam := s == "time.Unix(0,0)" // zero value path (nothing decoded)
					for _, w := range p.decCalls {
						if has(map[string]bool{s: true}, w) {
							okFam = true
						}
					}
					if !okFam {
						missing = append(missing, "decoder uses "+s)
					}
				}
			}
		}
		// the text an encoder built is handed out as it is: a transformation applied afterwards (strings.Replace*,
		// ToUpper, Trim*, ...) produces a text the decoder was not written for
		for s := range es {
			if (strings.HasPrefix(s, "strings.") || strings.HasPrefix(s, "bytes.Replace") || strings.HasPrefix(s, "bytes.To") || strings.HasPrefix(s, "bytes.Trim")) && !strings.HasPrefix(s, "strings.Builder") {
				okFam := false
				for _, w := range p.encCalls {
					if has(map[string]bool{s: true}, w) {
						okFam = true
					}
				}
				if !okFam {
					missing = append(missing, "encoder rewrites its text with "+s)
				}
			}
		}
		for s := range es {
			for _, fam := range []string{"strconv.FormatInt(", "strconv.FormatUint(", "strconv.AppendInt(", "strconv.AppendUint("} {
				if strings.HasPrefix(s, fam) {
					okFam := false
					for _, w := range p.encCalls {
						if has(map[string]bool{s: true}, w) {
							okFam = true
						}
					}
					if !okFam {
						missing = append(missing, "encoder uses "+s)
					}
				}
			}
		}
		c.check(len(missing) == 0, "C20.codec-pair", p.name, dec.Pos(), "", "encoder and decoder do not use matching primitives ("+strings.Join(missing, "; ")+"): decoding the encoder's output no longer gives back the value")
	}

	// per UnmarshalJSON: quote guard, narrowing, errors returned
	tx := c.pkg(rel)
	if tx == nil {
		return
	}
	scope := tx.Types.Scope()
	for _, n := range scope.Names() {
		tn, ok := scope.Lookup(n).(*types.TypeName)
		if !ok {
			continue
		}
		named, ok := tn.Type().(*types.Named)
		if !ok {
			continue
		}
		for i := 0; i < named.NumMethods(); i++ {
			m := named.Method(i)
			fn := c.Prog.FuncValue(m)
			if fn == nil || len(fn.Blocks) == 0 {
				continue
			}
			cons := "(" + tn.Name() + ")." + m.Name()
			isListed := map[string]bool{"JsInt64": true, "JsUInt64": true, "JsByte": true, "JsUnixTime": true, "JsNanoTime": true, "UnixStamp": true, "Duration": true, "Base64Bytes": true}[tn.Name()]
			if !isListed {
				continue
			}
			switch m.Name() {
			case "UnmarshalJSON":
				c.checkQuoteGuard(fn, cons, cfg)
				c.checkErrReturned(fn, cons, cfg)
				c.checkDestAssigned(fn, cons, cfg)
			case "FromString", "UnmarshalTOML":
				c.checkErrReturned(fn, cons, cfg)
				c.checkDestAssigned(fn, cons, cfg)
			case "Scan":
				c.checkErrReturned(fn, cons, cfg)
				if tn.Name() == "Base64Bytes" {
					c.checkDestAssigned(fn, cons, cfg)
				}
			case "MarshalJSON":
				c.checkQuoteWrap(fn, cons, cfg)
			}
			if m.Name() == "UnmarshalJSON" || m.Name() == "FromString" {
				c.checkNarrowing(fn, cons, cfg)
			}
		}
	}
}

// checkQuoteGuard: rule 1.
func (c *Ctx) checkQuoteGuard(fn *ssa.Function, cons string, cfg TraceConfig) {
	traces, complete := c.Trace(fn, cfg)
	if !complete {
		c.undecided("C20.quote-guard", cons, fn.Pos(), "path budget exceeded")
		return
	}
	ok, nstrip := true, 0
	for _, t := range traces {
		b := t.Params[1]
		check := func(i int, s *Sym, pos token.Pos) {
			s.walk(func(x *Sym) {
				if x.Kind != KOp || x.Name != "slice" || x.Args[0].Key() != b.Key() {
					return
				}
				lo, isLo := x.Args[1].intConst()
				if !isLo || lo != 1 {
					return
				}
				nstrip++
				facts := t.factsBefore(i)
				isQuote := func(idxOK func(idx *Sym) bool) bool {
					return hasFact(facts, func(f Fact) bool {
						q, isC := f.Y.intConst()
						if !isC || q != '"' || f.Op != token.EQL {
							return false
						}
						v := f.X
						if v.Kind == KConv {
							v = v.Args[0]
						}
						return v.Kind == KInit && v.Args[0].Kind == KIndexAddr && v.Args[0].Args[0].Key() == b.Key() && idxOK(v.Args[0].Args[1])
					})
				}
				first := isQuote(func(idx *Sym) bool { z, isC := idx.intConst(); return isC && z == 0 })
				last := isQuote(func(idx *Sym) bool {
					f := lf(idx)
					want := lf(&Sym{Kind: KOp, Name: "len", Args: []*Sym{b}}).add(lfConst(1), -1)
					return f.equal(want)
				})
				if !(first && last) && ok {
					ok = false
					c.violated("C20.quote-guard", cons, pos, fmt.Sprintf("the first and last byte of the JSON token are stripped without checking that they are quotes (first checked: %v, last checked: %v): a bare token such as 123 silently decodes as 2, true as \"ru\"", first, last), c.witness(t, i)...)
				}
			})
		}
		for i, e := range t.Events {
			if e.Kind == EvCall || e.Kind == EvEnter {
				for _, a := range e.Args {
					if a != nil {
						check(i, a, e.Pos)
					}
				}
			}
		}
	}
	if ok {
		c.holds("C20.quote-guard", cons, fn.Pos(), fmt.Sprintf("%d strip sites, each under b[0]=='\"' && b[len-1]=='\"'", nstrip))
	}
}

// checkNarrowing: rule 2 — conversions to a narrower integer type need a range established on the path.
func (c *Ctx) checkNarrowing(fn *ssa.Function, cons string, cfg TraceConfig) {
	traces, complete := c.Trace(fn, cfg)
	if !complete {
		c.undecided("C20.narrowing", cons, fn.Pos(), "path budget exceeded")
		return
	}
	ok, n := true, 0
	seen := map[string]bool{}
	for _, t := range traces {
		for i, e := range t.Events {
			if e.Kind != EvStore {
				continue
			}
			e.Val.walk(func(x *Sym) {
				if x.Kind != KConv || x.Name != "convert" || seen[x.Key()+c.posStr(e.Pos)] {
					return
				}
				dlo, dhi, dok := typeRange(x.Typ, c.GOARCH)
				slo, shi, sok := typeRange(x.Args[0].Typ, c.GOARCH)
				if !dok || !sok {
					return
				}
				if slo.Cmp(dlo) >= 0 && shi.Cmp(dhi) <= 0 {
					return // widening
				}
				if new(big.Int).Sub(dhi, dlo).Cmp(new(big.Int).Sub(shi, slo)) >= 0 {
					return // same width (sign reinterpretation): not a loss of digits
				}
				seen[x.Key()+c.posStr(e.Pos)] = true
				n++
				r := c.newRanger(t, i)
				v := r.Eval(x.Args[0])
				fits := v.lo != nil && v.hi != nil && v.lo.Cmp(dlo) >= 0 && v.hi.Cmp(dhi) <= 0
				if !fits && ok && c.fname(e.Fn) != c.fname(fn) {
					return // reported at the function that contains the conversion
				}
				if !fits && ok {
					ok = false
					c.violated("C20.narrowing", cons, e.Pos, fmt.Sprintf("a decoded %s is converted to %s without a range check on this path (value range %s): out-of-range text silently wraps (\"256\" -> 0, \"-1\" -> 255)", typeStr(x.Args[0].Typ), typeStr(x.Typ), v), c.witness(t, i)...)
				}
			})
		}
	}
	if ok {
		c.holds("C20.narrowing", cons, fn.Pos(), fmt.Sprintf("%d narrowing conversions, each range-checked", n))
	}
}

// checkErrReturned: rule 4 — a non-nil error of a parsing primitive is returned.
func (c *Ctx) checkErrReturned(fn *ssa.Function, cons string, cfg TraceConfig) {
	traces, complete := c.Trace(fn, cfg)
	if !complete {
		c.undecided("C20.error-returned", cons, fn.Pos(), "path budget exceeded")
		return
	}
	ok, n := true, 0
	for _, t := range traces {
		if t.End != EndReturn {
			continue
		}
		facts := t.factsBefore(len(t.Events))
		for i, e := range t.Events {
			if e.Kind != EvCall || e.Res == nil || e.Res.Kind != KTuple || len(e.Res.Args) != 2 {
				continue
			}
			name := e.callName()
			if !(strings.HasPrefix(name, "strconv.") || strings.HasPrefix(name, "time.Parse") || strings.Contains(name, "DecodeString")) {
				continue
			}
			n++
			errv := e.Res.Args[1]
			failed := hasFact(facts, func(f Fact) bool { return f.X.Key() == errv.Key() && f.Op == token.NEQ && f.Y.isNilConst() })
			tested := failed || hasFact(facts, func(f Fact) bool { return f.X.Key() == errv.Key() && f.Op == token.EQL && f.Y.isNilConst() })
			ret := t.Ret[len(t.Ret)-1]
			if !tested && ok {
				// the call may be the last thing before a plain `return x, err`
				if ret.Key() != errv.Key() {
					ok = false
					c.violated("C20.error-returned", cons, e.Pos, "the error of "+name+" is neither tested nor returned: unparsable text yields a value", c.witness(t, i)...)
				}
			}
			if failed && ret.Key() != errv.Key() && ret.isNilConst() && ok {
				ok = false
				c.violated("C20.error-returned", cons, e.Pos, "a failed "+name+" is reported as success: the decoder produces a value from text that denotes none", c.witness(t, len(t.Events)-1)...)
			}
		}
	}
	if ok && n > 0 {
		c.holds("C20.error-returned", cons, fn.Pos(), "")
	}
}

// checkDestAssigned: a decoder that reports success has assigned its destination on that path — otherwise
// decoding into a reused variable silently keeps the previous value (e.g. the empty byte list).
func (c *Ctx) checkDestAssigned(fn *ssa.Function, cons string, cfg TraceConfig) {
	traces, complete := c.Trace(fn, cfg)
	if !complete {
		c.undecided("C20.dest-assigned", cons, fn.Pos(), "path budget exceeded")
		return
	}
	ok, n := true, 0
	recv := t0Key(fn)
	for _, t := range traces {
		if t.End != EndReturn || !t.Ret[len(t.Ret)-1].isNilConst() {
			continue
		}
		n++
		assigned := false
		for _, e := range t.Events {
			if e.Kind == EvStore && e.Addr.root().Key() == recv {
				assigned = true
			}
		}
		if !assigned && ok {
			ok = false
			c.violated("C20.dest-assigned", cons, fn.Pos(), "the decoder reports success on a path that never assigns its destination: decoding into a variable that already holds a value keeps the old value (e.g. the encoding of the empty list / zero decodes as whatever was there before)", c.witness(t, len(t.Events)-1)...)
		}
	}
	if ok && n > 0 {
		c.holds("C20.dest-assigned", cons, fn.Pos(), fmt.Sprintf("%d success paths assign the destination", n))
	}
}

// checkOutputOwned: a byte slice returned by an encoder is the caller's alone. If it is a view into a buffer
// (bytes.Buffer.Bytes / Next), that buffer must not come from shared state (a call on a package-level variable,
// e.g. a sync.Pool) nor be handed to anything else on the path (e.g. Pool.Put, also when deferred): otherwise
// another call's encoding overwrites this one's output and decoding it yields a different value.
func (c *Ctx) checkOutputOwned(enc *ssa.Function, name string, traces []*Trace) {
	cons := name + " encoder"
	n, ok := 0, true
	resOf := func(t *Trace, v *Sym) *Event {
		for _, e := range t.Events {
			if e.Kind == EvCall && e.Res != nil && e.Res.Key() == v.Key() {
				return e
			}
		}
		return nil
	}
	for _, t := range traces {
		if t.End != EndReturn || len(t.Ret) == 0 {
			continue
		}
		r := t.Ret[0].strip()
		if r.Typ == nil {
			continue
		}
		if _, isSlice := r.Typ.Underlying().(*types.Slice); !isSlice {
			continue
		}
		n++
		src := resOf(t, r)
		if src == nil || len(src.Args) == 0 {
			continue
		}
		if cn := src.callName(); cn != "(*bytes.Buffer).Bytes" && cn != "(*bytes.Buffer).Next" {
			continue
		}
		buf := src.Args[0]
		why := ""
		// origin of the buffer
		buf.walk(func(x *Sym) {
			if x.Kind == KGlobal {
				why = "the buffer is package-level state (" + c.short(x.Key()) + ")"
			}
			if o := resOf(t, x); o != nil {
				for _, a := range o.Args {
					if rt := a.root(); rt != nil && rt.Kind == KGlobal {
						why = "the buffer comes from " + o.callName() + " on the package-level variable " + c.short(rt.Key())
					}
				}
			}
		})
		// handed to somebody else
		for _, e := range t.Events {
			if e.Kind != EvCall || e == src || strings.HasPrefix(e.callName(), "(*bytes.Buffer).") {
				continue
			}
			for _, a := range e.Args {
				if a.strip().Key() == buf.strip().Key() && why == "" {
					why = "the buffer is also handed to " + e.callName()
				}
			}
		}
		if why != "" && ok {
			ok = false
			c.violated("C20.output-owned", cons, src.Pos, "the encoder returns a view into a buffer it does not own exclusively ("+why+"): a later or concurrent encode reuses the buffer and rewrites this output, so decoding it gives another value's bytes", c.witness(t, len(t.Events)-1)...)
		}
	}
	if ok && n > 0 {
		c.holds("C20.output-owned", cons, enc.Pos(), fmt.Sprintf("%d paths returning a byte slice", n))
	}
}

// checkValueSource: on every success path the decoded value comes out of the library parser the pair is built on
// (strconv / time.ParseDuration / base64 / strings.Split, possibly through time.Unix or a conversion), or is a
// constant (the empty cases). A hand-rolled digit loop beside the parser silently accepts what the parser
// rejects (overflow wraps, other alphabets) — the "never silently a different number" clause.
func (c *Ctx) checkValueSource(dec *ssa.Function, name string, cfg TraceConfig) {
	cons := name + " decoder"
	traces, complete := c.Trace(dec, cfg)
	if !complete {
		c.undecided("C20.value-source", cons, dec.Pos(), "path budget exceeded")
		return
	}
	primary := func(n string) bool {
		return strings.HasPrefix(n, "strconv.") || n == "time.ParseDuration" || strings.HasPrefix(n, "(*encoding/base64.Encoding).Decode") || n == "strings.Split"
	}
	through := func(n string) bool {
		return n == "time.Unix" || n == "time.UnixMilli" || strings.HasPrefix(n, "(time.Time).")
	}
	isMethod := dec.Signature.Recv() != nil
	ok, n := true, 0
	if strings.HasSuffix(dec.Name(), "Scan") && !strings.Contains(name, "Base64") {
		return // database values of the time types arrive typed, there is no text to parse
	}
	for _, t := range traces {
		if t.End != EndReturn {
			continue
		}
		if er := t.Ret[len(t.Ret)-1]; !er.isNilConst() {
			// the parser's own (value, error) pair handed back unchanged is a success path too
			direct := false
			for _, e := range t.Events {
				if e.Kind == EvCall && e.Res != nil && e.Res.Kind == KTuple && len(e.Res.Args) == 2 && e.Res.Args[1].Key() == er.Key() && primary(e.callName()) && len(t.Ret) == 2 && t.Ret[0].Key() == e.Res.Args[0].Key() {
					direct = true
				}
			}
			if !direct {
				continue
			}
		}
		byRes := map[string]*Event{}
		for _, e := range t.Events {
			if e.Kind == EvCall && e.Res != nil {
				byRes[e.Res.Key()] = e
				if e.Res.Kind == KTuple {
					for _, a := range e.Res.Args {
						byRes[a.Key()] = e
					}
				}
			}
		}
		var derives func(s *Sym, depth int) bool
		derives = func(s *Sym, depth int) bool {
			found := false
			s.walk(func(x *Sym) {
				if found || depth > 4 {
					return
				}
				if e, is := byRes[x.Key()]; is {
					switch nm := e.callName(); {
					case primary(nm):
						found = true
					case through(nm):
						for _, a := range e.Args {
							if derives(a, depth+1) {
								found = true
							}
						}
					}
				}
			})
			return found
		}
		var vals []*Sym
		if isMethod {
			recv := t0Key(dec)
			var last *Event
			for _, e := range t.Events {
				if e.Kind == EvStore && e.Addr.Key() == recv {
					last = e
				}
			}
			if last != nil {
				vals = append(vals, last.Val)
			}
			// element stores into a destination slice made on this path (JsByte)
			for _, e := range t.Events {
				if e.Kind == EvStore && e.Addr.Kind == KIndexAddr && last != nil && e.Addr.Args[0].root().Key() == last.Val.root().Key() && last.Val.root().Kind == KAlloc {
					vals = append(vals, e.Val)
				}
			}
		} else if len(t.Ret) > 1 {
			vals = append(vals, t.Ret[0])
		}
		// base64 Decode (not DecodeString) fills a buffer sized for the worst case: only its first n bytes are the value
		for _, e := range t.Events {
			if e.Kind == EvCall && e.callName() == "(*encoding/base64.Encoding).Decode" && e.Res != nil && e.Res.Kind == KTuple && len(e.Args) >= 2 {
				cut := false
				for _, v := range vals {
					v.walk(func(x *Sym) {
						if x.Kind == KOp && x.Name == "slice" && len(x.Args) >= 3 && x.Args[0].root() != nil && e.Args[1].root() != nil && x.Args[0].root().Key() == e.Args[1].root().Key() && x.Args[2].Key() == e.Res.Args[0].Key() {
							cut = true
						}
					})
				}
				if !cut && ok {
					ok = false
					c.violated("C20.value-source", cons, e.Pos, "the buffer filled by base64 Decode is stored without being cut to the number of bytes decoded: input with ignored characters (line breaks) decodes with trailing zero bytes", c.witness(t, len(t.Events)-1)...)
				}
			}
		}
		for _, v := range vals {
			n++
			sv := v.strip()
			if sv.isConst() || sv.isNilConst() || sv.Kind == KAlloc || derives(v, 0) {
				continue
			}
			if ok {
				ok = false
				c.violated("C20.value-source", cons, dec.Pos(), "on a success path the decoded value ("+c.short(v.Key())+") does not come out of the library parser this codec is built on: input the parser would reject (a number beyond the type's range, another spelling) is accepted as some other value with a nil error", c.witness(t, len(t.Events)-1)...)
			}
		}
	}
	if ok && n > 0 {
		c.holds("C20.value-source", cons, dec.Pos(), fmt.Sprintf("%d decoded values come from the library parser or are constants", n))
	}
}

func t0Key(fn *ssa.Function) string { return "$" + fn.Params[0].Name() }

// checkQuoteWrap: MarshalJSON returns append(append(append(make(...), '"'), payload...), '"')
func (c *Ctx) checkQuoteWrap(fn *ssa.Function, cons string, cfg TraceConfig) {
	traces, _ := c.Trace(fn, cfg)
	ok, n := true, 0
	for _, t := range traces {
		if t.End != EndReturn || len(t.Ret) != 2 {
			continue
		}
		n++
		r := t.Ret[0]
		// collect the append chain
		var parts []*Sym
		for r != nil && r.Kind == KOp && r.Name == "append" && len(r.Args) == 2 {
			parts = append([]*Sym{r.Args[1]}, parts...)
			r = r.Args[0]
		}
		isQuoteLit := func(s *Sym) bool {
			// a one-element slice holding '"': appended as slice(new[1]) after a store of 34
			found := false
			root := s.root()
			for _, e := range t.Events {
				if e.Kind == EvStore && e.Addr.Kind == KIndexAddr && e.Addr.Args[0].Key() == root.Key() {
					if v, isC := e.Val.intConst(); isC && v == '"' {
						found = true
					}
				}
			}
			return found
		}
		good := len(parts) == 3 && isQuoteLit(parts[0]) && isQuoteLit(parts[2]) && !isQuoteLit(parts[1]) && r != nil && r.root() != nil && r.root().Kind == KAlloc
		// form (b): append(strconv.AppendInt/AppendUint(append(fresh, '"'), v, 10), '"')
		if !good && len(parts) == 1 && isQuoteLit(parts[0]) && r != nil {
			for _, e := range t.Events {
				if e.Kind == EvCall && e.Res != nil && e.Res.Key() == r.Key() && (e.callName() == "strconv.AppendInt" || e.callName() == "strconv.AppendUint" || e.callName() == "strconv.AppendQuote") && len(e.Args) >= 1 {
					in := e.Args[0]
					if in.Kind == KOp && in.Name == "append" && len(in.Args) == 2 && isQuoteLit(in.Args[1]) && in.Args[0].root() != nil && in.Args[0].root().Kind == KAlloc {
						good = true
					}
				}
			}
		}
		// form (c): out := make([]byte, len(text)+2); out[0] = '"'; copy(out[1:], text); out[len(out)-1] = '"'
		if !good {
			out := t.Ret[0]
			if out.Kind == KAlloc && len(out.Args) == 2 {
				ln := lf(out.Args[0])
				first, last, body := false, false, false
				for _, e := range t.Events {
					if e.Kind == EvStore && e.Addr.Kind == KIndexAddr && e.Addr.Args[0].Key() == out.Key() {
						if v, isC := e.Val.intConst(); isC && v == '"' {
							if isIntConst(e.Addr.Args[1], 0) {
								first = true
							}
							if lf(e.Addr.Args[1]).equal(ln.add(lfConst(1), -1)) {
								last = true
							}
						}
					}
					if e.Kind == EvCall && e.Val != nil && e.Val.Name == "builtin:copy" && len(e.Args) == 2 {
						d := e.Args[0]
						if d.Kind == KOp && d.Name == "slice" && d.Args[0].Key() == out.Key() && isIntConst(d.Args[1], 1) {
							// the payload fills exactly the space between the quotes: len(out) = len(payload) + 2
							pl := lf(&Sym{Kind: KOp, Name: "len", Args: []*Sym{e.Args[1]}})
							if ln.equal(pl.add(lfConst(2), 1)) {
								body = true
							}
						}
					}
				}
				good = first && last && body
			}
		}
		// form (d): []byte(`"` + text + `"`); form (e): []byte(strconv.Quote(digits)) where the text is the output of
		// strconv.FormatInt / FormatUint / Itoa (digits and a sign: nothing Quote would escape)
		if !good {
			out := t.Ret[0]
			for out.Kind == KConv {
				out = out.Args[0]
			}
			isQ := func(x *Sym) bool { v, isS := constStr(x); return isS && v == "\"" }
			if out.Kind == KBin && out.Op == token.ADD && isQ(out.Args[1]) {
				if l := out.Args[0]; l.Kind == KBin && l.Op == token.ADD && isQ(l.Args[0]) && !isQ(l.Args[1]) {
					good = true
				}
			}
			for _, e := range t.Events {
				if e.Kind == EvCall && e.callName() == "strconv.Quote" && e.Res != nil && e.Res.Key() == out.Key() && len(e.Args) == 1 {
					for _, p := range t.Events {
						if p.Kind == EvCall && p.Res != nil && p.Res.Key() == e.Args[0].Key() {
							switch p.callName() {
							case "strconv.FormatInt", "strconv.FormatUint", "strconv.Itoa":
								good = true
							}
						}
					}
				}
			}
		}
		if !good && ok {
			ok = false
			c.violated("C20.quote-wrap", cons, fn.Pos(), fmt.Sprintf("MarshalJSON does not wrap the encoded text in exactly one quote at each end (%d appended parts): the output is not a JSON string the decoder accepts", len(parts)), c.witness(t, len(t.Events)-1)...)
		}
	}
	if ok && n > 0 {
		c.holds("C20.quote-wrap", cons, fn.Pos(), "\"<payload>\"")
	}
}
