package main

import (
	"flag"
	"fmt"
	"go/token"
	"golang.org/x/tools/go/ssa"
	"os"
	"os/exec"
	"path/filepath"
	"runtime/debug"
	"sort"
	"strconv"
	"strings"
	"time"
)

type overlayFlag map[string]string

func (o overlayFlag) String() string { return "" }
func (o overlayFlag) Set(s string) error {
	i := strings.Index(s, "=")
	if i < 0 {
		return fmt.Errorf("want file=replacement")
	}
	o[s[:i]] = s[i+1:]
	return nil
}

func main() {
	prop := flag.String("property", "", "property id (C01..C20) or 'all'")
	tier := flag.String("tier", "quick", "quick|thorough")
	repo := flag.String("repo", "/repo", "repository root (the current working tree is analysed)")
	verif := flag.String("verif", "", "verif dir (default: directory above the binary)")
	replay := flag.String("replay", "", "violation report to re-evaluate")
	outDir := flag.String("out", "", "write evidence/ and reports/ below this directory instead of the verif dir (used by the mutant self-test)")
	goarch := flag.String("goarch", "amd64", "GOARCH to analyse")
	list := flag.Bool("list", false, "list properties")
	dump := flag.String("dump", "", "development aid: rel/pkg:Func — print the traces of a function")
	listFuncs := flag.Bool("list-funcs", false, "development aid: print every source function of the module (input of tools/knownfuncs.py)")
	ov := overlayFlag{}
	flag.Var(ov, "overlay", "repo-relative-file=replacement-file (in-memory mutant; development aid)")
	flag.Parse()

	if *verif == "" {
		exe, _ := os.Executable()
		*verif = filepath.Dir(filepath.Dir(exe))
	}
	if *list {
		ids := []string{}
		for id := range registry {
			ids = append(ids, id)
		}
		sort.Strings(ids)
		for _, id := range ids {
			fmt.Println(id, registry[id].Patterns)
		}
		return
	}
	if *listFuncs {
		doListFuncs(*repo, *verif)
		return
	}
	if *dump != "" {
		dov := map[string][]byte{}
		for f, r := range ov {
			if b, err := os.ReadFile(r); err == nil {
				dov[filepath.Join(*repo, f)] = b
			}
		}
		doDump(*dump, *repo, *verif, dov)
		return
	}
	if *replay != "" {
		os.Exit(doReplay(*replay, *repo, *verif))
	}
	if t := os.Getenv("VERIF_TIER"); t != "" && !isFlagSet("tier") {
		*tier = t
	}
	seed, _ := strconv.Atoi(os.Getenv("VERIF_SEED"))
	p := registry[*prop]
	if p == nil {
		fmt.Printf("unknown property %q\n", *prop)
		os.Exit(2)
	}
	overlay := map[string][]byte{}
	for f, r := range ov {
		b, err := os.ReadFile(r)
		if err != nil {
			fmt.Println(err)
			os.Exit(2)
		}
		overlay[filepath.Join(*repo, f)] = b
	}
	outDirGlobal = *outDir
	os.Exit(runProperty(p, *tier, *repo, *verif, *goarch, seed, overlay))
}

var outDirGlobal string

func isFlagSet(name string) bool {
	set := false
	flag.Visit(func(f *flag.Flag) {
		if f.Name == name {
			set = true
		}
	})
	return set
}

func runProperty(p *Property, tier, repo, verif, goarch string, seed int, overlay map[string][]byte) (exit int) {
	start := time.Now()
	c := &Ctx{Prop: p, Tier: tier, RepoDir: repo, VerifDir: verif, oblIdx: map[string]*Obligation{}, Stats: map[string]int{}, Tables: map[string]interface{}{}, GOARCH: goarch, Fset: token.NewFileSet()}
	var fatal error
	func() {
		defer func() {
			if r := recover(); r != nil {
				fatal = fmt.Errorf("checker panic: %v\n%s", r, debug.Stack())
			}
		}()
		if err := c.load(overlay); err != nil {
			fatal = err
			return
		}
		p.Run(c)
	}()
	if fatal != nil {
		fmt.Printf("FATAL: %v\n", fatal)
	}
	if tier == "thorough" && fatal == nil && outDirGlobal == "" {
		c.selfValidate()
	}
	return c.finish(start, seed, fatal)
}

// doReplay re-runs the property of a violation report and prints only the obligation it names.
func doReplay(path, repo, verif string) int {
	b, err := os.ReadFile(path)
	if err != nil {
		fmt.Println(err)
		return 2
	}
	var rep struct {
		Property   string     `json:"property"`
		Tier       string     `json:"tier"`
		Obligation Obligation `json:"obligation"`
	}
	if err := jsonUnmarshal(b, &rep); err != nil {
		fmt.Println(err)
		return 2
	}
	p := registry[rep.Property]
	if p == nil {
		fmt.Println("unknown property in report")
		return 2
	}
	c := &Ctx{Prop: p, Tier: rep.Tier, RepoDir: repo, VerifDir: verif, oblIdx: map[string]*Obligation{}, Stats: map[string]int{}, Tables: map[string]interface{}{}, GOARCH: "amd64", Fset: token.NewFileSet()}
	if err := c.load(nil); err != nil {
		fmt.Println("FATAL:", err)
		return 2
	}
	p.Run(c)
	for _, o := range c.Obls {
		if o.Rule == rep.Obligation.Rule && o.Construct == rep.Obligation.Construct {
			fmt.Printf("%s %s rule=%s construct=%s\n  %s\n", o.Status, o.Pos, o.Rule, o.Construct, o.Detail)
			for _, w := range o.Witness {
				fmt.Println("   ", w)
			}
			if o.Status == Holds {
				return 0
			}
			return 1
		}
	}
	fmt.Println("obligation no longer exists on this tree")
	return 0
}

// selfValidate (thorough tier): run the single-edit mutants of mutants/<id>.json against the current tree
// through the loader's overlay and record the outcomes. They never change the property's verdict: a mutant
// that no longer applies to an edited tree is not a violation of the property.
func (c *Ctx) selfValidate() {
	tool := filepath.Join(c.VerifDir, "tools", "mutants.py")
	if _, err := os.Stat(tool); err != nil {
		c.note("mutant self-validation skipped: %v", err)
		return
	}
	cmd := exec.Command("python3", tool, "-p", c.Prop.ID, "-j", "16", "-v")
	cmd.Env = append(os.Environ(), "NEPCHECK_REPO="+c.RepoDir)
	out, err := cmd.CombinedOutput()
	if err != nil {
		c.note("mutant self-validation could not run: %v", err)
	}
	counts := map[string]int{}
	var lines []string
	for _, l := range strings.Split(string(out), "\n") {
		f := strings.Fields(l)
		if len(f) >= 2 && f[0] == c.Prop.ID {
			counts[f[1]]++
			if len(l) > 160 {
				l = l[:160]
			}
			lines = append(lines, l)
		}
	}
	c.Tables["mutant_self_validation"] = map[string]interface{}{"outcomes": counts, "mutants": lines}
	fmt.Printf("self-validation (mutants of the current tree, informational): %v\n", counts)
}

func doDump(spec, repo, verif string, overlay map[string][]byte) {
	i := strings.Index(spec, ":")
	rel, name := spec[:i], spec[i+1:]
	p := &Property{ID: "DUMP", Patterns: []string{"./" + rel}}
	c := &Ctx{Prop: p, Tier: "quick", RepoDir: repo, VerifDir: verif, oblIdx: map[string]*Obligation{}, Stats: map[string]int{}, Tables: map[string]interface{}{}, GOARCH: "amd64", Fset: token.NewFileSet()}
	if err := c.load(overlay); err != nil {
		fmt.Println("FATAL:", err)
		return
	}
	f := c.fn(rel, name)
	if f == nil {
		fmt.Println("function not found")
		return
	}
	dcfg := TraceConfig{}
	if os.Getenv("NEPDUMP_NOINL") != "" {
		dcfg.Inline = func(*ssa.Function, int) bool { return false }
	}
	traces, complete := c.Trace(f, dcfg)
	fmt.Printf("%d traces complete=%v\n", len(traces), complete)
	for i, t := range traces {
		fmt.Printf("--- trace %d end=%d ret=%v\n", i, t.End, t.Ret)
		for j, e := range t.Events {
			fmt.Printf("  %3d %s%s  @%s\n", j, strings.Repeat(" ", e.Depth), e, c.posStr(e.Pos))
		}
	}
}

// doListFuncs prints "pkgpath\tname" for every source function of the module (methods as Type.Method).
func doListFuncs(repo, verif string) {
	p := &Property{ID: "LIST", Patterns: []string{"./..."}}
	c := &Ctx{Prop: p, Tier: "quick", RepoDir: repo, VerifDir: verif, oblIdx: map[string]*Obligation{}, Stats: map[string]int{}, Tables: map[string]interface{}{}, GOARCH: "amd64", Fset: token.NewFileSet()}
	if err := c.load(nil); err != nil {
		fmt.Println("FATAL:", err)
		return
	}
	for _, fn := range c.allSourceFuncs() {
		if fn.Parent() != nil {
			continue
		}
		fmt.Printf("%s\t%s\n", fn.Pkg.Pkg.Path(), helperName(fn))
	}
}
