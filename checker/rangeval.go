package main

import (
	"fmt"
	"go/constant"
	"go/token"
	"go/types"
	"math/big"
	"sort"
	"strings"
)

// Engine E4: interval evaluation of a symbolic integer expression under the branch facts of its path.
// A value is [lo,hi] (nil = unbounded on that side, always clipped to the type) plus symbolic strict upper
// bounds: lt[k] means value < sym k, absLt[k] means |value| < sym k. Arithmetic is overflow aware: a result
// that may leave its type is widened to the full range of the type and recorded in Overflows.

type Itv struct {
	lo, hi *big.Int
	lt     map[string]bool
	absLt  map[string]bool
}

func (i Itv) String() string {
	lo, hi := "-inf", "+inf"
	if i.lo != nil {
		lo = i.lo.String()
	}
	if i.hi != nil {
		hi = i.hi.String()
	}
	s := "[" + lo + "," + hi + "]"
	var ks []string
	for k := range i.lt {
		ks = append(ks, "<"+k)
	}
	for k := range i.absLt {
		ks = append(ks, "|.|<"+k)
	}
	sort.Strings(ks)
	if len(ks) > 0 {
		s += "{" + strings.Join(ks, ",") + "}"
	}
	return s
}

type Ranger struct {
	c         *Ctx
	t         *Trace
	facts     []Fact
	Assume    map[string]Itv // by bound key (conversions stripped)
	Overflows []string
	depth     int
	Model     func(r *Ranger, s *Sym) (Itv, bool) // models for opaque call results
	memo      map[string]Itv
}

func (c *Ctx) newRanger(t *Trace, upto int) *Ranger {
	return &Ranger{c: c, t: t, facts: t.factsBefore(upto), Assume: map[string]Itv{}, memo: map[string]Itv{}}
}

func bi(x int64) *big.Int { return big.NewInt(x) }

func typeRange(t types.Type, goarch string) (lo, hi *big.Int, ok bool) {
	if t == nil {
		return nil, nil, false
	}
	b, isb := t.Underlying().(*types.Basic)
	if !isb || b.Info()&types.IsInteger == 0 {
		return nil, nil, false
	}
	bits := intBits(b)
	if goarch == "386" && (b.Kind() == types.Int || b.Kind() == types.Uint || b.Kind() == types.Uintptr) {
		bits = 32
	}
	if bits == 0 {
		return nil, nil, false
	}
	if b.Info()&types.IsUnsigned != 0 {
		hi = new(big.Int).Lsh(bi(1), uint(bits))
		hi.Sub(hi, bi(1))
		return bi(0), hi, true
	}
	hi = new(big.Int).Lsh(bi(1), uint(bits-1))
	lo = new(big.Int).Neg(hi)
	hi = new(big.Int).Sub(hi, bi(1))
	return lo, hi, true
}

// boundKey canonicalises a symbol used as a symbolic bound: integer conversions are looked through.
func boundKey(s *Sym) string {
	for s != nil && s.Kind == KConv && (s.Name == "convert" || s.Name == "changetype") {
		s = s.Args[0]
	}
	return s.Key()
}

func (r *Ranger) full(t types.Type) Itv {
	lo, hi, _ := typeRange(t, r.c.GOARCH)
	return Itv{lo: lo, hi: hi}
}

func minB(a, b *big.Int) *big.Int {
	if a == nil {
		return b
	}
	if b == nil {
		return a
	}
	if a.Cmp(b) <= 0 {
		return a
	}
	return b
}
func maxB(a, b *big.Int) *big.Int {
	if a == nil {
		return b
	}
	if b == nil {
		return a
	}
	if a.Cmp(b) >= 0 {
		return a
	}
	return b
}

func cloneSet(m map[string]bool) map[string]bool {
	if len(m) == 0 {
		return nil
	}
	o := make(map[string]bool, len(m))
	for k := range m {
		o[k] = true
	}
	return o
}
func unionSet(a, b map[string]bool) map[string]bool {
	if len(a) == 0 {
		return cloneSet(b)
	}
	o := cloneSet(a)
	for k := range b {
		o[k] = true
	}
	return o
}

// clip fits the interval into the type; a value that may leave the type wraps: full range.
func (r *Ranger) clip(v Itv, t types.Type, what *Sym) Itv {
	lo, hi, ok := typeRange(t, r.c.GOARCH)
	if !ok {
		return v
	}
	if v.lo == nil || v.hi == nil || v.lo.Cmp(lo) < 0 || v.hi.Cmp(hi) > 0 {
		if v.lo != nil && v.hi != nil || (v.lo != nil && v.lo.Cmp(lo) < 0) || (v.hi != nil && v.hi.Cmp(hi) > 0) {
			r.Overflows = append(r.Overflows, what.Key())
		}
		return Itv{lo: lo, hi: hi}
	}
	return v
}

func (r *Ranger) normalise(v Itv) Itv {
	if v.lo != nil && v.lo.Sign() >= 0 && len(v.absLt) > 0 {
		v.lt = unionSet(v.lt, v.absLt)
	}
	// symbolic bounds with a known numeric range tighten hi
	for k := range v.lt {
		if a, ok := r.Assume[k]; ok && a.hi != nil {
			v.hi = minB(v.hi, new(big.Int).Sub(a.hi, bi(1)))
		}
	}
	return v
}

// Eval computes the interval of s.
func (r *Ranger) Eval(s *Sym) Itv {
	if s == nil {
		return Itv{}
	}
	if v, ok := r.memo[s.Key()]; ok {
		return v
	}
	r.depth++
	defer func() { r.depth-- }()
	if r.depth > 40 {
		return r.full(s.Typ)
	}
	v := r.eval0(s)
	// intersect with the type
	if lo, hi, ok := typeRange(s.Typ, r.c.GOARCH); ok {
		v.lo, v.hi = maxB(v.lo, lo), minB(v.hi, hi)
	}
	if a, ok := r.Assume[boundKey(s)]; ok {
		v.lo, v.hi = maxB(v.lo, a.lo), minB(v.hi, a.hi)
	}
	v = r.refine(s, v)
	v = r.normalise(v)
	r.memo[s.Key()] = v
	return v
}

func (r *Ranger) eval0(s *Sym) Itv {
	switch s.Kind {
	case KConst:
		if s.Const != nil && s.Const.Kind() == constant.Int {
			if b, ok := new(big.Int).SetString(s.Const.ExactString(), 10); ok {
				return Itv{lo: b, hi: b}
			}
		}
		return r.full(s.Typ)
	case KBin:
		return r.evalBin(s)
	case KUn:
		x := r.Eval(s.Args[0])
		switch s.Op {
		case token.SUB:
			var lo, hi *big.Int
			if x.hi != nil {
				lo = new(big.Int).Neg(x.hi)
			}
			if x.lo != nil {
				hi = new(big.Int).Neg(x.lo)
			}
			v := Itv{lo: lo, hi: hi, absLt: unionSet(x.absLt, nil)}
			if x.lo != nil && x.lo.Sign() >= 0 {
				v.absLt = unionSet(v.absLt, x.lt)
			}
			w := r.clip(v, s.Typ, s)
			if w.lo == v.lo && w.hi == v.hi {
				return v
			}
			return w
		case token.XOR:
			return r.full(s.Typ)
		}
	case KConv:
		if s.Name == "convert" || s.Name == "changetype" {
			x := r.Eval(s.Args[0])
			lo, hi, ok := typeRange(s.Typ, r.c.GOARCH)
			if !ok {
				return Itv{}
			}
			if _, _, srcInt := typeRange(s.Args[0].Typ, r.c.GOARCH); !srcInt {
				return Itv{lo: lo, hi: hi}
			}
			if x.lo != nil && x.hi != nil && x.lo.Cmp(lo) >= 0 && x.hi.Cmp(hi) <= 0 {
				return x // value preserving
			}
			// may wrap / truncate
			r.Overflows = append(r.Overflows, "narrowing "+s.Key())
			return Itv{lo: lo, hi: hi}
		}
	case KOp:
		switch s.Name {
		case "len", "cap":
			_, hi, _ := typeRange(types.Typ[types.Int], r.c.GOARCH)
			v := Itv{lo: bi(0), hi: hi}
			// len(make([]T, n)) == n
			if a := s.Args[0]; a.Kind == KAlloc && len(a.Args) == 2 {
				idx := 0
				if s.Name == "cap" {
					idx = 1
				}
				x := r.Eval(a.Args[idx])
				x.lo = maxB(x.lo, bi(0))
				return x
			}
			return v
		case "min":
			if len(s.Args) == 2 {
				a, b := r.Eval(s.Args[0]), r.Eval(s.Args[1])
				return Itv{lo: minB(a.lo, b.lo), hi: minBnil(a.hi, b.hi), lt: unionSet(a.lt, b.lt)}
			}
		}
	case KFresh:
		if s.Name == "loop" && len(s.Args) >= 1 && s.Args[0] != nil {
			init := r.Eval(s.Args[0])
			v := r.full(s.Typ)
			if len(s.Args) >= 2 && s.Args[1] != nil {
				if st, ok := s.Args[1].intConst(); ok {
					if st > 0 {
						v.lo = maxB(v.lo, init.lo)
					} else if st < 0 {
						v.hi = minB(v.hi, init.hi)
						v.lt = cloneSet(init.lt)
					}
				}
			}
			return v
		}
		if r.Model != nil {
			if v, ok := r.Model(r, s); ok {
				return v
			}
		}
		if v, ok := r.stdModel(s); ok {
			return v
		}
	}
	return r.full(s.Typ)
}

// minBnil: min where nil means +inf for upper bounds
func minBnil(a, b *big.Int) *big.Int {
	if a == nil || b == nil {
		if a == nil {
			return b
		}
		return a
	}
	return minB(a, b)
}

// stdModel: contracts of standard library calls whose result is s (found through the trace).
func (r *Ranger) stdModel(s *Sym) (Itv, bool) {
	if r.t == nil {
		return Itv{}, false
	}
	for _, e := range r.t.Events {
		if e.Kind != EvCall || e.Res == nil || e.Res.Key() != s.Key() {
			continue
		}
		switch e.callName() {
		case "sort.Search":
			n := r.Eval(e.Args[0])
			return Itv{lo: bi(0), hi: n.hi}, true
		case "math/bits.TrailingZeros64", "math/bits.Len64", "math/bits.OnesCount64", "math/bits.LeadingZeros64":
			v := Itv{lo: bi(0), hi: bi(64)}
			nz := hasFact(r.facts, func(f Fact) bool {
				z, isz := f.Y.intConst()
				return f.X.Key() == e.Args[0].Key() && isz && z == 0 && (f.Op == token.NEQ || f.Op == token.GTR)
			})
			if nz {
				switch e.callName() {
				case "math/bits.TrailingZeros64", "math/bits.LeadingZeros64":
					v.hi = bi(63)
				case "math/bits.Len64", "math/bits.OnesCount64":
					v.lo = bi(1)
				}
			}
			return v, true
		case "math/bits.TrailingZeros32", "math/bits.Len32", "math/bits.OnesCount32":
			return Itv{lo: bi(0), hi: bi(32)}, true
		case "math/rand.Intn", "(*math/rand.Rand).Intn", "math/rand.Int63n", "math/rand.Int31n":
			a := e.Args[len(e.Args)-1]
			n := r.Eval(a)
			v := Itv{lo: bi(0), lt: map[string]bool{boundKey(a): true}}
			if n.hi != nil {
				v.hi = new(big.Int).Sub(n.hi, bi(1))
			}
			return v, true
		}
	}
	return Itv{}, false
}

func mulB(a, b *big.Int) *big.Int { return new(big.Int).Mul(a, b) }

func (r *Ranger) evalBin(s *Sym) Itv {
	x, y := r.Eval(s.Args[0]), r.Eval(s.Args[1])
	known := func(v Itv) bool { return v.lo != nil && v.hi != nil }
	switch s.Op {
	case token.ADD:
		if known(x) && known(y) {
			v := Itv{lo: new(big.Int).Add(x.lo, y.lo), hi: new(big.Int).Add(x.hi, y.hi)}
			return r.clip(v, s.Typ, s)
		}
	case token.SUB:
		if known(x) && known(y) {
			v := Itv{lo: new(big.Int).Sub(x.lo, y.hi), hi: new(big.Int).Sub(x.hi, y.lo)}
			w := r.clip(v, s.Typ, s)
			// x - c with c >= 0 keeps the strict symbolic upper bounds of x
			if y.lo.Sign() >= 0 && w.lo == v.lo {
				w.lt = cloneSet(x.lt)
			}
			return w
		}
	case token.MUL:
		if known(x) && known(y) {
			ps := []*big.Int{mulB(x.lo, y.lo), mulB(x.lo, y.hi), mulB(x.hi, y.lo), mulB(x.hi, y.hi)}
			lo, hi := ps[0], ps[0]
			for _, p := range ps[1:] {
				lo, hi = minB(lo, p), maxB(hi, p)
			}
			return r.clip(Itv{lo: lo, hi: hi}, s.Typ, s)
		}
	case token.QUO:
		if known(x) && known(y) && y.lo.Sign() > 0 {
			qs := []*big.Int{new(big.Int).Quo(x.lo, y.lo), new(big.Int).Quo(x.lo, y.hi), new(big.Int).Quo(x.hi, y.lo), new(big.Int).Quo(x.hi, y.hi)}
			lo, hi := qs[0], qs[0]
			for _, p := range qs[1:] {
				lo, hi = minB(lo, p), maxB(hi, p)
			}
			return Itv{lo: lo, hi: hi}
		}
	case token.REM:
		if y.lo != nil && y.lo.Sign() > 0 {
			k := boundKey(s.Args[1])
			var m1 *big.Int
			if y.hi != nil {
				m1 = new(big.Int).Sub(y.hi, bi(1))
			}
			if x.lo != nil && x.lo.Sign() >= 0 {
				hi := m1
				if x.hi != nil {
					hi = minBnil(hi, x.hi)
				}
				return Itv{lo: bi(0), hi: hi, lt: map[string]bool{k: true}, absLt: map[string]bool{k: true}}
			}
			v := Itv{hi: m1, absLt: map[string]bool{k: true}}
			if m1 != nil {
				v.lo = new(big.Int).Neg(m1)
			}
			if x.hi != nil && x.hi.Sign() <= 0 {
				v.hi = bi(0)
			}
			return v
		}
	case token.AND:
		// x & mask with a non-negative operand bounds the result
		if y.lo != nil && y.lo.Sign() >= 0 && y.hi != nil {
			return Itv{lo: bi(0), hi: y.hi}
		}
		if x.lo != nil && x.lo.Sign() >= 0 && x.hi != nil {
			return Itv{lo: bi(0), hi: x.hi}
		}
	case token.SHR:
		if known(x) && known(y) && x.lo.Sign() >= 0 && y.lo.Sign() >= 0 && y.lo.IsInt64() && y.lo.Int64() < 128 {
			return Itv{lo: bi(0), hi: new(big.Int).Rsh(x.hi, uint(y.lo.Int64()))}
		}
	case token.SHL:
		if known(x) && known(y) && x.lo.Sign() >= 0 && y.lo.Sign() >= 0 && y.hi.IsInt64() && y.hi.Int64() < 128 {
			v := Itv{lo: new(big.Int).Lsh(x.lo, uint(y.lo.Int64())), hi: new(big.Int).Lsh(x.hi, uint(y.hi.Int64()))}
			return r.clip(v, s.Typ, s)
		}
	case token.OR, token.XOR:
		if known(x) && known(y) && x.lo.Sign() >= 0 && y.lo.Sign() >= 0 {
			n := maxB(x.hi, y.hi).BitLen()
			hi := new(big.Int).Lsh(bi(1), uint(n))
			return Itv{lo: bi(0), hi: hi.Sub(hi, bi(1))}
		}
	}
	return r.full(s.Typ)
}

// refine applies the path facts that mention s directly.
func (r *Ranger) refine(s *Sym, v Itv) Itv {
	key := s.Key()
	// facts about the same-width unsigned reinterpretation of s: uintN(s) <= hi < 2^(N-1) implies 0 <= s <= hi
	if slo, shi, ok := typeRange(s.Typ, r.c.GOARCH); ok && slo.Sign() < 0 && r.depth < 30 {
		for _, f := range r.facts {
			for _, side := range []*Sym{f.X, f.Y} {
				if side.Kind != KConv || side.Name != "convert" || side.Args[0].Key() != key {
					continue
				}
				ulo, uhi, uok := typeRange(side.Typ, r.c.GOARCH)
				if !uok || ulo.Sign() != 0 || uhi.BitLen() != shi.BitLen()+1 {
					continue
				}
				u := r.Eval(side)
				if u.hi != nil && u.hi.Cmp(shi) <= 0 {
					v.lo = maxB(v.lo, maxB(u.lo, bi(0)))
					v.hi = minBnil(v.hi, u.hi)
				}
			}
		}
	}
	for _, f := range r.facts {
		var op token.Token
		var other *Sym
		if f.X.Key() == key {
			op, other = f.Op, f.Y
		} else if f.Y.Key() == key {
			op, other = swapOp(f.Op), f.X
		} else {
			continue
		}
		if other.Key() == key {
			continue
		}
		if r.depth > 30 {
			continue
		}
		o := r.Eval(other)
		switch op {
		case token.LSS:
			if o.hi != nil {
				v.hi = minBnil(v.hi, new(big.Int).Sub(o.hi, bi(1)))
			}
			v.lt = unionSet(v.lt, o.lt)
			if !other.isConst() {
				v.lt = unionSet(v.lt, map[string]bool{boundKey(other): true})
			}
		case token.LEQ:
			if o.hi != nil {
				v.hi = minBnil(v.hi, o.hi)
			}
			v.lt = unionSet(v.lt, o.lt)
		case token.GTR:
			if o.lo != nil {
				v.lo = maxB(v.lo, new(big.Int).Add(o.lo, bi(1)))
			}
		case token.GEQ:
			if o.lo != nil {
				v.lo = maxB(v.lo, o.lo)
			}
		case token.EQL:
			v.lo, v.hi = maxB(v.lo, o.lo), minBnil(v.hi, o.hi)
			v.lt = unionSet(v.lt, o.lt)
			v.absLt = unionSet(v.absLt, o.absLt)
		case token.NEQ:
			if o.lo != nil && o.hi != nil && o.lo.Cmp(o.hi) == 0 {
				if v.lo != nil && v.lo.Cmp(o.lo) == 0 {
					v.lo = new(big.Int).Add(v.lo, bi(1))
				}
				if v.hi != nil && v.hi.Cmp(o.lo) == 0 {
					v.hi = new(big.Int).Sub(v.hi, bi(1))
				}
			}
		}
	}
	return v
}

// inRange0 reports whether v is provably within [0, bound): lo>=0 and (v < bound symbolically, or numerically).
func (r *Ranger) inRange0(v Itv, bound *Sym) (bool, string) {
	if v.lo == nil || v.lo.Sign() < 0 {
		return false, fmt.Sprintf("may be negative: %s", v)
	}
	if v.lt[boundKey(bound)] {
		return true, ""
	}
	b := r.Eval(bound)
	if v.hi != nil && b.lo != nil && v.hi.Cmp(b.lo) < 0 {
		return true, ""
	}
	return false, fmt.Sprintf("not provably below %s: %s", boundKey(bound), v)
}
