package main

import (
	"go/types"
	"strings"

	"golang.org/x/tools/go/ssa"
)

// checkOptionTargets: the functional-options idiom configures ONE object per call. Every function of the given
// packages that applies a variadic list of option functions (`for _, opt := range opts { opt(o) }`) must hand
// them an object allocated in that very call: an object that lives in a package-level variable (a shared
// "default option") is written by every call, so the options of one container, queue or server leak into all
// that are built later — the bound, ratio or limit the property relies on is no longer the one configured.
func (c *Ctx) checkOptionTargets(rule string, rels ...string) {
	for _, rel := range rels {
		for _, fn := range c.funcsOf(rel) {
			if fn.Parent() != nil || len(fn.Blocks) == 0 || fn.Signature.Params().Len() == 0 || !fn.Signature.Variadic() {
				continue
			}
			last := fn.Signature.Params().At(fn.Signature.Params().Len() - 1)
			sl, ok := last.Type().Underlying().(*types.Slice)
			if !ok {
				continue
			}
			fsig, ok := sl.Elem().Underlying().(*types.Signature)
			if !ok || fsig.Params().Len() != 1 || fsig.Results().Len() != 0 {
				continue
			}
			if _, isPtr := fsig.Params().At(0).Type().Underlying().(*types.Pointer); !isPtr {
				continue
			}
			pkg := fn.Pkg
			inl := func(callee *ssa.Function, depth int) bool {
				return depth <= 3 && callee.Pkg == pkg && pkg != nil
			}
			traces, complete := c.Trace(fn, TraceConfig{Inline: inl})
			name := c.fname(fn)
			if !complete {
				c.undecided(rule, name, fn.Pos(), "path budget exceeded")
				continue
			}
			optsKey := "$" + fn.Params[len(fn.Params)-1].Name()
			applied, ok2 := 0, true
			for _, t := range traces {
				for i, e := range t.Events {
					if e.Kind != EvCall || e.Val == nil || len(e.Args) != 1 {
						continue
					}
					// the function called is an element of the option list
					v := e.Val
					if !(v.Kind == KInit && v.Args[0].Kind == KIndexAddr && strings.HasPrefix(v.Args[0].Args[0].Key(), optsKey)) {
						continue
					}
					applied++
					r := e.Args[0].root()
					fresh := r != nil && r.Kind == KAlloc
					if !fresh && ok2 {
						ok2 = false
						c.violated(rule, name, e.Pos, "the option functions are applied to an object that is not allocated by this call ("+c.short(e.Args[0].Key())+"): a shared default object is rewritten by every call, so the options given to one instance leak into every instance built afterwards", c.witness(t, i)...)
					}
				}
			}
			if applied > 0 && ok2 {
				c.holds(rule, name, fn.Pos(), "options applied to an object allocated by the call")
			}
		}
	}
}
