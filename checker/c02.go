package main

import (
	"fmt"
	"go/token"
	"go/types"
	"strings"

	"golang.org/x/tools/go/ssa"
)

func init() {
	register(&Property{
		ID:       "C02",
		Patterns: []string{"./syncx/keylock"},
		Explanation: "For KeyLocker and TKeyLocker[T] (one rule set, so both must agree) and the two groups, decides on every path: (1) lockMap and the per-key counters are touched only under the table mutex; " +
			"(2) the table mutex is never held while blocking on a per-key RWMutex (Lock/RLock) — holding one key cannot block another key's operations — while the non-blocking Unlock/RUnlock may run under it; " +
			"(3) a per-key lock is blocked on only after its matching counter was incremented under the table mutex (the entry cannot be freed while someone waits); for Locks/RLocks every element put in the returned slice was incremented in the same critical section and the slice is locked in index order; " +
			"(4) mode table: Lock=(writeCount+1, rw.Lock), Unlock=(rw.Unlock, writeCount-1), RLock=(readCount+1, rw.RLock), RUnlock=(rw.RUnlock, readCount-1), on the entry looked up for the caller's key; " +
			"(5) an entry is deleted only under readCount==0 AND writeCount==0 of the current values, every unlock performs the free test before releasing the table mutex, a missing entry is created and stored under the caller's key in the same critical section; " +
			"(6) the groups: multi-key operations group keys by calKeyFn(key), sort the groups with a single strict comparison of their shard index on every path, and take per-shard locks in that order. " +
			"NOT decided: deadlock freedom in general (these are the necessary ordering conditions), re-entrancy misuse, fairness.",
		Assumptions: []string{"sync.RWMutex semantics", "multi-key callers pass duplicate-free, consistently ordered lists (as the property states)"},
		Floors:      map[string]int{"C02.guarded-by": 20, "C02.no-block-under-table-lock": 6, "C02.register-before-block": 6, "C02.mode-table": 12, "C02.reclaim": 8, "C02.entry-create": 6, "C02.group-order": 3, "C02.delegation": 8, "C02.index-provenance": 8, "C02.construction": 2},
		Run:         runC02,
	})
}

type klCtx struct {
	c                                      *Ctx
	typ                                    string
	lockMap, locker, rw, readCnt, writeCnt *types.Var
	cfg                                    TraceConfig
}

func runC02(c *Ctx) {
	const rel = "syncx/keylock"
	rw := c.mustField(rel, "wrapLocker", "rwLocker")
	rc := c.mustField(rel, "wrapLocker", "readCount")
	wc := c.mustField(rel, "wrapLocker", "writeCount")
	if rw == nil || rc == nil || wc == nil {
		return
	}
	// the registration counters count every goroutine that holds or waits for the key: a counter narrower than 32
	// bits wraps with a reachable number of goroutines (65536 readers), the entry is then freed while locks are held
	// and the next caller locks a fresh entry beside them
	for _, f := range []*types.Var{rc, wc} {
		b, isB := f.Type().Underlying().(*types.Basic)
		wide := isB && (b.Kind() == types.Int || b.Kind() == types.Int32 || b.Kind() == types.Int64 || b.Kind() == types.Uint || b.Kind() == types.Uint32 || b.Kind() == types.Uint64 || b.Kind() == types.Uintptr)
		c.check(wide, "C02.reclaim", "wrapLocker."+f.Name()+" width", f.Pos(), "counter type "+f.Type().String(), "the registration counter has type "+f.Type().String()+": it wraps once that many goroutines register on one key, the wrapped counter reaches 0 while locks are still held, the entry is freed and a later writer excludes nobody")
	}
	for _, typ := range []string{"KeyLocker", "TKeyLocker"} {
		x := &klCtx{c: c, typ: typ, rw: rw, readCnt: rc, writeCnt: wc}
		x.lockMap = c.mustField(rel, typ, "lockMap")
		x.locker = c.mustField(rel, typ, "locker")
		if x.lockMap == nil || x.locker == nil {
			continue
		}
		// the table itself is never replaced: a fresh map drops the entries of keys that are held (through either
		// the single-key or the multi-key calls), and the next caller for such a key gets a new mutex
		c.check(c.immutableField(x.lockMap), "C02.reclaim", typ+".lockMap replaced", x.lockMap.Pos(), "the table is assigned only at construction", "the lock table is assigned after construction (reset or swapped for a fresh map): entries of keys that are currently held are dropped with it, so a second caller for such a key creates a new entry and enters beside the holder")
		named := c.namedType(rel, typ)
		x.cfg = TraceConfig{Inline: func(callee *ssa.Function, depth int) bool {
			return depth <= 6 && c.fnInModule(callee) && recvNamed(callee) == named.Origin()
		}}
		x.run()
	}
	c.checkGroupOrder()
	// the groups' single-key forms: ls[calKeyFn(key)].<same method>(key) — a group RLock that delegates to Lock, or
	// an Unlock routed by something other than the key, breaks the mode table / exclusion of the sharded lockers
	if numbs := c.mustField("remap", "ReMap", "numbs"); numbs != nil {
		for _, w := range wideContainers {
			if w.rel == rel {
				c.checkWideContainer("C02", w, numbs)
			}
		}
	}
}

func (x *klCtx) rwCall(e *Event) (op string, w *Sym, ok bool) {
	if e.Kind != EvCall || len(e.Args) == 0 || !strings.HasPrefix(e.callName(), "(*sync.RWMutex).") {
		return "", nil, false
	}
	if !e.Args[0].isFieldAddrOf(x.rw) {
		return "", nil, false
	}
	return strings.TrimPrefix(e.callName(), "(*sync.RWMutex)."), e.Args[0].Args[0], true
}

func (x *klCtx) tableHeld(t *Trace, i int) bool {
	for _, h := range t.heldLocks(i) {
		if _, ok := lockIsField(h, x.locker); ok {
			return true
		}
	}
	return false
}

// otherWideLockHeld: a lock other than the table mutex and other than a per-key RWMutex (wrapLocker.rwLocker)
// is held at event i — i.e. some further locker-wide mutex. Returns its address for the report.
func (x *klCtx) otherWideLockHeld(t *Trace, i int) (string, bool) {
	for _, h := range t.heldLocks(i) {
		if _, ok := lockIsField(h, x.locker); ok {
			continue
		}
		if _, ok := lockIsField(h, x.rw); ok {
			continue
		}
		return h.sym.Key(), true
	}
	return "", false
}

func (x *klCtx) run() {
	c := x.c
	const rel = "syncx/keylock"
	tname := rel + "." + x.typ
	methods := c.exportedMethods(rel, x.typ)
	c.checkGuardedBy("C02.guarded-by", methods, []guard{
		{Field: x.lockMap, Mutex: x.locker, SameBase: true, Name: x.typ + ".lockMap"},
		{Field: x.readCnt, Mutex: x.locker, Name: "wrapLocker.readCount(" + x.typ + ")"},
		{Field: x.writeCnt, Mutex: x.locker, Name: "wrapLocker.writeCount(" + x.typ + ")"},
	}, x.cfg, nil)
	// the unexported helpers that the groups call directly are entry points too
	var entries []*ssa.Function
	entries = append(entries, methods...)
	for _, h := range []string{"getWriteLocks", "getReadLocks"} {
		if fn := c.fn(rel, "(*"+x.typ+")."+h); fn != nil {
			entries = append(entries, fn)
		}
	}
	type modeSpec struct {
		counter *types.Var
		delta   int64
		op      string
	}
	modes := map[string]modeSpec{
		"Lock": {x.writeCnt, 1, "Lock"}, "Unlock": {x.writeCnt, -1, "Unlock"}, "RLock": {x.readCnt, 1, "RLock"}, "RUnlock": {x.readCnt, -1, "RUnlock"},
		"Locks": {x.writeCnt, 1, "Lock"}, "Unlocks": {x.writeCnt, -1, "Unlock"}, "RLocks": {x.readCnt, 1, "RLock"}, "RUnlocks": {x.readCnt, -1, "RUnlock"},
		"getWriteLocks": {x.writeCnt, 1, ""}, "getReadLocks": {x.readCnt, 1, ""},
	}
	for _, fn := range entries {
		name := "(*" + tname + ")." + fn.Name()
		traces, complete := c.Trace(fn, x.cfg)
		if !complete {
			c.undecided("C02.paths", name, fn.Pos(), "path budget exceeded")
			continue
		}
		ms, hasMode := modes[fn.Name()]
		okBlock, okReg, okMode, okReclaim, okCreate := true, true, true, true, true
		sawBlock, sawDelete, sawCreate, sawUnlockPath := false, false, false, false
		for _, t := range traces {
			fail := func(ok *bool, rule string, i int, msg string) {
				if *ok {
					*ok = false
					if i < 0 {
						i = len(t.Events) - 1
					}
					c.violated(rule, name, t.Events[i].Pos, msg, c.witness(t, i)...)
				}
			}
			multi := strings.HasSuffix(fn.Name(), "s") && fn.Name() != "Locks"[:0]
			_ = multi
			for i, e := range t.Events {
				op, w, isRW := x.rwCall(e)
				if isRW && (op == "Lock" || op == "RLock") {
					sawBlock = true
					// (2)
					if k, held := x.otherWideLockHeld(t, i); held {
						fail(&okBlock, "C02.no-block-under-table-lock", i, "a locker-wide mutex ("+c.short(k)+") is held while blocking on a key's RWMutex."+op+": while this caller waits for one key, callers that need that mutex for entirely different keys are blocked, and a holder of the awaited key that needs it (an ordered multi-key extension) deadlocks")
					}
					if x.tableHeld(t, i) {
						fail(&okBlock, "C02.no-block-under-table-lock", i, "the table mutex is held while blocking on a key's RWMutex."+op+": while this caller waits for one key, every operation on every other key of this locker is blocked (and the holder's Unlock, which needs the table mutex, deadlocks)")
					}
					// (3) registered before blocking
					cnt := x.writeCnt
					if op == "RLock" {
						cnt = x.readCnt
					}
					reg := false
					for j := 0; j < i; j++ {
						y := t.Events[j]
						if y.Kind == EvStore && y.Addr.isFieldAddrOf(cnt) && y.Addr.Args[0].Key() == w.Key() && isIncBy(y, 1) && x.tableHeld(t, j) {
							reg = true
						}
					}
					if !reg {
						// multi-key form: w was read from the slice filled by the register helper
						if w.Kind == KInit && w.Args[0].Kind == KIndexAddr {
							slice := w.Args[0].Args[0]
							filled := false
							for j := 0; j < i; j++ {
								y := t.Events[j]
								if y.Kind == EvStore && y.Addr.Kind == KIndexAddr && y.Addr.Args[0].Key() == slice.Key() {
									filled = true
								}
							}
							reg = filled
						}
					}
					if !reg {
						fail(&okReg, "C02.register-before-block", i, "a key's RWMutex."+op+" is blocked on before the entry's "+cnt.Name()+" was incremented under the table mutex: the entry can be freed (and replaced by a new one) while this caller waits, so two callers hold different mutexes for one key")
					}
				}
				// (5) reclaim
				if e.Kind == EvMapDelete {
					if _, ok := symFieldBase(e.Addr, x.lockMap); ok {
						sawDelete = true
						facts := t.factsBefore(i)
						// entry looked up for this key
						var w *Sym
						for j := i - 1; j >= 0; j-- {
							y := t.Events[j]
							if y.Kind == EvMapLookup && y.Args[0].Key() == e.Args[0].Key() {
								if _, ok := symFieldBase(y.Addr, x.lockMap); ok {
									w = y.Res
									if w.Kind == KTuple {
										w = w.Args[0]
									}
									break
								}
							}
						}
						if w == nil {
							fail(&okReclaim, "C02.reclaim", i, "an entry is deleted for a key that was not looked up in this critical section")
							continue
						}
						zero := func(f *types.Var) bool {
							cur := curFieldVal(t, f, w, i)
							if cur == nil {
								return false
							}
							if z, isC := cur.intConst(); isC && z == 0 {
								return true
							}
							return hasFact(facts, func(ft Fact) bool {
								z, isz := ft.Y.intConst()
								return ft.X.Key() == cur.Key() && isz && z == 0 && ft.Op == token.EQL
							})
						}
						if !zero(x.readCnt) || !zero(x.writeCnt) {
							fail(&okReclaim, "C02.reclaim", i, "a key's entry is deleted without both readCount == 0 and writeCount == 0 established on the current values: a reader and a writer (or two readers) end up on different mutexes for the same key")
						}
					}
				}
				// entry creation
				if e.Kind == EvMapUpdate {
					if _, ok := symFieldBase(e.Addr, x.lockMap); ok {
						sawCreate = true
						good := e.Val.root().Kind == KAlloc
						missed := false
						for j := i - 1; j >= 0; j-- {
							y := t.Events[j]
							if acq, _, isl := lockOp(y); isl && !acq {
								break
							}
							if y.Kind == EvMapLookup && y.Args[0].Key() == e.Args[0].Key() && y.Res.Kind == KTuple {
								if v, k := boolFact(t.factsBefore(i), y.Res.Args[1]); k && !v {
									missed = true
								}
							}
							// plain lookup found nil: every value this rule lets into the table is a fresh entry, so nil means absent
							if y.Kind == EvMapLookup && y.Args[0].Key() == e.Args[0].Key() && y.Res.Kind != KTuple {
								if hasFact(t.factsBefore(i), func(f Fact) bool { return f.X.Key() == y.Res.Key() && f.Op == token.EQL && f.Y.isNilConst() }) {
									missed = true
								}
							}
						}
						if !good || !missed {
							fail(&okCreate, "C02.entry-create", i, "an entry is stored in the table without a miss for the same key in the same critical section (or it is not a fresh entry): an existing entry with waiters is replaced")
						}
					}
				}
			}
			// (4) mode table, per key handled on this path
			if hasMode && (t.End == EndReturn || t.End == EndCut) {
				for i, e := range t.Events {
					if e.Kind == EvStore && (e.Addr.isFieldAddrOf(x.readCnt) || e.Addr.isFieldAddrOf(x.writeCnt)) && e.Addr.Args[0].root().Kind != KAlloc || (e.Kind == EvStore && (e.Addr.isFieldAddrOf(x.readCnt) || e.Addr.isFieldAddrOf(x.writeCnt)) && isCounterChange(e)) {
						isWanted := e.Addr.isFieldAddrOf(ms.counter) && isIncBy(e, ms.delta)
						if !isWanted {
							fail(&okMode, "C02.mode-table", i, fmt.Sprintf("%s changes %s by something other than %+d: the counters no longer say who holds or waits for the key", fn.Name(), e.Addr.Field.Name(), ms.delta))
						}
						// the entry is the one looked up / created for a caller's key
					}
					if op, _, isRW := x.rwCall(e); isRW && ms.op != "" && op != ms.op {
						fail(&okMode, "C02.mode-table", i, fmt.Sprintf("%s performs RWMutex.%s instead of RWMutex.%s", fn.Name(), op, ms.op))
					}
					if op, _, isRW := x.rwCall(e); isRW && ms.op == "" {
						fail(&okMode, "C02.mode-table", i, fn.Name()+" must only register; it performs RWMutex."+op)
					}
				}
				// single-key forms: exactly one counter change and one rw op on the same entry
				if t.End == EndReturn && !strings.HasSuffix(fn.Name(), "s") {
					var cw, ow *Sym
					nc, no := 0, 0
					for _, e := range t.Events {
						if e.Kind == EvStore && e.Addr.isFieldAddrOf(ms.counter) && isCounterChange(e) {
							nc++
							cw = e.Addr.Args[0]
						}
						if _, w, isRW := x.rwCall(e); isRW {
							no++
							ow = w
						}
					}
					if nc != 1 || no != 1 || cw.Key() != ow.Key() {
						fail(&okMode, "C02.mode-table", -1, fmt.Sprintf("%s does not perform exactly one %s change and one RWMutex.%s on the same entry (counter changes=%d, mutex operations=%d)", fn.Name(), ms.counter.Name(), ms.op, nc, no))
					} else {
						// the entry belongs to the caller's key
						okKey := false
						for _, e := range t.Events {
							if (e.Kind == EvMapLookup || e.Kind == EvMapUpdate) && e.Args[0].strip().Key() == t.Params[1].Key() {
								v := e.Res
								if e.Kind == EvMapUpdate {
									v = e.Val
								} else if v.Kind == KTuple {
									v = v.Args[0]
								}
								if v.Key() == cw.Key() {
									okKey = true
								}
							}
						}
						if !okKey {
							fail(&okMode, "C02.mode-table", -1, fn.Name()+" operates on an entry that is not the table entry of the caller's key")
						}
					}
				}
			}
			// (5b) unlock paths perform the free test before the table mutex is released
			if hasMode && ms.delta == -1 && t.End == EndReturn {
				sawUnlockPath = true
				for i, e := range t.Events {
					if e.Kind == EvStore && e.Addr.isFieldAddrOf(ms.counter) && isIncBy(e, -1) {
						w := e.Addr.Args[0]
						// until the table mutex is released: either a delete for this entry's key or a fact that a counter is non-zero
						decided := false
						facts := t.factsBefore(len(t.Events))
						for j := i + 1; j < len(t.Events); j++ {
							y := t.Events[j]
							if acq, _, isl := lockOp(y); isl && !acq && lockOpOnField(y, x.locker) {
								break
							}
							if y.Kind == EvLoopGen {
								break
							}
							if y.Kind == EvMapDelete {
								decided = true
							}
							if y.Kind == EvLoad && (y.Addr.isFieldAddrOf(x.readCnt) || y.Addr.isFieldAddrOf(x.writeCnt)) && y.Addr.Args[0].Key() == w.Key() {
								r := y.Res
								if hasFact(facts, func(ft Fact) bool {
									z, isz := ft.Y.intConst()
									return ft.X.Key() == r.Key() && isz && z == 0 && ft.Op == token.NEQ
								}) {
									decided = true
								}
							}
						}
						if !decided {
							fail(&okReclaim, "C02.reclaim", i, "after the release the entry is neither deleted nor found still in use before the table mutex is dropped: entries of keys nobody holds accumulate (the locker retains per-key state)")
						}
					}
				}
			}
		}
		if sawBlock {
			if okBlock {
				c.holds("C02.no-block-under-table-lock", name, fn.Pos(), "")
			}
			if okReg {
				c.holds("C02.register-before-block", name, fn.Pos(), "")
			}
		}
		if hasMode && okMode {
			c.holds("C02.mode-table", name, fn.Pos(), "")
		}
		if (sawDelete || sawUnlockPath) && okReclaim {
			c.holds("C02.reclaim", name, fn.Pos(), "")
		}
		if hasMode && ms.delta == -1 && !sawDelete {
			c.violated("C02.reclaim", name, fn.Pos(), fn.Name()+" never deletes an entry: the locker retains per-key state after every lock was released", "")
		}
		if sawCreate && okCreate {
			c.holds("C02.entry-create", name, fn.Pos(), "")
		}
		// (3b) register helpers: the slice returned has one registered entry per key, in key order
		if fn.Name() == "getWriteLocks" || fn.Name() == "getReadLocks" {
			x.checkRegisterHelper(fn, traces, name, ms.counter)
		}
		if fn.Name() == "Locks" || fn.Name() == "RLocks" {
			x.checkLockOrder(fn, traces, name)
		}
	}
}

// counterDelta: the constant by which a store changes the cell (old+d, old-d, or constant folding of both)
func counterDelta(e *Event) (int64, bool) {
	if e.Val.Kind == KBin && (e.Val.Op == token.ADD || e.Val.Op == token.SUB) && e.Old != nil && e.Val.Args[0].Key() == e.Old.Key() {
		v, ok := e.Val.Args[1].intConst()
		if !ok {
			return 0, false
		}
		if e.Val.Op == token.SUB {
			v = -v
		}
		return v, true
	}
	if e.Old != nil {
		if o, ok := e.Old.intConst(); ok {
			if n, ok2 := e.Val.intConst(); ok2 {
				return n - o, true
			}
		}
	}
	return 0, false
}

func isCounterChange(e *Event) bool {
	_, ok := counterDelta(e)
	return ok
}

func isIncBy(e *Event, d int64) bool {
	v, ok := counterDelta(e)
	return ok && v == d
}

// curFieldVal: the current content of &w.f before event i (last load or store), nil if never observed
func curFieldVal(t *Trace, f *types.Var, w *Sym, i int) *Sym {
	for j := i - 1; j >= 0; j-- {
		e := t.Events[j]
		if (e.Kind == EvLoad || e.Kind == EvStore) && e.Addr.isFieldAddrOf(f) && e.Addr.Args[0].Key() == w.Key() {
			if e.Kind == EvStore {
				return e.Val
			}
			return e.Res
		}
		if acq, _, ok := lockOp(e); ok && acq {
			return nil
		}
	}
	return nil
}

func (x *klCtx) checkRegisterHelper(fn *ssa.Function, traces []*Trace, name string, counter *types.Var) {
	c := x.c
	ok, n := true, 0
	for _, t := range traces {
		if t.End != EndReturn {
			continue
		}
		n++
		// the returned slice
		r := t.Ret[0]
		if r.Kind != KAlloc || len(r.Args) != 2 {
			ok = false
			c.violated("C02.register-before-block", name+" slice", fn.Pos(), "the helper does not return a freshly made slice", c.witness(t, len(t.Events)-1)...)
			continue
		}
		lenOK := r.Args[0].Kind == KOp && r.Args[0].Name == "len" && r.Args[0].Args[0].Key() == t.Params[1].Key()
		if !lenOK {
			ok = false
			c.violated("C02.register-before-block", name+" slice", fn.Pos(), "the slice of registered entries does not have one slot per key", c.witness(t, len(t.Events)-1)...)
		}
		for i, e := range t.Events {
			if e.Kind == EvStore && e.Addr.Kind == KIndexAddr && e.Addr.Args[0].Key() == r.Key() {
				w := e.Val
				reg := false
				for j := i - 1; j >= 0; j-- {
					y := t.Events[j]
					if y.Kind == EvLoopGen {
						break
					}
					if y.Kind == EvStore && y.Addr.isFieldAddrOf(counter) && y.Addr.Args[0].Key() == w.Key() && isIncBy(y, 1) && x.tableHeld(t, j) {
						reg = true
					}
				}
				if !reg && ok {
					ok = false
					c.violated("C02.register-before-block", name+" slice", e.Pos, "an entry is handed out for locking without its "+counter.Name()+" having been incremented under the table mutex in the same iteration", c.witness(t, i)...)
				}
				if !x.tableHeld(t, i) {
					// storing into the private slice needs no lock; fine
				}
			}
		}
	}
	if ok && n > 0 {
		c.holds("C02.register-before-block", name+" slice", fn.Pos(), "one registered entry per key, in key order")
	}
}

// checkLockOrder: Locks/RLocks lock the registered entries in slice (= caller's list) order.
func (x *klCtx) checkLockOrder(fn *ssa.Function, traces []*Trace, name string) {
	c := x.c
	ok, n := true, 0
	for _, t := range traces {
		for i, e := range t.Events {
			op, w, isRW := x.rwCall(e)
			if !isRW || (op != "Lock" && op != "RLock") {
				continue
			}
			n++
			// w = *(&slice[idx]) with idx the ascending loop variable (0 in the first iteration)
			good := w.Kind == KInit && w.Args[0].Kind == KIndexAddr
			if good {
				idx := w.Args[0].Args[1]
				if z, isC := idx.intConst(); isC {
					good = z == 0
				} else {
					for idx.Kind == KConv {
						idx = idx.Args[0]
					}
					good = idx.Kind == KFresh && idx.Name == "loop" || (idx.Kind == KBin && idx.Op == token.ADD)
				}
			}
			if !good && ok {
				ok = false
				c.violated("C02.register-before-block", name+" order", e.Pos, "the registered entries are not locked in slice order: two callers with consistently ordered key lists can acquire in opposite orders and deadlock", c.witness(t, i)...)
			}
		}
	}
	if ok && n > 0 {
		c.holds("C02.register-before-block", name+" order", fn.Pos(), "locks taken in list order")
	}
}

// checkGroupOrder: rule 6.
func (c *Ctx) checkGroupOrder() {
	const rel = "syncx/keylock"
	fn := c.mustFn(rel, "(*TKeyLockerGrp).calculateSortedMultiKeys")
	calKey := c.mustField(rel, "TKeyLockerGrp", "calKeyFn")
	idxF := c.mustField(rel, "multiKeyT", "index")
	ls := c.mustField(rel, "TKeyLockerGrp", "ls")
	if fn == nil || calKey == nil || idxF == nil || ls == nil {
		return
	}
	cons := "(*keylock.TKeyLockerGrp).calculateSortedMultiKeys"
	traces, complete := c.Trace(fn, TraceConfig{})
	if !complete {
		c.undecided("C02.group-order", cons, fn.Pos(), "path budget exceeded")
		return
	}
	ok, n := true, 0
	var cmp *ssa.Function
	for _, t := range traces {
		if t.End != EndReturn {
			continue
		}
		n++
		sorted := false
		for i, e := range t.Events {
			if e.Kind == EvCall && e.Callee != nil && (strings.Contains(e.Callee.String(), "slices.SortFunc") || strings.Contains(e.Callee.String(), "sort.Slice") || strings.Contains(e.Callee.String(), "slices.SortStableFunc")) {
				// the sorted slice is the one returned
				// an unstable sort that compares shard indexes only may reorder what compares equal: harmless for the
				// groups (one element per shard), but applied to individual keys it loses the caller's order of the keys
				// of one shard — two callers that list their keys consistently can then take them in opposite orders
				if len(e.Args) >= 1 && !strings.Contains(e.Callee.String(), "Stable") && ok {
					if st := sortedElemStruct(e.Args[0].strip()); st != nil {
						perShard := false
						for fi := 0; fi < st.NumFields(); fi++ {
							if _, isSl := st.Field(fi).Type().Underlying().(*types.Slice); isSl {
								perShard = true
							}
						}
						if !perShard {
							ok = false
							c.violated("C02.group-order", cons, e.Pos, "an unstable sort orders individual keys by their shard index: keys of one shard come out in an arbitrary order (for more than 12 elements), so the per-key locks inside a shard are no longer taken in the caller's list order", c.witness(t, i)...)
						}
					}
				}
				sameSlice := len(e.Args) >= 2 && e.Args[0].strip().root().Key() == t.Ret[0].root().Key()
				if !sameSlice && len(e.Args) >= 2 {
					// the slice variable is captured by the comparator (sort.Slice): it lives in a cell of its own, the value
					// sorted is what was stored there and the value returned is read back from it
					ret, arg := t.Ret[0].strip(), e.Args[0].strip()
					if ret.Kind == KInit && ret.Args[0].Kind == KAlloc {
						cell := ret.Args[0]
						if arg.Kind == KInit && arg.Args[0].Key() == cell.Key() {
							sameSlice = true // the variable itself, read before and after the call
						}
						for _, y := range t.Events {
							if y.Kind == EvStore && y.Addr.Key() == cell.Key() && y.Val.root().Key() == arg.root().Key() {
								sameSlice = true
							}
						}
					}
				}
				if sameSlice {
					sorted = true
					if cl := e.Args[1]; cl.Kind == KClosure || cl.Kind == KFunc {
						cmp = cl.Ref.(*ssa.Function)
					}
				}
				_ = i
			}
			// grouping key = calKeyFn(key)
			if e.Kind == EvMapUpdate && e.Addr.root().Kind == KAlloc {
				k := e.Args[0]
				isIdx := false
				for _, y := range t.Events {
					if y.Kind == EvCall && y.Val != nil && y.Res != nil && y.Res.Key() == k.Key() {
						if _, isCal := isInitOfField(y.Val, calKey); isCal {
							isIdx = true
						}
					}
				}
				if !isIdx && ok {
					ok = false
					c.violated("C02.group-order", cons, e.Pos, "keys are not grouped by calKeyFn(key): a key is locked on a different shard by the multi-key form than by the single-key form", c.witness(t, i)...)
				}
			}
		}
		if !sorted && ok {
			ok = false
			c.violated("C02.group-order", cons, fn.Pos(), "the shard groups are returned without passing through a sort on this path: map iteration order decides the acquisition order, so two multi-key callers can take shards in opposite orders and deadlock", c.witness(t, len(t.Events)-1)...)
		}
	}
	if ok && n > 0 {
		c.holds("C02.group-order", cons, fn.Pos(), fmt.Sprintf("%d paths: grouped by calKeyFn, sorted before return", n))
	}
	// comparator: a single strict comparison of the index fields
	if cmp == nil {
		c.undecided("C02.group-order", "shard comparator", fn.Pos(), "comparator closure not found")
	} else {
		ts, _ := c.Trace(cmp, TraceConfig{})
		good := len(ts) > 0
		for _, t := range ts {
			if t.End != EndReturn || len(t.Ret) != 1 {
				good = false
				continue
			}
			r := t.Ret[0]
			isIdx := func(s *Sym, p *Sym) bool {
				if s.Kind == KField && sameField(s.Field, idxF) && s.Args[0].Key() == p.Key() {
					return true
				}
				// sort.Slice form: the parameters are positions, the operands are ms[a].index and ms[b].index
				if s.Kind == KInit && s.Args[0].isFieldAddrOf(idxF) {
					if el := s.Args[0].Args[0]; el.Kind == KIndexAddr && el.Args[1].Key() == p.Key() {
						return true
					}
				}
				if s.Kind == KField && sameField(s.Field, idxF) && s.Args[0].Kind == KInit && s.Args[0].Args[0].Kind == KIndexAddr && s.Args[0].Args[0].Args[1].Key() == p.Key() {
					return true
				}
				return false
			}
			a, b := t.Params[0], t.Params[1]
			if !(r.Kind == KBin && ((r.Op == token.LSS && isIdx(r.Args[0], a) && isIdx(r.Args[1], b)) || (r.Op == token.GTR && isIdx(r.Args[0], b) && isIdx(r.Args[1], a)))) {
				good = false
			}
		}
		c.check(good, "C02.group-order", "shard comparator", cmp.Pos(), "a.index < b.index", "the comparator used to order shard groups is not a single strict `a.index < b.index`: the order is not a strict weak order on shard index (or is inverted for one of the operations)")
	}
	// the multi-key methods take shards in the sorted order and use ks.index to pick the shard
	for _, m := range []string{"Locks", "RLocks", "Unlocks", "RUnlocks"} {
		mfn := c.mustFn(rel, "(*TKeyLockerGrp)."+m)
		if mfn == nil {
			continue
		}
		mcons := "(*keylock.TKeyLockerGrp)." + m
		inl := func(callee *ssa.Function, depth int) bool { return false }
		ts, _ := c.Trace(mfn, TraceConfig{Inline: inl})
		ok := true
		usedSorted, routed := false, false
		want := map[string]string{"Locks": "getWriteLocks", "RLocks": "getReadLocks", "Unlocks": "Unlocks", "RUnlocks": "RUnlocks"}[m]
		for _, t := range ts {
			var sortedRes *Sym
			for i, e := range t.Events {
				if e.Kind == EvCall && e.Callee != nil && strings.Contains(e.Callee.Name(), "calculateSortedMultiKeys") {
					sortedRes = e.Res
					usedSorted = true
					if len(e.Args) < 2 || e.Args[1].Key() != t.Params[1].Key() {
						ok = false
						c.violated("C02.group-order", mcons, e.Pos, "the groups are not computed from the caller's key list", c.witness(t, i)...)
					}
				}
				if e.Kind == EvCall && e.Method != nil && e.Method.Name() == want && len(e.Args) == 2 {
					routed = true
					// receiver = ls[ks.index], arg = ks.ks with ks = sorted[i]
					recv := e.Args[0]
					good := recv.Kind == KInit && recv.Args[0].Kind == KIndexAddr
					if good {
						_, isLs := isInitOfField(recv.Args[0].Args[0], ls)
						idx := recv.Args[0].Args[1]
						good = isLs && idx.Kind == KField && sameField(idx.Field, idxF)
						if good && sortedRes != nil {
							el := idx.Args[0]
							good = el.Kind == KInit && el.Args[0].Kind == KIndexAddr && el.Args[0].Args[0].Key() == sortedRes.Key()
							ksArg := e.Args[1]
							good = good && ksArg.Kind == KField && ksArg.Args[0].Key() == el.Key()
						}
					}
					if !good && ok {
						ok = false
						c.violated("C02.group-order", mcons, e.Pos, "a shard is not taken as ls[group.index] with that group's keys, in the order of the sorted groups", c.witness(t, i)...)
					}
				}
			}
		}
		// acquisition order: the per-key locks are either all taken while walking the sorted groups, or all
		// collected first and taken afterwards in collected order. A mix (some groups locked on the spot, others
		// deferred) makes the order depend on which keys of the list share a shard: [2 5] is taken 2,5 but
		// [2 5 75] is taken 5,2,75 when 2 and 75 collide, so two consistently ordered lists deadlock.
		if m == "Locks" || m == "RLocks" {
			immediate, deferredAcq := "", false
			for _, t := range ts {
				for _, e := range t.Events {
					if e.Kind != EvCall {
						continue
					}
					switch n := e.callName(); {
					case n == "(*sync.RWMutex).Lock" || n == "(*sync.RWMutex).RLock":
						deferredAcq = true
					case c.fnInModule(e.Callee) && c.acquiresKeyLock(e.Callee, 0):
						immediate = c.fname(e.Callee)
					}
				}
			}
			if immediate != "" && deferredAcq && ok {
				ok = false
				c.violated("C02.group-order", mcons, mfn.Pos(), "some shard groups are locked on the spot (through "+immediate+") while others are collected and locked afterwards: the acquisition order is no longer (shard index, list position) but depends on which keys of the list share a shard, so two callers with consistently ordered lists can take two keys in opposite orders and deadlock", "")
			}
		}
		// every registered entry is locked: entries gathered with the builtin copy into a fixed-size buffer are cut
		// off silently when there are more of them than slots, unless the path bounds the key list by that size
		if m == "Locks" || m == "RLocks" {
			for _, t := range ts {
				for i, e := range t.Events {
					if e.Kind != EvCall || e.Val == nil || e.Val.Name != "builtin:copy" || len(e.Args) != 2 || !ok {
						continue
					}
					dst := e.Args[0].root()
					if dst == nil || dst.Kind != KAlloc || dst.Typ == nil {
						continue
					}
					pt, isP := dst.Typ.Underlying().(*types.Pointer)
					if !isP {
						continue
					}
					arr, isA := pt.Elem().Underlying().(*types.Array)
					if !isA {
						continue
					}
					if _, isEntry := arr.Elem().(*types.Pointer); !isEntry {
						continue
					}
					lenKeys := "len(" + t.Params[1].Key() + ")"
					bounded := hasFact(t.factsBefore(i), func(f Fact) bool {
						if f.X.Key() != lenKeys {
							return false
						}
						v, isC := f.Y.intConst()
						return isC && ((f.Op == token.LEQ && v <= arr.Len()) || (f.Op == token.LSS && v <= arr.Len()+1))
					})
					if !bounded {
						ok = false
						c.violated("C02.group-order", mcons, e.Pos, fmt.Sprintf("the registered entries are gathered with copy into a buffer of %d slots without the key list being bounded by that size on this path: copy truncates silently, the keys beyond it are registered but never locked (and a later unlock of the list hits an unlocked mutex)", arr.Len()), c.witness(t, i)...)
					}
				}
			}
		}
		if !usedSorted || !routed {
			c.violated("C02.group-order", mcons, mfn.Pos(), "the multi-key operation does not go through the sorted shard groups", "")
		} else if ok {
			c.holds("C02.group-order", mcons, mfn.Pos(), "")
		}
	}
}

// acquiresKeyLock: fn (or a module function it calls, to depth 3) blocks on a per-key sync.RWMutex.
func (c *Ctx) acquiresKeyLock(fn *ssa.Function, depth int) bool {
	if fn == nil || fn.Blocks == nil || depth > 3 {
		return false
	}
	for _, b := range fn.Blocks {
		for _, in := range b.Instrs {
			call, ok := in.(ssa.CallInstruction)
			if !ok {
				continue
			}
			if _, isGo := in.(*ssa.Go); isGo {
				continue
			}
			callee := call.Common().StaticCallee()
			if callee == nil {
				continue
			}
			switch callee.String() {
			case "(*sync.RWMutex).Lock", "(*sync.RWMutex).RLock":
				return true
			}
			if c.fnInModule(callee) && c.acquiresKeyLock(callee, depth+1) {
				return true
			}
		}
	}
	return false
}

// sortedElemStruct: the struct type of the elements of a slice value handed to a sort (nil if not a slice of structs).
func sortedElemStruct(v *Sym) *types.Struct {
	if v == nil || v.Typ == nil {
		return nil
	}
	t := v.Typ
	if p, ok := t.Underlying().(*types.Pointer); ok {
		t = p.Elem()
	}
	sl, ok := t.Underlying().(*types.Slice)
	if !ok {
		return nil
	}
	st, _ := sl.Elem().Underlying().(*types.Struct)
	return st
}
