package main

import (
	"fmt"
	"go/token"
	"go/types"
	"math/big"
	"strings"

	"golang.org/x/tools/go/ssa"
)

func (c *Ctx) checkGuardedByIn(rule, label string, entries []*ssa.Function, table []guard, cfg TraceConfig) {
	c.checkGuardedBy(rule, entries, table, cfg, nil)
}

func (c *Ctx) exportedMethods(rel, typ string) []*ssa.Function {
	named := c.namedType(rel, typ)
	if named == nil {
		return nil
	}
	var out []*ssa.Function
	for i := 0; i < named.NumMethods(); i++ {
		m := named.Method(i)
		if !m.Exported() {
			continue
		}
		if fn := c.Prog.FuncValue(m); fn != nil && len(fn.Blocks) > 0 {
			out = append(out, fn)
		}
	}
	// methods promoted from embedded module types are entry points of this type too (a sync.Mutex embedded for
	// its Lock/Unlock is not): the wrapper that the compiler generates is analysed like a declared method
	have := map[string]bool{}
	for _, f := range out {
		have[f.Name()] = true
	}
	ms := types.NewMethodSet(types.NewPointer(named))
	for i := 0; i < ms.Len(); i++ {
		sel := ms.At(i)
		m, isF := sel.Obj().(*types.Func)
		if !isF || !m.Exported() || have[m.Name()] || len(sel.Index()) < 2 || m.Pkg() == nil || !c.inModule(m.Pkg()) {
			continue
		}
		if fn := c.Prog.MethodValue(sel); fn != nil && len(fn.Blocks) > 0 {
			out = append(out, fn)
		}
	}
	return out
}

// ---------------------------------------------------------------------------------------------
// queue/syncq.SyncQueue (eapache/queue ring buffer + mutex + cond)

func runSyncQ(c *Ctx, prop string) {
	const rel, typ = "queue/syncq", "SyncQueue"
	lock := c.mustField(rel, typ, "lock")
	popable := c.mustField(rel, typ, "popable")
	buffer := c.mustField(rel, typ, "buffer")
	closed := c.mustField(rel, typ, "closed")
	if lock == nil || popable == nil || buffer == nil || closed == nil {
		return
	}
	tname := rel + "." + typ
	methods := c.exportedMethods(rel, typ)
	if prop == "C12" {
		c.checkGuardedBy("C12.guarded-by", methods, []guard{
			{Field: buffer, Mutex: lock, SameBase: true, Name: "SyncQueue.buffer"},
			{Field: closed, Mutex: lock, SameBase: true, Name: "SyncQueue.closed"},
		}, TraceConfig{}, nil)
	}
	isBuf := func(s *Sym) bool { _, ok := isInitOfField(s, buffer); return ok }
	bufCall := func(e *Event, m string) bool {
		return e.Kind == EvCall && e.callName() == "(*github.com/eapache/queue.Queue)."+m && len(e.Args) > 0 && isBuf(e.Args[0])
	}
	condCall := func(e *Event, m string) bool {
		if e.Kind != EvCall || e.callName() != "(*sync.Cond)."+m || len(e.Args) == 0 {
			return false
		}
		_, ok := isInitOfField(e.Args[0], popable)
		return ok
	}
	// knowledge at event i: closed value, buffer emptiness (since last lock/wait/mutation)
	know := func(t *Trace, i int) (closedKnown, closedV, emptyKnown, empty bool) {
		facts := t.factsBefore(i)
		for j := i - 1; j >= 0; j-- {
			e := t.Events[j]
			if acq, _, ok := lockOp(e); ok && acq {
				break
			}
			if condCall(e, "Wait") {
				break
			}
			if bufCall(e, "Add") || bufCall(e, "Remove") {
				break
			}
			if e.Kind == EvLoad && e.Addr.isFieldAddrOf(closed) && !closedKnown {
				if v, ok := boolFact(facts, e.Res); ok {
					closedKnown, closedV = true, v
				}
			}
			if bufCall(e, "Length") && !emptyKnown {
				for _, f := range facts {
					if f.X.Key() != e.Res.Key() {
						continue
					}
					if z, isz := f.Y.intConst(); isz && z == 0 {
						switch f.Op {
						case token.EQL, token.LEQ:
							emptyKnown, empty = true, true
						case token.GTR, token.NEQ:
							emptyKnown, empty = true, false
						}
					}
				}
			}
		}
		return
	}
	for _, fn := range methods {
		name := "(*" + tname + ")." + fn.Name()
		traces, complete := c.Trace(fn, TraceConfig{})
		if !complete {
			c.undecided(prop+".paths", name, fn.Pos(), "path budget exceeded")
			continue
		}
		if prop == "C13" {
			c.holds("C13.lock-released", name, fn.Pos(), "checked on every returning path")
		}
		for _, t := range traces {
			if prop == "C13" && t.End == EndReturn {
				for _, h := range t.heldLocks(len(t.Events)) {
					if _, is := lockIsField(h, lock); is {
						c.violated("C13.lock-released", name, fn.Pos(), "a path returns while still holding the queue mutex: woken consumers can never re-acquire it and every later call blocks", c.witness(t, len(t.Events)-1)...)
					}
				}
			}
			for i, e := range t.Events {
				if prop == "C12" {
					if bufCall(e, "Add") {
						ck, cv, _, _ := know(t, i)
						good := ck && !cv && len(e.Args) > 1 && e.Args[1].strip().Key() == t.Params[1].Key()
						c.check(good, "C12.syncq", name+" adds", e.Pos, "", "an item is added without `closed == false` observed under the lock (a closed sync queue must drop adds), or it is not the caller's item", c.witness(t, i)...)
					}
					if bufCall(e, "Remove") {
						// the value handed out is Peek() of the same critical section, buffer non-empty
						_, _, ek, em := know(t, i)
						peekOK := false
						var peek *Sym
						for j := i - 1; j >= 0; j-- {
							if bufCall(t.Events[j], "Peek") {
								peek = t.Events[j].Res
								peekOK = true
								break
							}
							if acq, _, ok := lockOp(t.Events[j]); ok && acq {
								break
							}
						}
						// the queue's Remove() itself returns the element it removed from the head
						if !peekOK && e.Res != nil && t.End == EndReturn && len(t.Ret) >= 1 && t.Ret[0].Key() == e.Res.Key() {
							peek, peekOK = e.Res, true
						}
						good := ek && !em && peekOK
						if good && t.End == EndReturn && len(t.Ret) >= 1 && t.Ret[0].Key() != peek.Key() {
							good = false
						}
						c.check(good, "C12.syncq", name+" removes", e.Pos, "", "an item is removed without `Length() > 0`, or the value returned is not Peek() (the oldest item) of the same critical section", c.witness(t, i)...)
					}
					if e.Kind == EvStore && e.Addr.isFieldAddrOf(closed) && e.Addr.Args[0].root().Kind != KAlloc {
						v, ok := e.Val.boolConst()
						c.check(ok && v, "C12.close-state", name+" sets closed", e.Pos, "", "closed is assigned something other than true", c.witness(t, i)...)
					}
				} else {
					if bufCall(e, "Add") || (e.Kind == EvStore && e.Addr.isFieldAddrOf(closed) && e.Addr.Args[0].root().Kind != KAlloc) {
						sig, bc := false, false
						for j := i + 1; j < len(t.Events); j++ {
							if condCall(t.Events[j], "Signal") {
								sig = true
							}
							if condCall(t.Events[j], "Broadcast") {
								bc = true
							}
						}
						if bufCall(e, "Add") {
							c.check(sig || bc, "C13.wake-on-add", name, e.Pos, "", "an item is added but no waiter is woken before returning", c.witness(t, len(t.Events)-1)...)
						} else {
							c.check(bc, "C13.wake-on-close", name, e.Pos, "", "closed is set with Signal instead of Broadcast (or no wake-up at all): of k >= 2 consumers blocked in Pop only one returns, the others sleep forever beside a closed queue", c.witness(t, len(t.Events)-1)...)
						}
					}
					if condCall(e, "Wait") {
						held := false
						for _, h := range t.heldLocks(i) {
							if _, ok := lockIsField(h, lock); ok {
								held = true
							}
						}
						ck, cv, ek, em := know(t, i)
						pred := held && ck && !cv && ek && em
						c.check(pred, "C13.wait-loop", name, e.Pos, "", "the consumer waits without holding the mutex or without having just found `buffer empty AND open`", c.witness(t, i)...)
						// re-test after waking: the first use of the buffer after the Wait needs `buffer not empty`
						// established by a Length() reading taken after the Wait; a path that does not use the buffer
						// any more is judged by the closed-answer rule below (or is cut at the loop head)
						retested := true
						for j := i + 1; j < len(t.Events); j++ {
							x := t.Events[j]
							if condCall(x, "Wait") {
								break
							}
							if bufCall(x, "Peek") || bufCall(x, "Remove") {
								_, _, ek, em := know(t, j)
								retested = ek && !em
								break
							}
						}
						c.check(retested, "C13.wait-loop", name+" re-test", e.Pos, "", "after Cond.Wait the predicate is not re-evaluated before the buffer is used", c.witness(t, i)...)
					}
				}
			}
			// Pop/TryPop hand out a remaining item regardless of closed: a path that returns without removing must know the buffer is empty
			if prop == "C12" && t.End == EndReturn && (fn.Name() == "Pop" || fn.Name() == "TryPop") {
				removed := false
				for _, e := range t.Events {
					if bufCall(e, "Remove") {
						removed = true
					}
				}
				if !removed {
					_, _, ek, em := know(t, len(t.Events))
					// the emptiness fact may precede the unlock: look from the unlock
					for i := len(t.Events) - 1; i >= 0 && !(ek && em); i-- {
						if acq, _, ok := lockOp(t.Events[i]); ok && !acq {
							_, _, ek, em = know(t, i)
							break
						}
					}
					c.check(ek && em, "C12.syncq", name+" empty result", fn.Pos(), "", fn.Name()+" returns without an item although the buffer was not found empty (items must be handed out even after close)", c.witness(t, len(t.Events)-1)...)
				}
			}
			// the blocking Pop answers "nothing" (its closed answer) only after observing closed == true since it last
			// held the lock continuously (after the last Wait): an `if` around Wait lets a woken consumer that lost the
			// race for the item report a closed queue that is open
			if t.End == EndReturn && fn.Name() == "Pop" {
				removed := false
				for _, e := range t.Events {
					if bufCall(e, "Remove") {
						removed = true
					}
				}
				// Length() is pure: two readings with no Add/Remove/Wait/lock acquisition between them agree
				infeasible := false
				if !removed {
					facts := t.factsBefore(len(t.Events))
					sign := func(r *Sym) int { // +1: non-zero, -1: zero, 0: unknown
						for _, f := range facts {
							if f.X.Key() != r.Key() {
								continue
							}
							if z, isz := f.Y.intConst(); isz && z == 0 {
								switch f.Op {
								case token.EQL, token.LEQ:
									return -1
								case token.GTR, token.NEQ:
									return 1
								}
							}
						}
						return 0
					}
					prev := 0
					for _, e := range t.Events {
						if acq, _, ok := lockOp(e); (ok && acq) || condCall(e, "Wait") || bufCall(e, "Add") || bufCall(e, "Remove") {
							prev = 0
						}
						if bufCall(e, "Length") {
							sg := sign(e.Res)
							if prev != 0 && sg != 0 && sg != prev {
								infeasible = true
							}
							if sg != 0 {
								prev = sg
							}
						}
					}
				}
				if !removed && !infeasible {
					ck, cv := false, false
					for i := len(t.Events) - 1; i >= 0; i-- {
						if acq, _, ok := lockOp(t.Events[i]); ok && !acq {
							ck, cv, _, _ = know(t, i)
							break
						}
					}
					rule := "C12.syncq"
					if prop == "C13" {
						rule = "C13.wait-loop"
					}
					c.check(ck && cv, rule, name+" closed answer", fn.Pos(), "", "the blocking Pop returns without an item on a path that has not observed closed == true since it last (re)acquired the lock: after a wake-up whose item another consumer took, it reports `closed` for an open queue instead of waiting again (wait loop written as `if`)", c.witness(t, len(t.Events)-1)...)
				}
			}
		}
	}
	if prop == "C12" {
		if fn := c.mustFn(rel, "(*SyncQueue).Len"); fn != nil {
			traces, _ := c.Trace(fn, TraceConfig{})
			ok := len(traces) > 0
			for _, t := range traces {
				good := false
				for _, e := range t.Events {
					if bufCall(e, "Length") && t.End == EndReturn && t.Ret[0].Key() == e.Res.Key() {
						good = true
					}
				}
				if !good {
					ok = false
				}
			}
			c.check(ok, "C12.syncq", "(*"+tname+").Len", fn.Pos(), "buffer.Length()", "Len does not report the buffer's length")
		}
	}
	if prop == "C13" {
		// popable = sync.NewCond(&ch.lock)
		ok := false
		if fn := c.mustFn(rel, "NewSyncQueue"); fn != nil {
			traces, _ := c.Trace(fn, TraceConfig{})
			for _, t := range traces {
				for _, e := range t.Events {
					if e.Kind == EvStore && e.Addr.isFieldAddrOf(popable) {
						for _, x := range t.Events {
							if x.Kind == EvCall && x.callName() == "sync.NewCond" && x.Res.Key() == e.Val.Key() && len(x.Args) == 1 {
								a := x.Args[0].strip()
								if a.isFieldAddrOf(lock) && a.Args[0].Key() == e.Addr.Args[0].Key() {
									ok = true
								}
							}
						}
					}
				}
			}
		}
		c.check(ok, "C13.cond-binding", tname, popable.Pos(), "popable = sync.NewCond(&lock) of the same object", "the condition variable is not created on the queue's own mutex")
	}
}

// ---------------------------------------------------------------------------------------------
// queue/priq.PriQueue

func runPriQ(c *Ctx, prop string) {
	const rel, typ = "queue/priq", "PriQueue"
	mu := c.mustField(rel, typ, "mu")
	entries := c.mustField(rel, typ, "entries")
	capacity := c.mustField(rel, typ, "capacity")
	signal := c.mustField(rel, typ, "signal")
	curSeq := c.mustField(rel, typ, "curSeq")
	seq := c.mustField(rel, "wrapEntry", "seq")
	entry := c.mustField(rel, "wrapEntry", "entry")
	if mu == nil || entries == nil || capacity == nil || signal == nil || curSeq == nil || seq == nil || entry == nil {
		return
	}
	tname := rel + "." + typ
	methods := c.exportedMethods(rel, typ)
	noInlineHeap := func(callee *ssa.Function, depth int) bool {
		// the heap callbacks stay opaque (container/heap drives them); EntryList.Len is just len(entries)
		return depth <= 6 && c.fnInModule(callee) && (recvNamedName(callee) != "EntryList" || callee.Name() == "Len")
	}
	cfg := TraceConfig{Inline: noInlineHeap}
	if prop == "C12" {
		c.checkGuardedBy("C12.guarded-by", methods, []guard{
			{Field: entries, Mutex: mu, SameBase: true, Name: "PriQueue.entries"},
			{Field: curSeq, Mutex: mu, SameBase: true, Name: "PriQueue.curSeq"},
		}, cfg, nil)
		c.check(c.immutableField(capacity), "C12.priq", "PriQueue.capacity immutable", capacity.Pos(), "", "capacity is written after construction")
		checkPriLess(c, rel, seq, entry)
		checkPriHeapIface(c, rel)
	}
	isEntriesAddr := func(s *Sym) bool { return s.strip().isFieldAddrOf(entries) }
	if prop == "C12" {
		if fn := c.mustFn(rel, "(*PriQueue).Len"); fn != nil {
			traces, _ := c.Trace(fn, cfg)
			ok := len(traces) > 0
			for _, t := range traces {
				r := t.Ret[0]
				good := r.Kind == KOp && r.Name == "len"
				if good {
					_, isE := isInitOfField(r.Args[0], entries)
					good = isE
				}
				if !good {
					ok = false
				}
			}
			c.check(ok, "C12.priq", "(*"+tname+").Len", fn.Pos(), "len(entries)", "Len does not report the number of queued entries")
		}
	}
	for _, fn := range methods {
		name := "(*" + tname + ")." + fn.Name()
		traces, complete := c.Trace(fn, cfg)
		if !complete {
			c.undecided(prop+".paths", name, fn.Pos(), "path budget exceeded")
			continue
		}
		if prop == "C13" {
			c.holds("C13.lock-released", name, fn.Pos(), "checked on every returning path")
		}
		for _, t := range traces {
			if prop == "C13" && t.End == EndReturn {
				for _, h := range t.heldLocks(len(t.Events)) {
					if _, is := lockIsField(h, mu); is {
						c.violated("C13.lock-released", name, fn.Pos(), "a path returns while still holding the queue mutex: every later Push/Pop blocks", c.witness(t, len(t.Events)-1)...)
					}
				}
			}
			for i, e := range t.Events {
				// any write to entries other than through container/heap
				if prop == "C12" {
					if e.Kind == EvStore {
						if _, ok := symFieldBase(e.Addr, entries); ok && e.Addr.root().Kind != KAlloc {
							c.violated("C12.priq", name+" writes entries", e.Pos, "PriQueue.entries is modified directly instead of through container/heap: the heap order (priority, then arrival) is not maintained", c.witness(t, i)...)
						}
					}
					if e.Kind == EvCall && e.callName() == "container/heap.Push" && len(e.Args) == 2 && isEntriesAddr(e.Args[0]) {
						facts := t.factsBefore(i)
						// len(entries) < capacity established in this critical section
						capOK := false
						for j := i - 1; j >= 0; j-- {
							x := t.Events[j]
							if acq, _, ok := lockOp(x); ok && acq {
								break
							}
							if x.Kind == EvLoad && x.Addr.isFieldAddrOf(entries) {
								lenSym := &Sym{Kind: KOp, Name: "len", Args: []*Sym{x.Res}}
								if hasFact(facts, func(f Fact) bool {
									_, isCap := isInitOfField(f.Y, capacity)
									return f.X.Key() == lenSym.Key() && f.Op == token.LSS && isCap
								}) {
									capOK = true
								}
								// any spelling of the same inequality: capacity - len - 1 >= 0
								if capSym := t.initOfField(capacity); capSym != nil && factsImplyGE0(facts, lf(capSym).add(lf(lenSym), -1).add(lfConst(1), -1)) {
									capOK = true
								}
							}
						}
						// the pushed wrapEntry: entry = caller's item, seq = curSeq just incremented under the lock
						w := e.Args[1].strip()
						var seqVal, entVal *Sym
						var seqStoreIdx = -1
						for j := 0; j < i; j++ {
							x := t.Events[j]
							if x.Kind == EvStore && x.Addr.isFieldAddrOf(seq) && x.Addr.Args[0].Key() == w.Key() {
								seqVal = x.Val
							}
							if x.Kind == EvStore && x.Addr.isFieldAddrOf(entry) && x.Addr.Args[0].Key() == w.Key() {
								entVal = x.Val
							}
							if x.Kind == EvStore && x.Addr.isFieldAddrOf(curSeq) {
								seqStoreIdx = j
							}
						}
						seqOK := false
						if seqVal != nil && seqStoreIdx >= 0 {
							st := t.Events[seqStoreIdx]
							inc := st.Val.Kind == KBin && st.Val.Op == token.ADD && st.Val.Args[0].Key() == st.Old.Key()
							if inc {
								one, isOne := st.Val.Args[1].intConst()
								inc = isOne && one == 1
							}
							// no unlock between the increment and the push
							same := true
							for j := seqStoreIdx; j < i; j++ {
								if acq, _, ok := lockOp(t.Events[j]); ok && !acq {
									same = false
								}
							}
							seqOK = inc && same && seqVal.Key() == st.Val.Key()
						}
						entOK := entVal != nil && entVal.strip().Key() == t.Params[1].Key()
						c.check(capOK, "C12.priq", name+" capacity", e.Pos, "", "an entry is pushed without `len(entries) < capacity` established under the lock: the queue exceeds its capacity", c.witness(t, i)...)
						c.check(seqOK, "C12.priq", name+" sequence", e.Pos, "", "the pushed entry does not carry the sequence number incremented under the same lock immediately before the push: equal priorities are no longer first-in-first-out", c.witness(t, i)...)
						c.check(entOK, "C12.priq", name+" item", e.Pos, "", "the pushed entry does not wrap the caller's item", c.witness(t, i)...)
					}
					if e.Kind == EvCall && e.callName() == "container/heap.Pop" && len(e.Args) == 1 && isEntriesAddr(e.Args[0]) {
						// non-empty established; returned value is the popped wrapEntry's entry
						facts := t.factsBefore(i)
						nonEmpty := false
						for j := i - 1; j >= 0; j-- {
							x := t.Events[j]
							if acq, _, ok := lockOp(x); ok && acq {
								break
							}
							if x.Kind == EvLoad && x.Addr.isFieldAddrOf(entries) {
								lenSym := &Sym{Kind: KOp, Name: "len", Args: []*Sym{x.Res}}
								if hasFact(facts, func(f Fact) bool {
									z, isz := f.Y.intConst()
									return f.X.Key() == lenSym.Key() && isz && ((f.Op == token.NEQ && z == 0) || (f.Op == token.GTR && z == 0))
								}) {
									nonEmpty = true
								}
								// any spelling of the same inequality: len - 1 >= 0
								if pos, _ := factsSign(facts, lf(lenSym)); pos {
									nonEmpty = true
								}
							}
						}
						c.check(nonEmpty, "C12.priq", name+" pop guard", e.Pos, "", "heap.Pop without `len(entries) != 0` established under the lock", c.witness(t, i)...)
						if t.End == EndReturn && len(t.Ret) == 1 {
							r := t.Ret[0]
							good := r.Kind == KInit && r.Args[0].isFieldAddrOf(entry) && r.Args[0].Args[0].Kind == KOp && r.Args[0].Args[0].Name == "typeassert" && r.Args[0].Args[0].Args[0].Key() == e.Res.Key()
							c.check(good, "C12.priq", name+" result", e.Pos, "", "Pop does not return the item of the entry taken from the heap", c.witness(t, len(t.Events)-1)...)
						}
					}
				}
			}
			if prop == "C13" {
				checkPriSignal(c, t, name, fn.Name(), signal, entries)
			}
		}
	}
	if prop == "C13" {
		// channel capacity: constant >= 1 in the constructor
		if fn := c.mustFn(rel, "NewPriQueue"); fn != nil {
			traces, _ := c.Trace(fn, TraceConfig{})
			ok, found := true, false
			for _, t := range traces {
				for _, e := range t.Events {
					if e.Kind == EvStore && e.Addr.isFieldAddrOf(signal) {
						found = true
						v := e.Val
						good := false
						if v.Kind == KAlloc && len(v.Args) == 1 {
							if n, isC := v.Args[0].intConst(); isC && n >= 1 {
								good = true
							}
						}
						if !good {
							ok = false
						}
					}
				}
			}
			c.check(ok && found, "C13.priq-signal", "signal channel capacity", fn.Pos(), "make(chan struct{}, const >= 1)", "the wait channel is not created with a constant capacity >= 1: a signal sent while nobody receives is lost and a consumer that selects afterwards sleeps beside a non-empty queue")
		}
	}
}

func recvNamedName(f *ssa.Function) string {
	if n := recvNamed(f); n != nil {
		return n.Obj().Name()
	}
	return ""
}

// checkPriSignal: C13.3
func checkPriSignal(c *Ctx, t *Trace, name, method string, signal, entries *types.Var) {
	if t.End != EndReturn {
		return
	}
	isSig := func(s *Sym) bool { _, ok := isInitOfField(s, signal); return ok }
	// blocking sends on the signal channel are forbidden
	for i, e := range t.Events {
		if e.Kind == EvSend && isSig(e.Addr) {
			c.violated("C13.priq-signal", name+" blocking send", e.Pos, "a blocking send on the wait channel: Push/Pop block when a signal is already pending", c.witness(t, i)...)
		}
		if e.Kind == EvSelect && e.Addr != nil && isSig(e.Addr) {
			if sel, ok := e.Instr.(*ssa.Select); ok && sel.Blocking {
				c.violated("C13.priq-signal", name+" blocking send", e.Pos, "the send on the wait channel is not guarded by a default case", c.witness(t, i)...)
			}
		}
	}
	attempted := func(from int) bool {
		for j := from; j < len(t.Events); j++ {
			e := t.Events[j]
			if e.Kind == EvSelect {
				if sel, ok := e.Instr.(*ssa.Select); ok && !sel.Blocking {
					for _, st := range sel.States {
						_ = st
					}
					// a non-blocking select whose (only) case sends on the signal channel; on the default path Addr is nil
					if e.Addr != nil && isSig(e.Addr) {
						return true
					}
					if e.Case == -1 && len(sel.States) == 1 && sel.States[0].Dir == types.SendOnly {
						return true
					}
				}
			}
		}
		return false
	}
	switch method {
	case "Push":
		for i, e := range t.Events {
			if e.Kind == EvCall && e.callName() == "container/heap.Push" {
				c.check(attempted(i+1), "C13.priq-signal", name+" signals after push", e.Pos, "", "a successful Push path does not try to signal the wait channel after the item is in the heap", c.witness(t, len(t.Events)-1)...)
			}
		}
	case "Pop":
		for i, e := range t.Events {
			if e.Kind == EvCall && e.callName() == "container/heap.Pop" {
				// the decision to re-signal: len(entries) > 0 computed under the lock after the removal
				facts := t.factsBefore(len(t.Events))
				var lenAfter, lenBefore *Sym
				for j := i + 1; j < len(t.Events); j++ {
					x := t.Events[j]
					if acq, _, ok := lockOp(x); ok && !acq {
						break
					}
					if x.Kind == EvLoad && x.Addr.isFieldAddrOf(entries) {
						lenAfter = &Sym{Kind: KOp, Name: "len", Args: []*Sym{x.Res}}
					}
				}
				for j := i - 1; j >= 0; j-- {
					x := t.Events[j]
					if acq, _, ok := lockOp(x); ok && acq {
						break
					}
					if x.Kind == EvLoad && x.Addr.isFieldAddrOf(entries) {
						lenBefore = &Sym{Kind: KOp, Name: "len", Args: []*Sym{x.Res}}
						break
					}
				}
				// heap.Pop removes exactly one entry: the length read before it in the same critical section, less one,
				// is the remaining length as well
				if lenBefore != nil {
					rem := lf(lenBefore).add(lfConst(1), -1)
					pos, zero := factsSign(facts, rem)
					if lenAfter != nil {
						p2, z2 := factsSign(facts, lf(lenAfter))
						pos, zero = pos || p2, zero || z2
					}
					if pos || zero {
						if pos {
							c.check(attempted(i+1), "C13.priq-signal", name+" re-signal", e.Pos, "", "items remain after Pop but the wait channel is not re-armed: the next consumer selecting on it sleeps beside a non-empty queue", c.witness(t, len(t.Events)-1)...)
						} else {
							c.holds("C13.priq-signal", name+" re-signal", e.Pos, "")
						}
						continue
					}
				}
				if lenAfter == nil {
					c.violated("C13.priq-signal", name+" re-signal", e.Pos, "Pop does not look at the remaining length under the lock after removing: it cannot know whether to re-arm the wait channel", c.witness(t, len(t.Events)-1)...)
					continue
				}
				remains := hasFact(facts, func(f Fact) bool {
					z, isz := f.Y.intConst()
					return f.X.Key() == lenAfter.Key() && isz && z == 0 && f.Op == token.GTR
				})
				empty := hasFact(facts, func(f Fact) bool {
					z, isz := f.Y.intConst()
					return f.X.Key() == lenAfter.Key() && isz && z == 0 && f.Op == token.LEQ
				})
				switch {
				case remains:
					c.check(attempted(i+1), "C13.priq-signal", name+" re-signal", e.Pos, "", "items remain after Pop but the wait channel is not re-armed: the next consumer selecting on it sleeps beside a non-empty queue", c.witness(t, len(t.Events)-1)...)
				case empty:
					c.holds("C13.priq-signal", name+" re-signal", e.Pos, "")
				default:
					c.check(attempted(i+1), "C13.priq-signal", name+" re-signal", e.Pos, "", "Pop neither tests the remaining length nor re-arms the wait channel", c.witness(t, len(t.Events)-1)...)
				}
			}
		}
	}
}

// checkPriLess: Less(i,j) is lexicographic: priority descending, then sequence ascending.
func checkPriLess(c *Ctx, rel string, seq, entry *types.Var) {
	fn := c.mustFn(rel, "EntryList.Less")
	if fn == nil {
		return
	}
	traces, complete := c.Trace(fn, TraceConfig{})
	if !complete {
		c.undecided("C12.priq", "EntryList.Less", fn.Pos(), "path budget exceeded")
		return
	}
	ok := true
	n := 0
	for _, t := range traces {
		if t.End != EndReturn || len(t.Ret) != 1 {
			continue
		}
		n++
		// identify pi, pj: results of GetPriority on e[i].entry / e[j].entry; si, sj: seq loads
		var pi, pj, si, sj *Sym
		ptrIdx := map[string]*Sym{} // pointer loaded from e[idx] -> idx
		for _, e := range t.Events {
			if e.Kind == EvLoad && e.Addr.Kind == KIndexAddr {
				ptrIdx[e.Res.Key()] = e.Addr.Args[1]
			}
		}
		elemIndexOfAddr := func(p *Sym) *Sym { return ptrIdx[p.Key()] }
		elemIndexOf := func(s *Sym, field *types.Var) *Sym {
			s = s.strip()
			for _, e := range t.Events {
				if e.Kind == EvLoad && e.Addr.isFieldAddrOf(field) && e.Res.Key() == s.Key() {
					return ptrIdx[e.Addr.Args[0].Key()]
				}
			}
			return nil
		}
		for _, e := range t.Events {
			if e.Kind == EvCall && e.Method != nil && e.Method.Name() == "GetPriority" && len(e.Args) == 1 {
				if idx := elemIndexOf(e.Args[0], entry); idx != nil {
					if idx.Key() == t.Params[1].Key() {
						pi = e.Res
					} else if idx.Key() == t.Params[2].Key() {
						pj = e.Res
					}
				}
			}
			if e.Kind == EvLoad && e.Addr.isFieldAddrOf(seq) {
				if idx := elemIndexOfAddr(e.Addr.Args[0]); idx != nil {
					if idx.Key() == t.Params[1].Key() {
						si = e.Res
					} else if idx.Key() == t.Params[2].Key() {
						sj = e.Res
					}
				}
			}
		}
		if pi == nil || pj == nil {
			ok = false
			c.violated("C12.priq", "EntryList.Less", fn.Pos(), "Less does not compare the priorities of elements i and j", c.witness(t, len(t.Events)-1)...)
			continue
		}
		facts := t.factsBefore(len(t.Events))
		eq := hasFact(facts, func(f Fact) bool { return f.Op == token.EQL && f.X.Key() == pi.Key() && f.Y.Key() == pj.Key() })
		r := t.Ret[0]
		good := false
		if eq {
			// seq_i < seq_j
			good = si != nil && sj != nil && r.Kind == KBin && ((r.Op == token.LSS && r.Args[0].Key() == si.Key() && r.Args[1].Key() == sj.Key()) || (r.Op == token.GTR && r.Args[0].Key() == sj.Key() && r.Args[1].Key() == si.Key()))
		} else {
			// pi > pj  (as an expression, or decided by a branch with constant results)
			if r.Kind == KBin {
				good = (r.Op == token.GTR && r.Args[0].Key() == pi.Key() && r.Args[1].Key() == pj.Key()) || (r.Op == token.LSS && r.Args[0].Key() == pj.Key() && r.Args[1].Key() == pi.Key())
			} else if b, isb := r.boolConst(); isb {
				gt := hasFact(facts, func(f Fact) bool { return f.Op == token.GTR && f.X.Key() == pi.Key() && f.Y.Key() == pj.Key() })
				lt := hasFact(facts, func(f Fact) bool { return f.Op == token.LSS && f.X.Key() == pi.Key() && f.Y.Key() == pj.Key() })
				good = (b && gt) || (!b && lt)
			}
		}
		if !good {
			ok = false
			c.violated("C12.priq", "EntryList.Less", fn.Pos(), fmt.Sprintf("the heap order is not (priority descending, then sequence ascending): on the path with priorities %s the result is %s", map[bool]string{true: "equal", false: "different"}[eq], c.short(r.Key())), c.witness(t, len(t.Events)-1)...)
		}
	}
	if ok && n > 0 {
		c.holds("C12.priq", "EntryList.Less", fn.Pos(), fmt.Sprintf("%d paths: priority descending, ties by sequence ascending", n))
	}
}

var _ = strings.HasPrefix

// checkPriHeapIface: container/heap orders PriQueue.entries through EntryList's Len/Swap/Push/Pop; the heap
// algorithms are only correct if Swap exchanges exactly the two positions, Push appends the element, Pop removes
// and returns the last element, and Len is the slice length.
func checkPriHeapIface(c *Ctx, rel string) {
	get := func(name string) ([]*Trace, *ssa.Function) {
		fn := c.mustFn(rel, name)
		if fn == nil {
			return nil, nil
		}
		ts, _ := c.Trace(fn, TraceConfig{})
		return ts, fn
	}
	one := func(ts []*Trace) *Trace {
		var out *Trace
		for _, t := range ts {
			if t.End == EndReturn {
				if out != nil {
					return nil
				}
				out = t
			}
		}
		return out
	}
	// Swap
	if ts, fn := get("(EntryList).Swap"); fn != nil {
		good := false
		if t := one(ts); t != nil {
			i, j := "$"+fn.Params[1].Name(), "$"+fn.Params[2].Name()
			st := map[string]string{} // index key -> index key of the value's origin cell
			for _, e := range t.Events {
				if e.Kind == EvStore && e.Addr.Kind == KIndexAddr && e.Val.Kind == KInit && e.Val.Args[0].Kind == KIndexAddr {
					st[e.Addr.Args[1].Key()] = e.Val.Args[0].Args[1].Key()
				}
			}
			good = len(st) == 2 && st[i] == j && st[j] == i
		}
		c.check(good, "C12.priq", "(EntryList).Swap", fn.Pos(), "e[i], e[j] = e[j], e[i]", "Swap does not exchange exactly the elements at its two positions: container/heap's sift operations no longer order the entries, a lower priority (or a later arrival) can be popped first")
	}
	// Push
	if ts, fn := get("(*EntryList).Push"); fn != nil {
		good := false
		if t := one(ts); t != nil {
			x := "$" + fn.Params[1].Name()
			for _, e := range t.Events {
				if e.Kind == EvStore && e.Addr.Key() == "$"+fn.Params[0].Name() && e.Val.Kind == KOp && e.Val.Name == "append" && e.Val.Args[0].Key() == "*$"+fn.Params[0].Name() {
					if r := e.Val.Args[1].root(); r != nil && r.Kind == KAlloc {
						for _, y := range t.Events {
							if y.Kind == EvStore && y.Addr.root().Key() == r.Key() && y.Val.mentions(x) {
								good = true
							}
						}
					}
				}
			}
		}
		c.check(good, "C12.priq", "(*EntryList).Push", fn.Pos(), "*e = append(*e, x)", "Push does not append its argument to the entries: a pushed item is lost or another one duplicated")
	}
	// Pop
	if ts, fn := get("(*EntryList).Pop"); fn != nil {
		good := false
		if t := one(ts); t != nil {
			e0 := "*$" + fn.Params[0].Name()
			lenE := lf(&Sym{Kind: KOp, Name: "len", Args: []*Sym{{Kind: KInit, Args: []*Sym{{Kind: KParam, Ref: fn.Params[0], Typ: fn.Params[0].Type()}}}}})
			last := lenE.add(lfConst(1), -1)
			r := t.Ret[0].strip()
			retOK := r.Kind == KInit && r.Args[0].Kind == KIndexAddr && r.Args[0].Args[0].Key() == e0 && lf(r.Args[0].Args[1]).equal(last)
			shrink := false
			for _, e := range t.Events {
				if e.Kind == EvStore && e.Addr.Key() == "$"+fn.Params[0].Name() {
					v := e.Val
					shrink = v.Kind == KOp && v.Name == "slice" && v.Args[0].Key() == e0 && v.Args[1].Name == "none" && lf(v.Args[2]).equal(last)
				}
			}
			good = retOK && shrink
		}
		c.check(good, "C12.priq", "(*EntryList).Pop", fn.Pos(), "returns and removes the last element", "Pop does not return the last element and shrink the slice by one: heap.Pop (which has moved the minimum to the end) hands out the wrong entry or keeps it queued")
	}
	// Len
	if ts, fn := get("(EntryList).Len"); fn != nil {
		good := false
		if t := one(ts); t != nil {
			r := t.Ret[0]
			good = r.Kind == KOp && r.Name == "len" && r.Args[0].Key() == "$"+fn.Params[0].Name()
		}
		c.check(good, "C12.priq", "(EntryList).Len", fn.Pos(), "len(e)", "Len is not the number of entries: container/heap sifts over the wrong range")
	}
}

// factsSign reads the branch facts as linear (in)equalities and reports whether one of them entails form >= 1 (pos)
// or form <= 0 (zero). form is a length-like quantity known to be >= 0, so `form != 0` counts as pos and
// `form == 0` as zero. Single-fact implication: sound, not complete.
func factsSign(facts []Fact, form linForm) (pos, zero bool) {
	if factsImplyGE0(facts, form.add(lfConst(1), -1)) {
		pos = true
	}
	neg := form.scale(big.NewInt(-1))
	for _, f := range facts {
		d := lf(f.X).add(lf(f.Y), -1)
		same := d.equal(form) || d.equal(neg)
		switch f.Op {
		case token.NEQ:
			if same {
				pos = true
			}
		case token.EQL:
			if same {
				zero = true
			}
		case token.LEQ: // d <= 0
			if d.equal(form) {
				zero = true
			}
		case token.GEQ: // d >= 0, d = -form
			if d.equal(neg) {
				zero = true
			}
		case token.LSS: // d < 0, d = form - 1 ... form < 1
			if d.equal(form.add(lfConst(1), -1)) {
				zero = true
			}
		case token.GTR: // d > 0, d = 1 - form
			if d.equal(neg.add(lfConst(1), 1)) {
				zero = true
			}
		}
	}
	return
}

// initOfField: the symbol of the first load of field f's initial value on this path (nil when never read)
func (t *Trace) initOfField(f *types.Var) *Sym {
	for _, e := range t.Events {
		if e.Kind == EvLoad && e.Res != nil {
			if _, ok := isInitOfField(e.Res, f); ok {
				return e.Res
			}
		}
	}
	return nil
}
