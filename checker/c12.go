package main

import (
	"fmt"
	"go/token"
	"go/types"
	"strings"

	"golang.org/x/tools/go/ssa"
)

func init() {
	register(&Property{
		ID:       "C12",
		Patterns: []string{"./syncx/pipe/q", "./syncx/pipe/async", "./syncx/pipe/mux", "./syncx/pipe/mq", "./queue/syncq", "./queue/priq"},
		Explanation: "For the four pipe queues (one role table), SyncQueue and PriQueue, decides on every path of every public method: (1) all queue state is touched only under the queue mutex; " +
			"(2) an ordinary add pushes the caller's item exactly once at the back, only when the queue is open and (unbounded or Len < max), reports the closed error whenever closed was observed and the full error only under `open AND max>0 AND Len>=max`; a prior add pushes at the front under `open` only; " +
			"(3) a pop returns the value of list.Front() of the first non-empty list (control list before request list), removes exactly that element, reports the closed error only under (all lists empty AND closed) or, for Pop, closed; Pop reaches the close-checking variant and PopAnyway the draining one; " +
			"(4) closed/cleared are only ever set to true; TryClose sets closed only under all lists empty; TryClear sets cleared only under closed AND all empty; the stop channel is closed only on the open->closed transition; " +
			"(5) SyncQueue.Push adds only when open, Pop/TryPop hand out Peek()+Remove() whenever the buffer is non-empty regardless of closed; " +
			"(6) PriQueue: Less is (priority descending, then sequence ascending), Push adds only under len<capacity with a sequence number incremented under the lock immediately before, entries is mutated only through container/heap. " +
			"NOT decided: conservation of items over whole histories (no loss/duplication across operations follows from container/list's contract plus these single-operation facts, informally).",
		Assumptions: []string{"container/list, container/heap, eapache/queue behave as documented"},
		Floors:      map[string]int{"C12.guarded-by": 20, "C12.add": 5, "C12.prior-add": 5, "C12.pop": 8, "C12.close-state": 6, "C12.syncq": 3, "C12.priq": 3},
		Run: func(c *Ctx) {
			runQueues(c, "C12")
			c.checkOptionTargets("C12.add", "syncx/pipe/q", "syncx/pipe/mq", "syncx/pipe/mux", "syncx/pipe/async")
		},
	})
	register(&Property{
		ID:       "C13",
		Patterns: []string{"./syncx/pipe/q", "./syncx/pipe/async", "./syncx/pipe/mux", "./syncx/pipe/mq", "./queue/syncq", "./queue/priq"},
		Explanation: "Decides on every path: (1) every Cond.Wait is made with the condition's own mutex held, only when the wait predicate (nothing to take AND open) was just evaluated under that lock, and is followed by a re-evaluation of the predicate before anything is taken or returned (wait loop, not `if`); the Cond's L is bound to the queue mutex in the constructor; " +
			"(2) every path that makes the predicate of a waiter false wakes waiters before returning: an added item is followed by Signal or Broadcast, setting closed is followed by Broadcast (Signal wakes one of k blocked consumers only); " +
			"(3) PriQueue: the signal channel has constant capacity >= 1, sends on it are non-blocking (select with default), every successful Push path sends after the item is in the heap, and Pop sends whenever the length it computed under the lock after removal is > 0. " +
			"NOT decided: liveness under every schedule (these are the necessary signalling conditions, not a proof of wake-up).",
		Assumptions: []string{"sync.Cond semantics: Signal wakes at most one waiter, Broadcast all"},
		Floors:      map[string]int{"C13.wait-loop": 8, "C13.wake-on-add": 10, "C13.wake-on-close": 5, "C13.cond-binding": 5, "C13.priq-signal": 3, "C13.lock-released": 40},
		Run:         func(c *Ctx) { runQueues(c, "C13") },
	})
}

type listSpec struct {
	field, max, fullErr, add, prior, anyway string
}

type qSpec struct {
	rel, typ  string
	lists     []listSpec // in service order (control list first)
	closedErr string
	stopChan  string
	cleared   string
	clearChan string
}

var pipeQueues = []qSpec{
	{rel: "syncx/pipe/q", typ: "Q", lists: []listSpec{{"reqList", "reqMaxNum", "ErrReqQFull", "AddReq", "AddPriorReq", "AddReqAnyway"}}, closedErr: "ErrClosed"},
	{rel: "syncx/pipe/async", typ: "Q", lists: []listSpec{{"reqList", "size", "ErrFull", "Add", "AddPrior", "AddAnyway"}}, closedErr: "ErrClosed"},
	{rel: "syncx/pipe/mux", typ: "Q", lists: []listSpec{{"reqList", "reqMaxNum", "ErrQFull", "AddReq", "AddPriorReq", "AddReqAnyway"}}, closedErr: "ErrClosed", stopChan: "stopChan"},
	{rel: "syncx/pipe/mq", typ: "MQ", lists: []listSpec{{"ctrlList", "ctrlMaxNum", "ErrCtrlQFull", "AddCtrl", "AddPriorCtrl", "AddCtrlAnyway"}, {"reqList", "reqMaxNum", "ErrReqQFull", "AddReq", "AddPriorReq", "AddReqAnyway"}},
		closedErr: "ErrClosed", stopChan: "stopChan", cleared: "cleared", clearChan: "clearChan"},
}

type qCtx struct {
	c       *Ctx
	prop    string
	sp      qSpec
	lists   []*types.Var
	maxs    []*types.Var
	closed  *types.Var
	cleared *types.Var
	lock    *types.Var
	cond    *types.Var
	stop    *types.Var
	clearCh *types.Var
	tname   string
}

func runQueues(c *Ctx, prop string) {
	for _, sp := range pipeQueues {
		q := &qCtx{c: c, prop: prop, sp: sp, tname: sp.rel + "." + sp.typ}
		ok := true
		for _, l := range sp.lists {
			f, m := c.mustField(sp.rel, sp.typ, l.field), c.mustField(sp.rel, sp.typ, l.max)
			if f == nil || m == nil {
				ok = false
			}
			q.lists, q.maxs = append(q.lists, f), append(q.maxs, m)
		}
		q.closed = c.mustField(sp.rel, sp.typ, "closed")
		q.lock = c.mustField(sp.rel, sp.typ, "lock")
		q.cond = c.mustField(sp.rel, sp.typ, "cond")
		if sp.cleared != "" {
			q.cleared = c.mustField(sp.rel, sp.typ, sp.cleared)
			q.clearCh = c.mustField(sp.rel, sp.typ, sp.clearChan)
		}
		if sp.stopChan != "" {
			q.stop = c.mustField(sp.rel, sp.typ, sp.stopChan)
		}
		for _, l := range sp.lists {
			for _, m := range []string{l.add, l.prior} {
				if c.mustFn(sp.rel, "(*"+sp.typ+")."+m) == nil {
					ok = false
				}
			}
		}
		for _, m := range []string{"Pop", "PopAnyway", "Close"} {
			if c.mustFn(sp.rel, "(*"+sp.typ+")."+m) == nil {
				ok = false
			}
		}
		if !ok || q.closed == nil || q.lock == nil || q.cond == nil {
			continue
		}
		q.run()
	}
	runSyncQ(c, prop)
	runPriQ(c, prop)
}

func (q *qCtx) methods() []*ssa.Function {
	named := q.c.namedType(q.sp.rel, q.sp.typ)
	var out []*ssa.Function
	for i := 0; i < named.NumMethods(); i++ {
		m := named.Method(i)
		if !m.Exported() {
			continue
		}
		if fn := q.c.Prog.FuncValue(m); fn != nil && len(fn.Blocks) > 0 {
			out = append(out, fn)
		}
	}
	return out
}

// isList: sym denotes list #k of the queue (pointer field content or address of a value field).
func (q *qCtx) listIndex(s *Sym) int {
	for k, f := range q.lists {
		if _, ok := isInitOfField(s, f); ok {
			return k
		}
		if s.isFieldAddrOf(f) {
			return k
		}
	}
	return -1
}

func (q *qCtx) listCall(e *Event, method string) int {
	if e.Kind != EvCall || e.callName() != "(*container/list.List)."+method || len(e.Args) == 0 {
		return -1
	}
	return q.listIndex(e.Args[0])
}

func boolFact(facts []Fact, s *Sym) (val, known bool) {
	if b, ok := s.boolConst(); ok {
		return b, true
	}
	for _, f := range facts {
		if f.X.Key() == s.Key() && f.Op == token.EQL {
			if b, ok := f.Y.boolConst(); ok {
				return b, true
			}
		}
		// x != true is x == false (a named bool option compared with its constants)
		if f.X.Key() == s.Key() && f.Op == token.NEQ {
			if b, ok := f.Y.boolConst(); ok {
				return !b, true
			}
		}
	}
	return false, false
}

// state known at event i: value of closed, emptiness and fullness of lists, all relative to the last
// lock acquisition / wait / list mutation.
type qKnow struct {
	closedKnown, closed bool
	emptyKnown          []bool
	empty               []bool
	fullKnown           []bool // facts about Len >= max (with max>0)
	full                []bool
	unbounded           []bool // fact !(max > 0)
	nonNilFront         []bool
	infeasible          bool // Len()!=0 and Front()==nil (or vice versa) for the same list state: excluded by container/list
}

func (q *qCtx) knowledgeAt(t *Trace, i int, facts []Fact) (k qKnow) {
	n := len(q.lists)
	k = qKnow{emptyKnown: make([]bool, n), empty: make([]bool, n), fullKnown: make([]bool, n), full: make([]bool, n), unbounded: make([]bool, n), nonNilFront: make([]bool, n)}
	mutated := make([]bool, n)
	lenOf := map[string]int{} // key of an unmutated Len() reading -> list
	defer func() {
		// a sum of list lengths found zero: every list in the sum is empty (lengths are never negative)
		if len(lenOf) < 2 {
			return
		}
		for _, f := range facts {
			d := lf(f.X).add(lf(f.Y), -1)
			if len(d.coef) < 2 {
				continue
			}
			sumOfLens := true
			for key, co := range d.coef {
				if _, isLen := lenOf[key]; !isLen || co.Sign() <= 0 {
					sumOfLens = false
				}
			}
			if !sumOfLens || !d.c.IsInt64() {
				continue
			}
			cst := d.c.Int64()
			if (f.Op == token.EQL && cst == 0) || (f.Op == token.LEQ && cst == 0) || (f.Op == token.LSS && cst == -1) {
				for key := range d.coef {
					if li := lenOf[key]; !k.emptyKnown[li] {
						k.emptyKnown[li], k.empty[li] = true, true
					}
				}
			}
		}
	}()
	for j := i - 1; j >= 0; j-- {
		e := t.Events[j]
		if acq, _, ok := lockOp(e); ok && acq {
			break
		}
		if e.Kind == EvCall && e.callName() == "(*sync.Cond).Wait" {
			break
		}
		if e.Kind == EvCall && strings.HasPrefix(e.callName(), "(*container/list.List).") && !pureContainerMethods[e.callName()] {
			if li := q.listIndex(e.Args[0]); li >= 0 {
				mutated[li] = true
			}
		}
		if e.Kind == EvLoad && e.Addr.isFieldAddrOf(q.closed) && !k.closedKnown {
			if v, ok := boolFact(facts, e.Res); ok {
				k.closedKnown, k.closed = true, v
			}
		}
		if e.Kind == EvStore && e.Addr.isFieldAddrOf(q.closed) && !k.closedKnown {
			if v, ok := e.Val.boolConst(); ok {
				k.closedKnown, k.closed = true, v
			}
		}
		if li := q.listCall(e, "Len"); li >= 0 && !mutated[li] {
			r := e.Res
			lenOf[boundKey(r)] = li
			for _, f := range facts {
				if f.X.Key() != r.Key() {
					continue
				}
				if z, isz := f.Y.intConst(); isz {
					val, dec := false, false
					switch {
					case f.Op == token.EQL && z == 0, f.Op == token.LEQ && z == 0, f.Op == token.LSS && z == 1:
						val, dec = true, true
					case f.Op == token.NEQ && z == 0, f.Op == token.GTR && z == 0, f.Op == token.GEQ && z == 1:
						val, dec = false, true
					}
					if dec {
						if k.emptyKnown[li] && k.empty[li] != val {
							k.infeasible = true
						}
						if !k.emptyKnown[li] {
							k.emptyKnown[li], k.empty[li] = true, val
						}
					}
				}
				if _, ismax := isInitOfField(f.Y, q.maxs[li]); ismax && !k.fullKnown[li] {
					switch f.Op {
					case token.GEQ:
						k.fullKnown[li], k.full[li] = true, true
					case token.LSS:
						k.fullKnown[li], k.full[li] = true, false
					}
				}
			}
		}
		if li := q.listCall(e, "Front"); li >= 0 && !mutated[li] {
			r := e.Res
			for _, f := range facts {
				if f.X.Key() == r.Key() && f.Y.isNilConst() && !k.emptyKnown[li] {
					if f.Op == token.EQL {
						k.emptyKnown[li], k.empty[li] = true, true
					} else if f.Op == token.NEQ {
						k.emptyKnown[li], k.empty[li] = true, false
					}
				}
			}
		}
	}
	for _, f := range facts {
		for _, pr := range [][2]*Sym{{f.X, f.Y}, {f.Y, f.X}} {
			if li := q.frontPhiList(pr[0]); li >= 0 && pr[1].isNilConst() && !k.emptyKnown[li] && !mutated[li] && q.latestIsFront(t, i, li) {
				if f.Op == token.EQL {
					k.emptyKnown[li], k.empty[li] = true, true
				} else if f.Op == token.NEQ {
					k.emptyKnown[li], k.empty[li] = true, false
				}
			}
		}
	}
	for li := range q.lists {
		for _, f := range facts {
			if _, ismax := isInitOfField(f.X, q.maxs[li]); ismax {
				if z, isz := f.Y.intConst(); isz && z == 0 && f.Op == token.LEQ {
					k.unbounded[li] = true
				}
				if z, isz := f.Y.intConst(); isz && z == 0 && f.Op == token.EQL {
					k.unbounded[li] = true
				}
			}
		}
	}
	return k
}

func (q *qCtx) isGlobalErr(s *Sym, name string) bool {
	// content of package variable `name` of the queue's package
	if s == nil || s.Kind != KInit || s.Args[0].Kind != KGlobal {
		return false
	}
	g := s.Args[0].Ref.(*ssa.Global)
	return g.Name() == name && g.Pkg == q.c.ssaPkg(q.sp.rel)
}

func (q *qCtx) run() {
	c := q.c
	methods := q.methods()
	if q.prop == "C12" {
		var table []guard
		for i, f := range q.lists {
			table = append(table, guard{Field: f, Mutex: q.lock, SameBase: true, Name: q.sp.typ + "." + q.sp.lists[i].field})
		}
		table = append(table, guard{Field: q.closed, Mutex: q.lock, SameBase: true, Name: q.sp.typ + ".closed"})
		if q.cleared != nil {
			table = append(table, guard{Field: q.cleared, Mutex: q.lock, SameBase: true, Name: q.sp.typ + ".cleared"})
		}
		c.checkGuardedByIn("C12.guarded-by", q.tname, methods, table, TraceConfig{})
	}
	if q.prop == "C13" {
		q.checkCondBinding()
	}
	for _, fn := range methods {
		name := "(*" + q.tname + ")." + fn.Name()
		traces, complete := c.Trace(fn, TraceConfig{})
		if !complete {
			c.undecided(q.prop+".paths", name, fn.Pos(), "path budget exceeded")
			continue
		}
		role, li := q.roleOf(fn.Name())
		if q.prop == "C13" {
			c.holds("C13.lock-released", name, fn.Pos(), "checked on every returning path") // overwritten by a violation of the same construct
		}
		for _, t := range traces {
			if q.prop == "C12" {
				switch role {
				case "add":
					q.checkAdd(t, name, li, false)
				case "prior":
					q.checkAdd(t, name, li, true)
				case "anyway":
					q.checkAnywayPushes(t, name, li)
				case "pop":
					q.checkPop(t, name, true)
				case "popanyway":
					q.checkPop(t, name, false)
				}
				q.checkCloseState(t, name, fn.Name())
			} else {
				q.checkWake(t, name)
				q.checkWaitLoop(t, name)
				q.checkSpurious(t, name)
				// nobody sleeps while holding the queue mutex: a producer that waits for room with the lock held keeps
				// out the only parties that can make room (consumers) or end the wait (Close)
				for i, e := range t.Events {
					if e.Kind == EvCall && e.callName() == "time.Sleep" {
						for _, h := range t.heldLocks(i) {
							if _, is := lockIsField(h, q.lock); is {
								c.violated("C13.lock-released", name, e.Pos, "the queue mutex is held across time.Sleep: while this caller waits, no consumer can take an item (so a full queue never gets room), blocked consumers that were woken stay stuck re-acquiring the mutex, and Close does not return", c.witness(t, i)...)
							}
						}
					}
				}
				// a consumer or producer that returns with the queue mutex held stops every other party: the woken
				// consumers can never re-acquire it inside Cond.Wait
				if t.End == EndReturn {
					for _, h := range t.heldLocks(len(t.Events)) {
						if _, is := lockIsField(h, q.lock); is {
							c.violated("C13.lock-released", name, fn.Pos(), "a path returns while still holding the queue mutex: every consumer woken afterwards stays stuck re-acquiring it inside Cond.Wait, and every later call on the queue blocks", c.witness(t, len(t.Events)-1)...)
						}
					}
				}
			}
		}
	}
}

func (q *qCtx) roleOf(m string) (string, int) {
	for i, l := range q.sp.lists {
		switch m {
		case l.add:
			return "add", i
		case l.prior:
			return "prior", i
		case l.anyway:
			return "anyway", i
		}
	}
	switch m {
	case "Pop":
		return "pop", -1
	case "PopAnyway":
		return "popanyway", -1
	}
	return "", -1
}

// checkAnywayPushes: the retrying add (sleep while full, then add) stores an item under exactly the conditions of
// the plain add — in the critical section of the push itself the queue was seen open and below its bound. A
// version that tests `closed` once and then waits for room across unlock/lock pushes onto a closed queue.
func (q *qCtx) checkAnywayPushes(t *Trace, name string, li int) {
	c := q.c
	for pi, e := range t.Events {
		if !(e.Kind == EvCall && strings.HasPrefix(e.callName(), "(*container/list.List).") && !pureContainerMethods[e.callName()]) {
			continue
		}
		k := q.knowledgeAt(t, pi, t.factsBefore(pi))
		switch {
		case q.listCall(e, "PushBack") != li:
			c.violated("C12.add", name, e.Pos, "the retrying add mutates the queue with "+e.callName()+" instead of PushBack on the "+q.sp.lists[li].field+" list", c.witness(t, pi)...)
		case len(e.Args) < 2 || !isParamOrItsCell(t, e.Args[1].strip(), t.Params[1]):
			c.violated("C12.add", name, e.Pos, "the value pushed is not the caller's item", c.witness(t, pi)...)
		case !k.closedKnown || k.closed:
			c.violated("C12.add", name, e.Pos, "the item is added without having observed `closed == false` in the critical section of the push (the test was made before the lock was released to wait for room): a closed queue accepts items", c.witness(t, pi)...)
		case !(k.unbounded[li] || (k.fullKnown[li] && !k.full[li])):
			c.violated("C12.add", name, e.Pos, "the item is added without `max == 0 or Len < max` being established in the critical section of the push: the bounded queue exceeds its capacity", c.witness(t, pi)...)
		default:
			c.holds("C12.add", name, t.Entry.Pos(), "pushes only under open and below the bound, in the critical section of the push")
		}
	}
}

// checkAdd: rule 2.
func (q *qCtx) checkAdd(t *Trace, name string, li int, prior bool) {
	c := q.c
	rule := "C12.add"
	if prior {
		rule = "C12.prior-add"
	}
	if t.End != EndReturn {
		return
	}
	facts := t.factsBefore(len(t.Events))
	var pushes []int
	for i, e := range t.Events {
		if e.Kind == EvCall && strings.HasPrefix(e.callName(), "(*container/list.List).") && !pureContainerMethods[e.callName()] {
			pushes = append(pushes, i)
		}
	}
	ret := t.Ret[len(t.Ret)-1]
	item := t.Params[1]
	fail := func(i int, msg string) {
		pos := t.Entry.Pos()
		if i >= 0 {
			pos = t.Events[i].Pos
		} else {
			i = len(t.Events) - 1
		}
		c.violated(rule, name, pos, msg, c.witness(t, i)...)
	}
	okAll := true
	if len(pushes) > 1 {
		fail(pushes[1], "more than one list mutation in one add: the item is duplicated or another item is displaced")
		okAll = false
	}
	for _, pi := range pushes {
		e := t.Events[pi]
		k := q.knowledgeAt(t, pi, t.factsBefore(pi))
		want := "PushBack"
		if prior {
			want = "PushFront"
		}
		if q.listCall(e, want) != li {
			fail(pi, fmt.Sprintf("the item is not added with %s on the %s list (%s): the order contract (FIFO, prior items first) is broken", want, q.sp.lists[li].field, e.callName()))
			okAll = false
			continue
		}
		if len(e.Args) < 2 || e.Args[1].strip().Key() != item.Key() {
			fail(pi, "the value pushed is not the caller's item")
			okAll = false
		}
		if !k.closedKnown || k.closed {
			fail(pi, "the item is added without having observed `closed == false` in this critical section: a closed queue accepts items")
			okAll = false
		}
		if !prior {
			if !(k.unbounded[li] || (k.fullKnown[li] && !k.full[li])) {
				fail(pi, "the item is added without `max == 0 or Len < max` being established: the bounded queue exceeds its capacity")
				okAll = false
			}
		}
		if !ret.isNilConst() {
			fail(pi, "an add that stored the item reports an error")
			okAll = false
		}
	}
	kEnd := q.knowledgeAt(t, len(t.Events), facts)
	_ = kEnd
	if len(pushes) == 0 {
		// refused: which error and why
		closedSeen, closedVal := false, false
		fullSeen := false
		for i, e := range t.Events {
			if e.Kind == EvLoad && e.Addr.isFieldAddrOf(q.closed) {
				if v, ok := boolFact(facts, e.Res); ok {
					closedSeen, closedVal = true, v
				}
			}
			_ = i
		}
		kk := q.knowledgeAt(t, len(t.Events), facts)
		fullSeen = kk.fullKnown[li] && kk.full[li]
		switch {
		case ret.isNilConst():
			fail(-1, "the add returns nil without storing the item: the item is lost")
			okAll = false
		case q.isGlobalErr(ret, q.sp.closedErr):
			if !(closedSeen && closedVal) {
				fail(-1, "the closed error is returned although `closed` was not observed true")
				okAll = false
			}
		case q.isGlobalErr(ret, q.sp.lists[li].fullErr):
			if prior {
				fail(-1, "a prior add is refused as full: prior adds are not subject to the bound")
				okAll = false
			} else if !fullSeen || kk.unbounded[li] {
				fail(-1, "the full error is returned without `max > 0 and Len >= max`: the queue refuses although it does not hold its capacity")
				okAll = false
			} else if !(closedSeen && !closedVal) {
				fail(-1, "the bound is tested before (or without) the closed test: a closed full queue reports full instead of closed")
				okAll = false
			}
		default:
			fail(-1, "the add is refused with an unexpected result: "+c.short(ret.Key()))
			okAll = false
		}
		if closedSeen && closedVal && !q.isGlobalErr(ret, q.sp.closedErr) {
			fail(-1, "closed was observed but the closed error is not returned")
			okAll = false
		}
	}
	if okAll {
		c.holds(rule, name, t.Entry.Pos(), "")
	}
}

// checkPop: rule 3.
func (q *qCtx) checkPop(t *Trace, name string, checkClose bool) {
	c := q.c
	if t.End != EndReturn || len(t.Ret) != 2 {
		return
	}
	rule := "C12.pop"
	facts := t.factsBefore(len(t.Events))
	val, err := t.Ret[0], t.Ret[1]
	fail := func(i int, msg string) {
		pos := t.Entry.Pos()
		if i >= 0 {
			pos = t.Events[i].Pos
		} else {
			i = len(t.Events) - 1
		}
		c.violated(rule, name, pos, msg, c.witness(t, i)...)
	}
	var removes []int
	for i, e := range t.Events {
		if e.Kind == EvCall && strings.HasPrefix(e.callName(), "(*container/list.List).") && !pureContainerMethods[e.callName()] {
			removes = append(removes, i)
		}
	}
	if err.isNilConst() {
		if len(removes) != 1 {
			fail(-1, fmt.Sprintf("a successful pop performs %d list mutations instead of exactly one Remove", len(removes)))
			return
		}
		ri := removes[0]
		e := t.Events[ri]
		li := q.listCall(e, "Remove")
		if li < 0 {
			fail(ri, "a successful pop mutates a list with "+e.callName()+" instead of Remove")
			return
		}
		elem := e.Args[1]
		// elem is Front() of list li, evaluated after the last wait / lock
		frontOK := false
		for j := ri - 1; j >= 0; j-- {
			x := t.Events[j]
			if acq, _, ok := lockOp(x); ok && acq {
				break
			}
			if x.Kind == EvCall && x.callName() == "(*sync.Cond).Wait" {
				break
			}
			if q.listCall(x, "Front") == li && x.Res.Key() == elem.Key() {
				frontOK = true
				break
			}
		}
		if !frontOK && q.frontPhiList(elem) == li && q.latestIsFront(t, ri, li) {
			frontOK = true
		}
		if !frontOK {
			fail(ri, "the removed element is not list.Front() of that list (evaluated in the same critical section): items do not leave in FIFO order")
			return
		}
		// returned value is elem.Value
		if !(val.Kind == KInit && val.Args[0].Kind == KFieldAddr && val.Args[0].Field.Name() == "Value" && val.Args[0].Args[0].Key() == elem.Key()) {
			fail(ri, "the value returned is not the removed element's value: "+c.short(val.Key()))
			return
		}
		k := q.knowledgeAt(t, ri, t.factsBefore(ri))
		for j := 0; j < li; j++ {
			if !(k.emptyKnown[j] && k.empty[j]) {
				fail(ri, fmt.Sprintf("an item of the %s list is served although the %s list was not found empty: control messages no longer go first", q.sp.lists[li].field, q.sp.lists[j].field))
				return
			}
		}
		if checkClose {
			if !(k.closedKnown && !k.closed) {
				fail(ri, "Pop hands out an item without having observed `closed == false` after the last wait: Pop must fail once the queue is closed, even if items remain (only PopAnyway drains)")
				return
			}
		} else {
			// PopAnyway must not refuse because of closed while items remain: checked on the error paths
		}
		c.holds(rule, name, t.Entry.Pos(), "")
		return
	}
	// error result
	if len(removes) != 0 {
		fail(removes[0], "a pop that reports an error removed an item: the item is lost")
		return
	}
	if q.isGlobalErr(err, q.sp.closedErr) {
		k := q.knowledgeAt(t, len(t.Events), facts)
		if !(k.closedKnown && k.closed) {
			// closed may have been read before a later Len() — look at any closed observation after the last wait
			fail(-1, "the closed error is returned although `closed` was not observed true in the final critical section")
			return
		}
		if !checkClose {
			for j := range q.lists {
				if !(k.emptyKnown[j] && k.empty[j]) {
					fail(-1, "PopAnyway reports closed although the "+q.sp.lists[j].field+" list was not found empty: remaining items must be handed out first")
					return
				}
			}
		}
		c.holds(rule, name, t.Entry.Pos(), "")
		return
	}
	// ErrSync ("never gonna happen"): reachable only when every list's Front() is nil after Len()!=0 — infeasible by list's contract
	k := q.knowledgeAt(t, len(t.Events), facts)
	allEmpty := true
	for j := range q.lists {
		if !(k.emptyKnown[j] && k.empty[j]) {
			allEmpty = false
		}
	}
	if k.infeasible {
		c.holds(rule, name, t.Entry.Pos(), "defensive error path: Front() nil after Len() != 0 cannot happen")
		return
	}
	if allEmpty && k.closedKnown && k.closed {
		fail(-1, "the queue was found closed and empty, but the error returned is not the closed error ("+c.short(err.Key())+"): consumers that drain with PopAnyway and test for the closed error never see the end of the queue")
		return
	}
	if allEmpty {
		c.holds(rule, name, t.Entry.Pos(), "defensive error path: all Front() nil")
		return
	}
	fail(-1, "a pop returns an unexpected error while an item may be available: "+c.short(err.Key()))
}

// checkCloseState: rule 4.
func (q *qCtx) checkCloseState(t *Trace, name, method string) {
	c := q.c
	rule := "C12.close-state"
	for i, e := range t.Events {
		if e.Kind == EvStore && (e.Addr.isFieldAddrOf(q.closed) || (q.cleared != nil && e.Addr.isFieldAddrOf(q.cleared))) {
			if e.Addr.Args[0].root().Kind == KAlloc {
				continue
			}
			isClosed := e.Addr.isFieldAddrOf(q.closed)
			fname := "closed"
			if !isClosed {
				fname = "cleared"
			}
			if v, ok := e.Val.boolConst(); !ok || !v {
				c.violated(rule, name+" sets "+fname, e.Pos, fname+" is assigned something other than true: a closed queue can re-open", c.witness(t, i)...)
				continue
			}
			k := q.knowledgeAt(t, i, t.factsBefore(i))
			good := true
			switch {
			case isClosed && method == "TryClose":
				for j := range q.lists {
					if !(k.emptyKnown[j] && k.empty[j]) {
						good = false
						c.violated(rule, name+" sets closed", e.Pos, "TryClose closes the queue although the "+q.sp.lists[j].field+" list was not found empty", c.witness(t, i)...)
					}
				}
			case !isClosed:
				if !(k.closedKnown && k.closed) {
					good = false
					c.violated(rule, name+" sets cleared", e.Pos, "cleared is set without `closed` observed true", c.witness(t, i)...)
				}
				for j := range q.lists {
					if !(k.emptyKnown[j] && k.empty[j]) {
						good = false
						c.violated(rule, name+" sets cleared", e.Pos, "cleared is set although the "+q.sp.lists[j].field+" list was not found empty", c.witness(t, i)...)
					}
				}
			}
			if good {
				c.holds(rule, name+" sets "+fname, e.Pos, "")
			}
		}
		if e.Kind == EvClose {
			var which *types.Var
			if q.stop != nil {
				if _, ok := isInitOfField(e.Addr, q.stop); ok {
					which = q.stop
				}
			}
			if q.clearCh != nil {
				if _, ok := isInitOfField(e.Addr, q.clearCh); ok {
					which = q.clearCh
				}
			}
			if which == nil {
				continue
			}
			// only on the false->true transition of the matching flag (closing a closed channel panics)
			flag := q.closed
			if which == q.clearCh {
				flag = q.cleared
			}
			facts := t.factsBefore(i)
			wasFalse := false
			for j := i - 1; j >= 0; j-- {
				x := t.Events[j]
				if acq, _, ok := lockOp(x); ok && acq {
					break
				}
				if x.Kind == EvLoad && x.Addr.isFieldAddrOf(flag) {
					if v, ok := boolFact(facts, x.Res); ok && !v {
						wasFalse = true
					}
					break
				}
				if x.Kind == EvStore && x.Addr.isFieldAddrOf(flag) {
					break
				}
			}
			if wasFalse {
				c.holds(rule, name+" closes "+which.Name(), e.Pos, "")
			} else {
				c.violated(rule, name+" closes "+which.Name(), e.Pos, "the channel is closed without having observed the flag false under the lock: a second Close panics", c.witness(t, i)...)
			}
		}
	}
	// TryClose/TryClear report the flag
	if t.End == EndReturn && len(t.Ret) == 1 && (method == "TryClose" || method == "TryClear") {
		flag := q.closed
		if method == "TryClear" {
			flag = q.cleared
		}
		if flag == nil {
			return
		}
		ok := false
		r := t.Ret[0]
		for j := len(t.Events) - 1; j >= 0; j-- {
			x := t.Events[j]
			if x.Kind == EvStore && x.Addr.isFieldAddrOf(flag) {
				ok = x.Val.Key() == r.Key()
				break
			}
			if x.Kind == EvLoad && x.Addr.isFieldAddrOf(flag) {
				ok = x.Res.Key() == r.Key()
				break
			}
		}
		if b, isb := r.boolConst(); isb {
			// constant result: must agree with the last known flag value
			facts := t.factsBefore(len(t.Events))
			for j := len(t.Events) - 1; j >= 0; j-- {
				x := t.Events[j]
				if x.Kind == EvStore && x.Addr.isFieldAddrOf(flag) {
					v, _ := x.Val.boolConst()
					ok = v == b
					break
				}
				if x.Kind == EvLoad && x.Addr.isFieldAddrOf(flag) {
					v, known := boolFact(facts, x.Res)
					ok = known && v == b
					break
				}
			}
		}
		c.check(ok, rule, name+" result", t.Entry.Pos(), "", method+" does not report the final value of the flag: it claims success exactly when the queue is (not) closed/cleared", c.witness(t, len(t.Events)-1)...)
	}
}

// ---------------------------------------------------------------------------------------------
// C13 for the pipe queues

func (q *qCtx) isCondCall(e *Event, m string) bool {
	if e.Kind != EvCall || e.callName() != "(*sync.Cond)."+m || len(e.Args) == 0 {
		return false
	}
	a := e.Args[0]
	if a.isFieldAddrOf(q.cond) {
		return true
	}
	_, ok := isInitOfField(a, q.cond)
	return ok
}

func (q *qCtx) checkWake(t *Trace, name string) {
	c := q.c
	if t.End != EndReturn {
		return
	}
	for i, e := range t.Events {
		added := false
		if e.Kind == EvCall && (q.listCall(e, "PushBack") >= 0 || q.listCall(e, "PushFront") >= 0) {
			added = true
		}
		closedSet := e.Kind == EvStore && e.Addr.isFieldAddrOf(q.closed) && e.Addr.Args[0].root().Kind != KAlloc
		if !added && !closedSet {
			continue
		}
		sig, bc := false, false
		for j := i + 1; j < len(t.Events); j++ {
			if q.isCondCall(t.Events[j], "Signal") {
				sig = true
			}
			if q.isCondCall(t.Events[j], "Broadcast") {
				bc = true
			}
		}
		if added {
			c.check(sig || bc, "C13.wake-on-add", name, e.Pos, "", "an item is added but no waiter is woken on this path before returning: a consumer blocked in Pop sleeps beside a non-empty queue", c.witness(t, len(t.Events)-1)...)
		}
		if closedSet {
			c.check(bc, "C13.wake-on-close", name, e.Pos, "", "closed is set without Broadcast on this path: of k blocked consumers at most one (Signal) or none returns", c.witness(t, len(t.Events)-1)...)
		}
	}
}

func (q *qCtx) checkWaitLoop(t *Trace, name string) {
	c := q.c
	for i, e := range t.Events {
		if !q.isCondCall(e, "Wait") {
			continue
		}
		// lock held
		held := false
		for _, h := range t.heldLocks(i) {
			if _, ok := lockIsField(h, q.lock); ok && h.mode == lockW {
				held = true
			}
		}
		if !held {
			c.violated("C13.wait-loop", name, e.Pos, "Cond.Wait without the queue mutex held", c.witness(t, i)...)
			continue
		}
		// predicate evaluated: all lists empty and not closed
		k := q.knowledgeAt(t, i, t.factsBefore(i))
		pred := k.closedKnown && !k.closed
		for j := range q.lists {
			if !(k.emptyKnown[j] && k.empty[j]) {
				pred = false
			}
		}
		if !pred {
			c.violated("C13.wait-loop", name, e.Pos, "the consumer waits although it did not just find `every list empty AND open` under the lock: it can sleep beside an available item or a closed queue", c.witness(t, i)...)
			continue
		}
		// re-test after waking: before the first Remove after the Wait the lists must have been looked at again
		// (Len()/Front() called after the Wait); a path that removes nothing is judged by checkSpurious (it must
		// have seen the queue closed) or is cut at the loop head
		retested := true
		looked := false
		for j := i + 1; j < len(t.Events); j++ {
			x := t.Events[j]
			if q.isCondCall(x, "Wait") {
				break
			}
			if x.Kind == EvCall && (q.listCall(x, "Len") >= 0 || q.listCall(x, "Front") >= 0) {
				looked = true
			}
			if x.Kind == EvCall && q.listCall(x, "Remove") >= 0 {
				retested = looked
				break
			}
		}
		c.check(retested, "C13.wait-loop", name, e.Pos, "", "after Cond.Wait returns the predicate is not re-evaluated before the queue is used (an `if` instead of a wait loop): a woken consumer can pop from an empty list", c.witness(t, i)...)
	}
}

// checkSpurious: a consumer that wakes up and still finds nothing to take in an open queue must wait
// again; returning (with whatever result) makes Pop fail spuriously whenever another consumer was faster.
func (q *qCtx) checkSpurious(t *Trace, name string) {
	if t.End != EndReturn {
		return
	}
	last := -1
	for i, e := range t.Events {
		if q.isCondCall(e, "Wait") {
			last = i
		}
	}
	if last < 0 {
		return
	}
	removed := false
	for j := last + 1; j < len(t.Events); j++ {
		if q.listCall(t.Events[j], "Remove") >= 0 {
			removed = true
		}
	}
	k := q.knowledgeAt(t, len(t.Events), t.factsBefore(len(t.Events)))
	if k.infeasible {
		return
	}
	if !removed && !(k.closedKnown && k.closed) {
		q.c.violated("C13.wait-loop", name, t.Events[last].Pos, "after waking up the consumer returns without an item although the queue was not observed closed (no wait loop): a consumer loses the race for an item and fails instead of blocking again", q.c.witness(t, len(t.Events)-1)...)
	}
}

func lastWait(t *Trace, q *qCtx) int {
	for j := len(t.Events) - 1; j >= 0; j-- {
		if q.isCondCall(t.Events[j], "Wait") {
			// only events that are loads/branches/loopgen may follow
			for k := j + 1; k < len(t.Events); k++ {
				x := t.Events[k]
				if x.Kind != EvLoopGen && x.Kind != EvLoad && x.Kind != EvBranch {
					return -1
				}
			}
			return j
		}
	}
	return -1
}

// checkCondBinding: the constructor binds cond.L to the queue's own mutex.
func (q *qCtx) checkCondBinding() {
	c := q.c
	ok, found := false, false
	var pos token.Pos
	for _, fn := range c.funcsOf(q.sp.rel) {
		for _, b := range fn.Blocks {
			for _, in := range b.Instrs {
				st, isSt := in.(*ssa.Store)
				if !isSt {
					continue
				}
				fa, isFA := st.Addr.(*ssa.FieldAddr)
				if !isFA {
					continue
				}
				// &x.cond.L
				inner, isInner := fa.X.(*ssa.FieldAddr)
				if !isInner || fieldVar(inner.X.Type(), inner.Field) == nil || !sameField(fieldVar(inner.X.Type(), inner.Field), q.cond) {
					continue
				}
				if fv := fieldVar(fa.X.Type(), fa.Field); fv == nil || fv.Name() != "L" {
					continue
				}
				found = true
				pos = st.Pos()
				// value: &x.lock (possibly through MakeInterface)
				v := st.Val
				if mi, isMI := v.(*ssa.MakeInterface); isMI {
					v = mi.X
				}
				if la, isLA := v.(*ssa.FieldAddr); isLA && sameField(fieldVar(la.X.Type(), la.Field), q.lock) && la.X == inner.X {
					ok = true
				}
			}
		}
	}
	if !found {
		c.violated("C13.cond-binding", q.tname, q.cond.Pos(), "the condition variable's L is never bound: Cond.Wait panics / does not release the queue mutex", "")
		return
	}
	c.check(ok, "C13.cond-binding", q.tname, pos, "cond.L = &lock of the same object", "cond.L is not bound to the queue's own mutex: Wait releases a different lock than the one guarding the lists")
}

// frontPhiList: x is a loop-carried variable all of whose incoming values are Front() of one of the queue's lists
// (`front := l.Front(); for front == nil && !closed { Wait(); front = l.Front() }`): at every test it holds the
// latest Front() reading. Returns the list's index, or -1.
func (q *qCtx) frontPhiList(x *Sym) int {
	if x == nil || x.Kind != KFresh || x.Name != "loop" {
		return -1
	}
	phi, ok := x.Ref.(*ssa.Phi)
	if !ok || len(phi.Edges) == 0 {
		return -1
	}
	li := -1
	for _, ed := range phi.Edges {
		call, isCall := ed.(*ssa.Call)
		if !isCall || call.Call.StaticCallee() == nil || call.Call.StaticCallee().String() != "(*container/list.List).Front" || len(call.Call.Args) == 0 {
			return -1
		}
		ld, isLoad := call.Call.Args[0].(*ssa.UnOp)
		if !isLoad {
			return -1
		}
		fa, isFA := ld.X.(*ssa.FieldAddr)
		if !isFA {
			return -1
		}
		fv := fieldVar(fa.X.Type(), fa.Field)
		this := -1
		for k, l := range q.lists {
			if sameField(fv, l) {
				this = k
			}
		}
		if this < 0 || (li >= 0 && li != this) {
			return -1
		}
		li = this
	}
	return li
}

// latestIsFront: going back from event i, the first thing that touches list li or lets others touch it
// (lock acquisition, Cond.Wait, a mutation of the list) is a Front() reading of it.
func (q *qCtx) latestIsFront(t *Trace, i, li int) bool {
	for j := i - 1; j >= 0; j-- {
		x := t.Events[j]
		if acq, _, ok := lockOp(x); ok && acq {
			return false
		}
		if x.Kind == EvCall && x.callName() == "(*sync.Cond).Wait" {
			return false
		}
		if q.listCall(x, "Front") == li {
			return true
		}
		if x.Kind == EvCall && strings.HasPrefix(x.callName(), "(*container/list.List).") && !pureContainerMethods[x.callName()] && len(x.Args) > 0 && q.listIndex(x.Args[0]) == li {
			return false
		}
	}
	return false
}

// isParamOrItsCell: v is the parameter p, or the content of a local variable that holds p and nothing else on this
// path (a parameter captured by a function literal lives in such a cell).
func isParamOrItsCell(t *Trace, v, p *Sym) bool {
	if v.Key() == p.Key() {
		return true
	}
	if v.Kind != KInit || v.Args[0].Kind != KAlloc {
		return false
	}
	cell := v.Args[0]
	stores, good := 0, true
	for _, e := range t.Events {
		if e.Kind == EvStore && e.Addr.Kind == KAlloc && e.Addr.ID == cell.ID {
			stores++
			if e.Val.strip().Key() != p.Key() {
				good = false
			}
		}
	}
	return stores > 0 && good
}
