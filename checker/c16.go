package main

import (
	"fmt"
	"go/token"
	"go/types"
	"strings"

	"golang.org/x/tools/go/ssa"
)

func init() {
	register(&Property{
		ID:       "C16",
		Patterns: []string{"./stcp"},
		Explanation: "Decides on every path of the two session loops (the read handler and the connection may fail or panic at every call): (1) every exit of loopSend and loopReceive — return or panic — runs the exit routine (through exitOnce.Do) and the panic is recovered by a deferred function that calls recover directly, both deferred before the first fallible step; " +
			"(2) the exit effects — exactly one OnExit (the session's own handler if set, else the manager's), one count.Dec, sendQ.Close and conn.Close — all sit inside exitOnce.Do; (3) the connection counter has exactly one Inc site (inside startOnce.Do, before the two `go`s, reached synchronously from SessionMgr.Do) and one Dec site (inside exitOnce.Do); " +
			"(4) the accept loop hands a connection to the manager only under ConnCount() < maxConn and otherwise closes it; every accepted connection goes to exactly one of the two; (5) loopSend dequeues with PopAnyway and writes each item to the connection before the next dequeue; Session.Close only closes the send queue (so queued bytes are flushed before the connection closes). " +
			"NOT decided: termination of both goroutines and byte delivery under every order of faults (needs the peer and the OS); the accept race between ConnCount() and Inc of concurrent accepts (single accept loop assumed).",
		Assumptions: []string{"one accept loop per manager", "sync.Once, q.Q (C12) contracts"},
		Floors:      map[string]int{"C16.exit-always": 2, "C16.exit-effects": 1, "C16.count-writers": 4, "C16.accept-guard": 2, "C16.flush": 3},
		Run:         runC16,
	})
}

func runC16(c *Ctx) {
	const rel = "stcp"
	c.checkOptionTargets("C16.accept-guard", rel)
	exitOnce := c.mustField(rel, "Session", "exitOnce")
	startOnce := c.mustField(rel, "Session", "startOnce")
	count := c.mustField(rel, "SessionMgr", "count")
	sendQ := c.mustField(rel, "Session", "sendQ")
	conn := c.mustField(rel, "Session", "conn")
	rh := c.mustField(rel, "Session", "rh")
	mgrRh := c.mustField(rel, "SessionMgr", "rh")
	bF := c.mustField(rel, "Session", "b")
	if exitOnce == nil || startOnce == nil || count == nil || sendQ == nil || conn == nil || rh == nil || mgrRh == nil || bF == nil {
		return
	}
	inl := func(callee *ssa.Function, depth int) bool {
		if depth > 6 || !c.fnInModule(callee) || isQueueRecv(callee) {
			return false
		}
		if callee.Pkg == nil || !strings.HasSuffix(callee.Pkg.Pkg.Path(), "/stcp") {
			return false
		}
		return !c.pureModuleFn(callee)
	}
	noHavoc := func(e *Event) bool {
		return e.Callee != nil && c.fnInModule(e.Callee) && (c.pureModuleFn(e.Callee) || (e.Callee.Pkg != nil && strings.HasSuffix(e.Callee.Pkg.Pkg.Path(), "/ulog")))
	}
	mayPanic := func(e *Event) bool {
		// user handler and connection calls may panic / fail
		if e.Method != nil && (e.Method.Name() == "Read" || e.Method.Name() == "OnExit") && e.Method.Pkg() != nil && c.inModule(e.Method.Pkg()) {
			return e.Method.Name() == "Read"
		}
		return false
	}
	cfg := TraceConfig{Inline: inl, NoHavoc: noHavoc, MayPanic: mayPanic}
	isOnceDo := func(e *Event, f *types.Var) bool {
		return e.Kind == EvCall && e.callName() == "(*sync.Once).Do" && len(e.Args) > 0 && e.Args[0].isFieldAddrOf(f)
	}
	// Inc / Dec, or Add(+1) / Add(-1), which is how they are defined
	isCounterOp := func(e *Event, f *types.Var, m string) bool {
		if e.Kind != EvCall || len(e.Args) == 0 || !e.Args[0].isFieldAddrOf(f) {
			return false
		}
		if strings.HasSuffix(e.callName(), ".Int32)."+m) {
			return true
		}
		if strings.HasSuffix(e.callName(), ".Int32).Add") && len(e.Args) == 2 {
			d, isC := e.Args[1].intConst()
			return isC && ((m == "Inc" && d == 1) || (m == "Dec" && d == -1))
		}
		return false
	}
	isCount := func(e *Event, m string) bool { return isCounterOp(e, count, m) }
	// syntactic classification of a writer call site on a counter field
	counterSite := func(call *ssa.Call) string {
		m := call.Call.StaticCallee().Name()
		if m == "Add" && len(call.Call.Args) == 2 {
			if k, isK := call.Call.Args[1].(*ssa.Const); isK && k.Value != nil {
				switch k.Int64() {
				case 1:
					return "Inc"
				case -1:
					return "Dec"
				}
			}
		}
		return m
	}

	// (1)+(2): the loops
	for _, lname := range []string{"loopSend", "loopReceive"} {
		fn := c.mustFn(rel, "(*Session)."+lname)
		if fn == nil {
			continue
		}
		cons := "(*stcp.Session)." + lname
		traces, complete := c.Trace(fn, cfg)
		if !complete {
			c.undecided("C16.exit-always", cons, fn.Pos(), fmt.Sprintf("path budget exceeded (%d traces)", len(traces)))
			continue
		}
		ok := true
		nexit := 0
		for _, t := range traces {
			if t.End == EndCut {
				// the loop goes round again: only after the read handler / the send of this iteration succeeded.
				// An error (including a fired deadline, which is "temporary") that lets the loop continue keeps a
				// dead session alive: it is never ended, its slot never returned
				facts := t.factsBefore(len(t.Events))
				for i, e := range t.Events {
					if e.Kind != EvCall || e.Res == nil || e.Deferred {
						continue
					}
					isIO := (e.Method != nil && (e.Method.Name() == "Read" || e.Method.Name() == "SetReadDeadline" || e.Method.Name() == "SetWriteDeadline" || e.Method.Name() == "Write")) && e.Callee == nil
					if !isIO {
						continue
					}
					errv := e.Res
					if errv.Kind == KTuple {
						errv = errv.Args[len(errv.Args)-1]
					}
					if errv.Typ == nil || errv.Typ.String() != "error" {
						continue
					}
					if hasFact(facts, func(f Fact) bool { return f.X.Key() == errv.Key() && f.Op == token.NEQ && f.Y.isNilConst() }) && ok {
						ok = false
						c.violated("C16.exit-always", cons, e.Pos, "the loop continues after "+e.Method.Name()+" returned an error: a read/write error or timeout does not end the session (a silent peer is never dropped, OnExit never runs, the connection count is never given back)", c.witness(t, i)...)
					}
				}
				continue
			}
			nexit++
			if t.End == EndPanic && ok {
				ok = false
				c.violated("C16.exit-always", cons, fn.Pos(), "a panic in the loop (e.g. in the read handler) is not recovered: it kills the process; recover must be called directly by a function deferred in the loop", c.witness(t, len(t.Events)-1)...)
				continue
			}
			// the exit routine ran
			ran := false
			for _, e := range t.Events {
				if isOnceDo(e, exitOnce) && e.Deferred {
					ran = true
				}
			}
			if !ran && ok {
				ok = false
				c.violated("C16.exit-always", cons, fn.Pos(), "the loop ends on this path without running the exit routine (exitOnce.Do): the exit callback is not called, the connection stays open and the connection count is never decremented", c.witness(t, len(t.Events)-1)...)
			}
			// the receive loop ends only because something failed — a deadline or read error, the read handler's
			// error, a panic. A local Close ends the session through the send queue (loopSend flushes, then exits);
			// a receive loop that also watches a "closing" flag runs the exit routine, which closes the connection,
			// while bytes accepted by Send are still being written
			if lname == "loopReceive" {
				failed := false
				facts := t.factsBefore(len(t.Events))
				for _, e := range t.Events {
					if e.Kind == EvPanic {
						failed = true
					}
					if e.Kind == EvCall && e.Res != nil && !e.Deferred {
						errv := e.Res
						if errv.Kind == KTuple && len(errv.Args) > 0 {
							errv = errv.Args[len(errv.Args)-1]
						}
						if errv != nil && errv.Typ != nil && errv.Typ.String() == "error" &&
							hasFact(facts, func(f Fact) bool { return f.X.Key() == errv.Key() && f.Op == token.NEQ && f.Y.isNilConst() }) {
							failed = true
						}
					}
				}
				if !failed && ok {
					ok = false
					c.violated("C16.flush", cons+" exit", fn.Pos(), "the receive loop ends on a path where no read, deadline or handler call failed: its exit routine closes the connection although nothing is wrong with it — after a local Close the bytes still queued for sending are cut off instead of flushed", c.witness(t, len(t.Events)-1)...)
				}
			}
			// the defers are registered before the first fallible step
			firstDefer, firstCall := -1, -1
			ndef := 0
			for i, e := range t.Events {
				if e.Kind == EvDefer && e.Depth == 0 {
					ndef++
					if ndef == 2 && firstDefer < 0 {
						firstDefer = i
					}
				}
				if (e.Kind == EvCall || e.Kind == EvEnter) && e.Depth == 0 && firstCall < 0 && !e.Deferred {
					firstCall = i
				}
			}
			if firstDefer >= 0 && firstCall >= 0 && firstCall < firstDefer && ok {
				ok = false
				c.violated("C16.exit-always", cons, t.Events[firstCall].Pos, "a fallible call is made before both deferred handlers (recover, exit) are registered", c.witness(t, firstCall)...)
			}
		}
		if nexit == 0 {
			c.undecided("C16.exit-always", cons, fn.Pos(), "no exit path found")
		} else if ok {
			c.holds("C16.exit-always", cons, fn.Pos(), fmt.Sprintf("%d exit paths (returns and recovered panics) all run exitOnce.Do", nexit))
		}

		if lname == "loopSend" {
			c.checkFlush(fn, traces, sendQ, conn)
		}
	}

	// (2) exit effects inside exitOnce.Do — analysed on the function that calls exitOnce.Do
	var quitFn *ssa.Function
	for _, f := range c.funcsOf(rel) {
		for _, b := range f.Blocks {
			for _, in := range b.Instrs {
				if call, ok := in.(*ssa.Call); ok && call.Call.StaticCallee() != nil && call.Call.StaticCallee().String() == "(*sync.Once).Do" {
					if fa, ok := call.Call.Args[0].(*ssa.FieldAddr); ok && sameField(fieldVar(fa.X.Type(), fa.Field), exitOnce) {
						quitFn = f
					}
				}
			}
		}
	}
	if quitFn == nil {
		c.violated("C16.exit-effects", "exit routine", exitOnce.Pos(), "no function runs exitOnce.Do: the exit effects are not protected against running twice", "")
	} else {
		cons := c.fname(quitFn)
		traces, complete := c.Trace(quitFn, cfg)
		if !complete {
			c.undecided("C16.exit-effects", cons, quitFn.Pos(), "path budget exceeded")
		} else {
			ok := true
			for _, t := range traces {
				if t.End != EndReturn {
					continue
				}
				onceAt, onceDepth := -1, 0
				nExit, nDec, nQClose, nConnClose := 0, 0, 0, 0
				connNil := false
				var exitRecv *Sym
				for i, e := range t.Events {
					if isOnceDo(e, exitOnce) {
						onceAt, onceDepth = i, e.Depth
					}
					inside := onceAt >= 0 && e.Depth > onceDepth
					eff := ""
					switch {
					case e.Kind == EvCall && e.Method != nil && e.Method.Name() == "OnExit":
						eff = "OnExit"
						nExit++
						exitRecv = e.Args[0]
					case isCount(e, "Dec"):
						eff = "count.Dec"
						nDec++
					case e.Kind == EvCall && e.Method != nil && e.Method.Name() == "Close" && len(e.Args) == 1:
						if _, isQ := isInitOfField(e.Args[0], sendQ); isQ {
							eff = "sendQ.Close"
							nQClose++
						} else if _, isC := isInitOfField(e.Args[0], conn); isC {
							eff = "conn.Close"
							nConnClose++
						}
					}
					if eff != "" && !inside && ok {
						ok = false
						c.violated("C16.exit-effects", cons, e.Pos, eff+" happens outside exitOnce.Do: with both loops ending it runs twice (exit callback twice, count decremented twice)", c.witness(t, i)...)
					}
					if e.Kind == EvBranch && e.Cond.Kind == KBin && e.Cond.Args[1].isNilConst() {
						if _, isC := isInitOfField(e.Cond.Args[0], conn); isC {
							connNil = (e.Cond.Op == token.NEQ && !e.Taken) || (e.Cond.Op == token.EQL && e.Taken)
						}
					}
				}
				wantConn := 1
				if connNil {
					wantConn = 0
				}
				if (nExit != 1 || nDec != 1 || nQClose != 1 || nConnClose != wantConn) && ok {
					ok = false
					c.violated("C16.exit-effects", cons, quitFn.Pos(), fmt.Sprintf("the exit routine does not perform each effect exactly once on this path: OnExit=%d count.Dec=%d sendQ.Close=%d conn.Close=%d", nExit, nDec, nQClose, nConnClose), c.witness(t, len(t.Events)-1)...)
				}
				// own handler if set, else the manager's
				if exitRecv != nil && ok {
					facts := t.factsBefore(len(t.Events))
					ownSet := hasFact(facts, func(f Fact) bool {
						_, isRh := isInitOfField(f.X, rh)
						return isRh && f.Op == token.NEQ && f.Y.isNilConst()
					})
					_, isOwn := isInitOfField(exitRecv, rh)
					_, isMgr := isInitOfField(exitRecv, mgrRh)
					ownNil := hasFact(facts, func(f Fact) bool {
						_, isRh := isInitOfField(f.X, rh)
						return isRh && f.Op == token.EQL && f.Y.isNilConst()
					})
					if (ownSet && !isOwn) || (!ownSet && !isMgr) || (isMgr && !ownNil) {
						ok = false
						c.violated("C16.exit-effects", cons, quitFn.Pos(), "the exit callback goes to the wrong handler (the session's own handler has priority when set, else the manager's)", c.witness(t, len(t.Events)-1)...)
					}
				}
			}
			if ok {
				c.holds("C16.exit-effects", cons, quitFn.Pos(), "OnExit, count.Dec, sendQ.Close, conn.Close exactly once, inside exitOnce.Do")
			}
		}
	}

	// (3) writers of the counter, syntactically over the whole package
	type site struct {
		fn  *ssa.Function
		pos token.Pos
		m   string
	}
	var sites []site
	for _, f := range c.funcsOf(rel) {
		for _, b := range f.Blocks {
			for _, in := range b.Instrs {
				call, ok := in.(*ssa.Call)
				if !ok || call.Call.StaticCallee() == nil || len(call.Call.Args) == 0 {
					continue
				}
				fa, ok := call.Call.Args[0].(*ssa.FieldAddr)
				if !ok || !sameField(fieldVar(fa.X.Type(), fa.Field), count) || !ownedBy(fa, "SessionMgr") {
					continue
				}
				m := counterSite(call)
				if m == "Load" || m == "String" {
					continue
				}
				sites = append(sites, site{f, in.Pos(), m})
			}
		}
	}
	nInc, nDec := 0, 0
	okW := true
	for _, s := range sites {
		switch s.m {
		case "Inc":
			nInc++
		case "Dec":
			nDec++
		default:
			okW = false
			c.violated("C16.count-writers", "SessionMgr.count", s.pos, "the connection counter is modified with "+s.m+" in "+c.fname(s.fn)+": only one Inc (session start) and one Dec (session exit) keep it balanced", "")
		}
	}
	if okW {
		c.check(nInc == 1 && nDec == 1, "C16.count-writers", "SessionMgr.count", count.Pos(), "exactly one Inc site and one Dec site", fmt.Sprintf("%d Inc sites and %d Dec sites on the connection counter (exactly one each is required for the count to return to its previous value)", nInc, nDec))
	}
	// Inc inside startOnce.Do, before the go statements, synchronously from SessionMgr.Do
	if fn := c.mustFn(rel, "(*SessionMgr).Do"); fn != nil {
		cons := "(*stcp.SessionMgr).Do"
		traces, _ := c.Trace(fn, cfg)
		ok, n := true, 0
		for _, t := range traces {
			if t.End != EndReturn {
				continue
			}
			n++
			onceAt, onceDepth, incAt := -1, 0, -1
			gos := 0
			for i, e := range t.Events {
				if isOnceDo(e, startOnce) {
					onceAt, onceDepth = i, e.Depth
				}
				if isCount(e, "Inc") {
					incAt = i
					if !(onceAt >= 0 && e.Depth > onceDepth) && ok {
						ok = false
						c.violated("C16.count-writers", cons, e.Pos, "count.Inc is outside startOnce.Do: a second Start counts the session twice", c.witness(t, i)...)
					}
				}
				if e.Kind == EvGo {
					gos++
					if incAt < 0 && ok {
						ok = false
						c.violated("C16.count-writers", cons, e.Pos, "a session goroutine is started before the connection is counted: it can exit (and decrement) first, and the accept loop sees a stale count", c.witness(t, i)...)
					}
				}
			}
			if incAt < 0 && ok {
				ok = false
				c.violated("C16.count-writers", cons, fn.Pos(), "the connection is not counted synchronously when the manager accepts it (Inc is missing or happens on another goroutine): the accept loop can exceed the maximum", c.witness(t, len(t.Events)-1)...)
			}
			if gos != 2 && ok {
				ok = false
				c.violated("C16.count-writers", cons, fn.Pos(), fmt.Sprintf("%d session goroutines are started instead of the send and the receive loop", gos), c.witness(t, len(t.Events)-1)...)
			}
		}
		if ok && n > 0 {
			c.holds("C16.count-writers", cons, fn.Pos(), "Inc inside startOnce.Do, synchronously, before both go statements")
		}
	}

	// (3b) the reply-style sibling (Echo): the same counting discipline on EchoMgr.count — counted once, inside
	// startOnce.Do, synchronously when the manager accepts the connection and before the handler goroutine starts;
	// given back by ReleaseRef only
	if ecount, eonce := c.mustField(rel, "EchoMgr", "count"), c.mustField(rel, "Echo", "startOnce"); ecount != nil && eonce != nil {
		incs, decs, others := 0, 0, 0
		var decFn string
		for _, f := range c.funcsOf(rel) {
			for _, b := range f.Blocks {
				for _, in := range b.Instrs {
					call, ok := in.(*ssa.Call)
					if !ok || call.Call.StaticCallee() == nil || len(call.Call.Args) == 0 {
						continue
					}
					fa, ok := call.Call.Args[0].(*ssa.FieldAddr)
					if !ok || !sameField(fieldVar(fa.X.Type(), fa.Field), ecount) || !ownedBy(fa, "EchoMgr") {
						continue
					}
					switch counterSite(call) {
					case "Load", "String":
					case "Inc":
						incs++
					case "Dec":
						decs++
						decFn = f.Name()
						// a small method introduced around the decrement (connClosed) stands for its only caller
						if c.isNewHelper(f) {
							callers := map[string]bool{}
							for _, g := range c.funcsOf(rel) {
								for _, gb := range g.Blocks {
									for _, gi := range gb.Instrs {
										if gc, isCall := gi.(ssa.CallInstruction); isCall && gc.Common().StaticCallee() == f {
											callers[g.Name()] = true
										}
									}
								}
							}
							if len(callers) == 1 {
								for k := range callers {
									decFn = k
								}
							}
						}
					default:
						others++
					}
				}
			}
		}
		c.check(incs == 1 && decs == 1 && others == 0 && decFn == "ReleaseRef", "C16.count-writers", "EchoMgr.count", ecount.Pos(), "one Inc (Start) and one Dec (ReleaseRef)", fmt.Sprintf("the echo connection counter has %d Inc, %d Dec (in %s) and %d other writers: exactly one Inc at start and one Dec in ReleaseRef keep it balanced", incs, decs, decFn, others))
		if fn := c.mustFn(rel, "(*EchoMgr).Do"); fn != nil {
			cons := "(*stcp.EchoMgr).Do"
			traces, _ := c.Trace(fn, cfg)
			ok, n := true, 0
			for _, t := range traces {
				if t.End != EndReturn {
					continue
				}
				n++
				onceAt, onceDepth, incAt, gos := -1, 0, -1, 0
				for i, e := range t.Events {
					if isOnceDo(e, eonce) {
						onceAt, onceDepth = i, e.Depth
					}
					if isCounterOp(e, ecount, "Inc") {
						incAt = i
						if !(onceAt >= 0 && e.Depth > onceDepth) {
							ok = false
						}
					}
					if e.Kind == EvGo {
						gos++
						if incAt < 0 {
							ok = false
						}
					}
				}
				if incAt < 0 || gos != 1 {
					ok = false
				}
			}
			c.check(ok && n > 0, "C16.count-writers", cons, fn.Pos(), "Inc inside startOnce.Do, synchronously, before the handler goroutine", "an echo connection is not counted exactly once, synchronously on accept and before its handler goroutine starts: the accept loop's maximum can be exceeded or the count never returns")
		}
	}

	// (4) accept guard
	c.checkAcceptGuard(cfg)

	// (5a) Send enqueues the caller's bytes at the back of the send queue (order of Sends = order on the wire)
	if fn := c.mustFn(rel, "(*Session).Send"); fn != nil {
		traces, _ := c.Trace(fn, cfg)
		ok, n := true, 0
		for _, t := range traces {
			if t.End != EndReturn {
				continue
			}
			var add *Event
			adds := 0
			for _, e := range t.Events {
				if e.Kind == EvCall && e.Method != nil && strings.HasPrefix(e.Method.Name(), "Add") {
					add = e
					adds++
				}
			}
			n++
			good := adds == 1 && add.Method.Name() == "AddReq" && len(add.Args) == 2 && add.Args[1].strip().Key() == t.Params[1].Key() && t.Ret[0].Key() == add.Res.Key()
			if good {
				_, isQ := isInitOfField(add.Args[0], sendQ)
				good = isQ
			}
			if !good && ok {
				ok = false
				c.violated("C16.flush", "(*stcp.Session).Send", fn.Pos(), "Send does not append exactly the caller's bytes to the back of the send queue and return the queue's answer: bytes are reordered (prior add), duplicated, or a refused send is reported as accepted", c.witness(t, len(t.Events)-1)...)
			}
		}
		if ok && n > 0 {
			c.holds("C16.flush", "(*stcp.Session).Send", fn.Pos(), "sendQ.AddReq(bs)")
		}
	}

	// (5b) Close only closes the send queue
	if fn := c.mustFn(rel, "(*Session).Close"); fn != nil {
		traces, _ := c.Trace(fn, cfg)
		ok, qclosed := true, false
		for _, t := range traces {
			for i, e := range t.Events {
				if e.Kind == EvCall && e.Method != nil && e.Method.Name() == "Close" && len(e.Args) == 1 {
					if _, isQ := isInitOfField(e.Args[0], sendQ); isQ {
						qclosed = true
					} else if ok {
						ok = false
						c.violated("C16.flush", "(*stcp.Session).Close", e.Pos, "a local Close closes something other than the send queue directly (e.g. the connection): bytes accepted by Send before Close are cut off instead of flushed", c.witness(t, i)...)
					}
				}
				if isOnceDo(e, exitOnce) && ok {
					ok = false
					c.violated("C16.flush", "(*stcp.Session).Close", e.Pos, "a local Close runs the exit routine itself: the connection closes before the queued bytes are written", c.witness(t, i)...)
				}
			}
		}
		c.check(ok && qclosed, "C16.flush", "(*stcp.Session).Close", fn.Pos(), "only sendQ.Close", "Session.Close does not close the send queue (the loops never end)")
	}
}

func (c *Ctx) checkFlush(fn *ssa.Function, traces []*Trace, sendQ, conn *types.Var) {
	cons := "(*stcp.Session).loopSend"
	ok, iters := true, 0
	for _, t := range traces {
		var deq []int
		for i, e := range t.Events {
			if e.Kind == EvCall && e.Method != nil && (e.Method.Name() == "PopAnyway" || e.Method.Name() == "Pop") && len(e.Args) == 1 {
				if _, isQ := isInitOfField(e.Args[0], sendQ); isQ {
					deq = append(deq, i)
					if e.Method.Name() == "Pop" && ok {
						ok = false
						c.violated("C16.flush", cons, e.Pos, "the send loop dequeues with Pop: after a local Close the bytes still queued are dropped instead of written", c.witness(t, i)...)
					}
				}
			}
		}
		for k, di := range deq {
			end := len(t.Events)
			if k+1 < len(deq) {
				end = deq[k+1]
			}
			if !(k+1 < len(deq) || t.End == EndCut) {
				continue // the last segment of an exiting path is judged by exit-always
			}
			iters++
			item := t.Events[di].Res.Args[0]
			wrote := false
			for j := di + 1; j < end; j++ {
				e := t.Events[j]
				if e.Kind == EvCall && e.Method != nil && e.Method.Name() == "Write" && len(e.Args) == 2 {
					if _, isC := isInitOfField(e.Args[0], conn); isC {
						a := e.Args[1]
						if a.Kind == KOp && a.Name == "typeassert" && a.Args[0].Key() == item.Key() {
							wrote = true
						}
					}
				}
			}
			if !wrote && ok {
				ok = false
				c.violated("C16.flush", cons, t.Events[di].Pos, "the loop goes on to the next dequeue without having written the item it took: bytes are lost or reordered", c.witness(t, end-1)...)
			}
		}
	}
	if iters == 0 {
		c.undecided("C16.flush", cons, fn.Pos(), "no complete loop iteration found")
	} else if ok {
		c.holds("C16.flush", cons, fn.Pos(), fmt.Sprintf("%d iterations: PopAnyway then conn.Write(item) before the next dequeue", iters))
	}
}

func (c *Ctx) checkAcceptGuard(cfg TraceConfig) {
	const rel = "stcp"
	fn := c.mustFn(rel, "(*Server).loopAccept")
	maxConn := c.mustField(rel, "_SrvStartOpt", "maxConn")
	if fn == nil || maxConn == nil {
		return
	}
	// the maximum the loop compares with is the one the caller configured: LoopStart writes the field only before it
	// applies the caller's options (defaults first), never afterwards
	if ls := c.mustFn(rel, "(*Server).LoopStart"); ls != nil {
		lts, _ := c.Trace(ls, TraceConfig{Inline: func(callee *ssa.Function, depth int) bool {
			return depth < 3 && callee.Pkg == ls.Pkg && callee.Signature.Recv() == nil
		}})
		okCfg, seenOpt := true, false
		for _, t := range lts {
			optAt := -1
			for i, e := range t.Events {
				if e.Kind == EvCall && e.Callee == nil && e.Method == nil && e.Val != nil && optAt < 0 {
					// a call through a function value taken from the options slice
					if strings.Contains(e.Val.Key(), "$"+ls.Params[len(ls.Params)-1].Name()) {
						optAt = i
						seenOpt = true
					}
				}
				if e.Kind == EvStore && e.Addr.isFieldAddrOf(maxConn) && optAt >= 0 && okCfg {
					okCfg = false
					c.violated("C16.accept-guard", "(*stcp.Server).LoopStart maxConn", e.Pos, "the connection limit is written after the caller's options were applied: a configured maximum (e.g. 0) is replaced and the count exceeds it", c.witness(t, i)...)
				}
			}
		}
		if okCfg && seenOpt {
			c.holds("C16.accept-guard", "(*stcp.Server).LoopStart maxConn", ls.Pos(), "maxConn written only before the options are applied")
		} else if okCfg {
			c.undecided("C16.accept-guard", "(*stcp.Server).LoopStart maxConn", ls.Pos(), "no application of the caller's options found in LoopStart")
		}
	}
	cons := "(*stcp.Server).loopAccept"
	traces, complete := c.Trace(fn, cfg)
	if !complete {
		c.undecided("C16.accept-guard", cons, fn.Pos(), "path budget exceeded")
		return
	}
	ok, n := true, 0
	for _, t := range traces {
		// iterations: Accept calls
		var acc []int
		for i, e := range t.Events {
			if e.Kind == EvCall && e.Method != nil && e.Method.Name() == "Accept" {
				acc = append(acc, i)
			}
		}
		for k, ai := range acc {
			end := len(t.Events)
			if k+1 < len(acc) {
				end = acc[k+1]
			}
			if !(k+1 < len(acc) || t.End == EndCut) {
				continue
			}
			a := t.Events[ai]
			connv, errv := a.Res.Args[0], a.Res.Args[1]
			facts := t.factsBefore(end)
			accepted := hasFact(facts, func(f Fact) bool { return f.X.Key() == errv.Key() && f.Op == token.EQL && f.Y.isNilConst() })
			if !accepted {
				continue
			}
			n++
			handed, closed := 0, 0
			var cnt *Sym
			for j := ai + 1; j < end; j++ {
				e := t.Events[j]
				if e.Kind == EvCall && e.Method != nil && e.Method.Name() == "ConnCount" {
					cnt = e.Res
				}
				if e.Kind == EvCall && e.Method != nil && e.Method.Name() == "Do" && len(e.Args) == 2 && e.Args[1].Key() == connv.Key() {
					handed++
					below := cnt != nil && hasFact(facts, func(f Fact) bool {
						return f.X.Key() == cnt.Key() && f.Op == token.LSS && loadedFrom(t, f.Y, maxConn, ai, end)
					})
					if !below && ok {
						ok = false
						c.violated("C16.accept-guard", cons, e.Pos, "a connection is handed to the manager without `ConnCount() < maxConn` established for this connection: the count can exceed the configured maximum", c.witness(t, j)...)
					}
				}
				if e.Kind == EvCall && e.Method != nil && e.Method.Name() == "Close" && len(e.Args) == 1 && e.Args[0].Key() == connv.Key() {
					closed++
				}
			}
			if handed+closed != 1 && ok {
				ok = false
				c.violated("C16.accept-guard", cons, a.Pos, fmt.Sprintf("an accepted connection is handed over %d times and closed %d times (exactly one of the two is required: a surplus connection must be closed, an admitted one must not)", handed, closed), c.witness(t, end-1)...)
			}
		}
	}
	if n == 0 {
		c.undecided("C16.accept-guard", cons, fn.Pos(), "no accepted-connection iteration found")
	} else if ok {
		c.holds("C16.accept-guard", cons, fn.Pos(), fmt.Sprintf("%d accepted-connection iterations", n))
	}
}

// ownedBy: the field access fa goes through an object of the named struct type — directly, or through a struct
// embedded in it (a counter moved into a base struct shared by the two managers is still each manager's own counter).
func ownedBy(fa *ssa.FieldAddr, typ string) bool {
	name := func(t types.Type) string {
		if p, ok := t.Underlying().(*types.Pointer); ok {
			t = p.Elem()
		}
		if n, ok := t.(*types.Named); ok {
			return n.Obj().Name()
		}
		return ""
	}
	if name(fa.X.Type()) == typ {
		return true
	}
	// through embedded structs
	for x := fa.X; ; {
		in, ok := x.(*ssa.FieldAddr)
		if !ok {
			return false
		}
		f := fieldVar(in.X.Type(), in.Field)
		if f == nil || !f.Embedded() {
			return false
		}
		if name(in.X.Type()) == typ {
			return true
		}
		x = in.X
	}
}
