package main

import (
	"go/constant"
	"go/types"

	"golang.org/x/tools/go/ssa"
)

func constantStringVal(s *Sym) string { return constant.StringVal(s.Const) }

// immutableField reports whether a struct field of a module type is never written (and its address never
// escapes) outside functions that write it through an object they allocated themselves (constructors).
// Such cells survive havoc: no other goroutine or callee can change them.
func (c *Ctx) immutableField(f *types.Var) bool {
	if f == nil {
		return false
	}
	if c.mutFields == nil {
		c.computeMutableFields()
	}
	if !c.inModule(f.Pkg()) {
		return false
	}
	return !c.mutFields[f.Origin()]
}

func (c *Ctx) computeMutableFields() {
	c.mutFields = map[*types.Var]bool{}
	for fn := range allFunctions(c.Prog) {
		if !c.fnInModule(fn) {
			continue
		}
		for _, b := range fn.Blocks {
			for _, in := range b.Instrs {
				fa, ok := in.(*ssa.FieldAddr)
				if !ok {
					continue
				}
				if c.fieldAddrMutated(fa, 0) {
					// the whole chain of enclosing fields is mutable
					var v ssa.Value = fa
					for {
						x, ok := v.(*ssa.FieldAddr)
						if !ok {
							break
						}
						if fv := fieldVar(x.X.Type(), x.Field); fv != nil {
							c.mutFields[fv.Origin()] = true
						}
						v = x.X
					}
				}
			}
		}
	}
}

// fieldAddrMutated: is the address used for anything but loads (or stores through a locally allocated object)?
func (c *Ctx) fieldAddrMutated(fa ssa.Value, depth int) bool {
	refs := fa.Referrers()
	if refs == nil {
		return true
	}
	for _, r := range *refs {
		switch r := r.(type) {
		case *ssa.UnOp:
			// load
		case *ssa.Store:
			if r.Addr != fa {
				return true // the address itself is stored somewhere
			}
			if rootAlloc(fa) == nil {
				return true
			}
		case *ssa.FieldAddr:
			if depth < 4 && c.fieldAddrMutated(r, depth+1) {
				return true
			}
		case *ssa.IndexAddr:
			if depth < 4 && c.fieldAddrMutated(r, depth+1) {
				return true
			}
		case *ssa.DebugRef:
		default:
			return true
		}
	}
	return false
}

func allFunctions(prog *ssa.Program) map[*ssa.Function]bool {
	seen := map[*ssa.Function]bool{}
	var add func(f *ssa.Function)
	add = func(f *ssa.Function) {
		if f == nil || seen[f] {
			return
		}
		seen[f] = true
		for _, a := range f.AnonFuncs {
			add(a)
		}
	}
	for _, p := range prog.AllPackages() {
		for _, m := range p.Members {
			switch m := m.(type) {
			case *ssa.Function:
				add(m)
			case *ssa.Type:
				if named, ok := m.Type().(*types.Named); ok {
					for i := 0; i < named.NumMethods(); i++ {
						add(prog.FuncValue(named.Method(i)))
					}
				}
			}
		}
	}
	return seen
}

// nonNilGlobalContent: s is the content of a package-level variable that is assigned exactly once, in
// package initialisation, from an error constructor (errors.New, fmt.Errorf, status.Error/Errorf): the
// usual `var ErrX = errors.New(...)` sentinel. Such a value is never nil.
func (c *Ctx) nonNilGlobalContent(s *Sym) bool {
	s = s.strip()
	if s == nil || s.Kind != KInit || s.Args[0].Kind != KGlobal {
		return false
	}
	g := s.Args[0].Ref.(*ssa.Global)
	if c.nonNilGlobals == nil {
		c.nonNilGlobals = map[*ssa.Global]bool{}
		c.nonNilDone = map[*ssa.Global]bool{}
	}
	if c.nonNilDone[g] {
		return c.nonNilGlobals[g]
	}
	c.nonNilDone[g] = true
	if g.Pkg == nil || c.globalMutable(g) {
		return false
	}
	initFn := g.Pkg.Func("init")
	if initFn == nil {
		return false
	}
	n, good := 0, true
	for _, b := range initFn.Blocks {
		for _, in := range b.Instrs {
			st, ok := in.(*ssa.Store)
			if !ok || st.Addr != ssa.Value(g) {
				continue
			}
			n++
			v := st.Val
			if mi, ok := v.(*ssa.MakeInterface); ok {
				v = mi.X
			}
			call, ok := v.(*ssa.Call)
			if !ok || call.Call.StaticCallee() == nil {
				good = false
				continue
			}
			switch call.Call.StaticCallee().String() {
			case "errors.New", "fmt.Errorf", "google.golang.org/grpc/status.Error", "google.golang.org/grpc/status.Errorf":
			default:
				good = false
			}
		}
	}
	c.nonNilGlobals[g] = n == 1 && good
	return c.nonNilGlobals[g]
}
