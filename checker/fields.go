package main

import (
	"go/constant"
	"go/token"
	"go/types"
	"strings"

	"golang.org/x/tools/go/ssa"
)

func constantStringVal(s *Sym) string { return constant.StringVal(s.Const) }

// immutableField reports whether a struct field of a module type is never written (and its address never
// escapes) outside functions that write it through an object they allocated themselves (constructors).
// Such cells survive havoc: no other goroutine or callee can change them.
func (c *Ctx) immutableField(f *types.Var) bool {
	if f == nil {
		return false
	}
	if c.mutFields == nil {
		c.computeMutableFields()
	}
	if !c.inModule(f.Pkg()) {
		return false
	}
	return !c.mutFields[f.Origin()]
}

func (c *Ctx) computeMutableFields() {
	c.mutFields = map[*types.Var]bool{}
	for fn := range allFunctions(c.Prog) {
		if !c.fnInModule(fn) {
			continue
		}
		for _, b := range fn.Blocks {
			for _, in := range b.Instrs {
				fa, ok := in.(*ssa.FieldAddr)
				if !ok {
					continue
				}
				if c.fieldAddrMutated(fa, 0) {
					// the whole chain of enclosing fields is mutable
					var v ssa.Value = fa
					for {
						x, ok := v.(*ssa.FieldAddr)
						if !ok {
							break
						}
						if fv := fieldVar(x.X.Type(), x.Field); fv != nil {
							c.mutFields[fv.Origin()] = true
						}
						v = x.X
					}
				}
			}
		}
	}
}

// fieldAddrMutated: is the address used for anything but loads (or stores through a locally allocated object)?
func (c *Ctx) fieldAddrMutated(fa ssa.Value, depth int) bool {
	refs := fa.Referrers()
	if refs == nil {
		return true
	}
	for _, r := range *refs {
		switch r := r.(type) {
		case *ssa.UnOp:
			// load
		case *ssa.Store:
			if r.Addr != fa {
				return true // the address itself is stored somewhere
			}
			if rootAlloc(fa) == nil && !c.freshOnlyParam(rootParam(fa), 0) {
				return true
			}
		case *ssa.FieldAddr:
			if depth < 4 && c.fieldAddrMutated(r, depth+1) {
				return true
			}
		case *ssa.IndexAddr:
			if depth < 4 && c.fieldAddrMutated(r, depth+1) {
				return true
			}
		case *ssa.DebugRef:
		default:
			return true
		}
	}
	return false
}

func allFunctions(prog *ssa.Program) map[*ssa.Function]bool {
	seen := map[*ssa.Function]bool{}
	var add func(f *ssa.Function)
	add = func(f *ssa.Function) {
		if f == nil || seen[f] {
			return
		}
		seen[f] = true
		for _, a := range f.AnonFuncs {
			add(a)
		}
	}
	for _, p := range prog.AllPackages() {
		for _, m := range p.Members {
			switch m := m.(type) {
			case *ssa.Function:
				add(m)
			case *ssa.Type:
				if named, ok := m.Type().(*types.Named); ok {
					for i := 0; i < named.NumMethods(); i++ {
						add(prog.FuncValue(named.Method(i)))
					}
				}
			}
		}
	}
	return seen
}

// nonNilGlobalContent: s is the content of a package-level variable that is assigned exactly once, in
// package initialisation, from an error constructor (errors.New, fmt.Errorf, status.Error/Errorf): the
// usual `var ErrX = errors.New(...)` sentinel. Such a value is never nil.
func (c *Ctx) nonNilGlobalContent(s *Sym) bool {
	s = s.strip()
	if s == nil || s.Kind != KInit || s.Args[0].Kind != KGlobal {
		return false
	}
	g := s.Args[0].Ref.(*ssa.Global)
	if c.nonNilGlobals == nil {
		c.nonNilGlobals = map[*ssa.Global]bool{}
		c.nonNilDone = map[*ssa.Global]bool{}
	}
	if c.nonNilDone[g] {
		return c.nonNilGlobals[g]
	}
	c.nonNilDone[g] = true
	if g.Pkg == nil || c.globalMutable(g) {
		return false
	}
	initFn := g.Pkg.Func("init")
	if initFn == nil {
		return false
	}
	n, good := 0, true
	for _, b := range initFn.Blocks {
		for _, in := range b.Instrs {
			st, ok := in.(*ssa.Store)
			if !ok || st.Addr != ssa.Value(g) {
				continue
			}
			n++
			v := st.Val
			if mi, ok := v.(*ssa.MakeInterface); ok {
				v = mi.X
			}
			call, ok := v.(*ssa.Call)
			if !ok || call.Call.StaticCallee() == nil {
				good = false
				continue
			}
			switch call.Call.StaticCallee().String() {
			case "errors.New", "fmt.Errorf", "google.golang.org/grpc/status.Error", "google.golang.org/grpc/status.Errorf":
			default:
				good = false
			}
		}
	}
	c.nonNilGlobals[g] = n == 1 && good
	return c.nonNilGlobals[g]
}

// pureModuleFn: a module function that (transitively) writes no non-local memory, starts/defer nothing,
// performs no channel operation and calls nothing that could: a getter / formatter / logging-argument
// helper. Such calls need not be entered by the path enumerator and do not disturb the abstract store.
func (c *Ctx) pureModuleFn(f *ssa.Function) bool {
	if c.pureMemo == nil {
		c.pureMemo = map[*ssa.Function]int{}
	}
	switch c.pureMemo[f] {
	case 1:
		return true
	case 2:
		return false
	case 3:
		return true // recursion: optimistic, the cycle is decided by its other members
	}
	if len(f.Blocks) == 0 {
		return false
	}
	c.pureMemo[f] = 3
	pure := true
	for _, b := range f.Blocks {
		for _, in := range b.Instrs {
			switch in := in.(type) {
			case *ssa.Store:
				if rootAlloc(in.Addr) == nil {
					pure = false
				}
			case *ssa.MapUpdate, *ssa.Send, *ssa.Go, *ssa.Defer, *ssa.Select, *ssa.Panic:
				pure = false
			case *ssa.UnOp:
				if in.Op.String() == "<-" {
					pure = false
				}
			case *ssa.Call:
				cc := in.Common()
				if bi, ok := cc.Value.(*ssa.Builtin); ok {
					switch bi.Name() {
					case "close", "delete", "recover", "panic", "copy":
						pure = false
					}
					continue
				}
				if cc.IsInvoke() {
					if cc.Method.Pkg() != nil && c.inModule(cc.Method.Pkg()) {
						pure = false
					}
					// I/O through net / io interfaces is an effect the rules want to see
					if cc.Method.Pkg() != nil && (cc.Method.Pkg().Path() == "net" || cc.Method.Pkg().Path() == "io") {
						switch cc.Method.Name() {
						case "RemoteAddr", "LocalAddr", "String", "Network":
						default:
							pure = false
						}
					}
					continue
				}
				callee := cc.StaticCallee()
				if callee == nil {
					pure = false
					continue
				}
				if c.fnInModule(callee) {
					if !c.pureModuleFn(callee) {
						pure = false
					}
					continue
				}
				// external static callee: impure if it is a known synchronisation / mutation primitive
				n := callee.String()
				if strings.HasPrefix(n, "(*sync.") || strings.HasPrefix(n, "(*go.uber.org/atomic.") && !strings.HasSuffix(n, ".Load") || strings.HasPrefix(n, "(*sync/atomic.") && !strings.HasSuffix(n, ".Load") || strings.HasPrefix(n, "(*container/") || strings.HasPrefix(n, "container/heap.") {
					pure = false
				}
				for _, a := range cc.Args {
					if _, isSig := a.Type().Underlying().(*types.Signature); isSig {
						pure = false
					}
				}
			}
			if !pure {
				break
			}
		}
		if !pure {
			break
		}
	}
	if pure {
		c.pureMemo[f] = 1
	} else {
		c.pureMemo[f] = 2
	}
	return pure
}

// initOnlyGlobal: a package variable whose elements/fields are written only by package initialisation
// (its address is never stored to, or passed on, by any other function of the module).
func (c *Ctx) initOnlyGlobal(g *ssa.Global) bool {
	if c.initOnly == nil {
		c.initOnly = map[*ssa.Global]bool{}
		c.initOnlyDone = map[*ssa.Global]bool{}
	}
	if c.initOnlyDone[g] {
		return c.initOnly[g]
	}
	c.initOnlyDone[g] = true
	if g.Pkg == nil || !c.inModule(g.Pkg.Pkg) {
		return false
	}
	ok := true
	for fn := range allFunctions(c.Prog) {
		if fn.Pkg != g.Pkg || fn.Name() == "init" || strings.HasPrefix(fn.Name(), "init#") {
			continue
		}
		for _, b := range fn.Blocks {
			for _, in := range b.Instrs {
				for _, op := range in.Operands(nil) {
					if *op != ssa.Value(g) {
						continue
					}
					// allowed uses: load of the variable, or element/field address used only for loads
					switch u := in.(type) {
					case *ssa.UnOp:
					case *ssa.IndexAddr, *ssa.FieldAddr:
						if c.fieldAddrMutated(u.(ssa.Value), 0) {
							ok = false
						}
					default:
						ok = false
					}
				}
			}
		}
	}
	c.initOnly[g] = ok
	return ok
}

// globalAlias: a module package variable that package initialisation sets once to the value of another
// package variable (var text = base64.RawStdEncoding) and that nothing else writes is the same value under
// another name; loads of it are loads of the original.
func (c *Ctx) globalAlias(g *ssa.Global) *ssa.Global {
	if c.aliasOf == nil {
		c.aliasOf = map[*ssa.Global]*ssa.Global{}
	}
	if a, ok := c.aliasOf[g]; ok {
		return a
	}
	c.aliasOf[g] = g
	if g.Pkg == nil || !c.inModule(g.Pkg.Pkg) || !c.initOnlyGlobal(g) {
		return g
	}
	var target *ssa.Global
	n := 0
	for _, m := range g.Pkg.Members {
		fn, ok := m.(*ssa.Function)
		if !ok || fn.Name() != "init" {
			continue
		}
		for _, b := range fn.Blocks {
			for _, in := range b.Instrs {
				st, ok := in.(*ssa.Store)
				if !ok || st.Addr != ssa.Value(g) {
					continue
				}
				n++
				if u, ok := st.Val.(*ssa.UnOp); ok && u.Op == token.MUL {
					if t, ok := u.X.(*ssa.Global); ok && t != g {
						target = t
					}
				}
			}
		}
	}
	if n != 1 || target == nil || !types.Identical(target.Type(), g.Type()) {
		return g
	}
	if target.Pkg != nil && c.inModule(target.Pkg.Pkg) && !c.initOnlyGlobal(target) {
		return g
	}
	// initOnlyGlobal ignores the init functions themselves; the alias must also not be re-assigned by init#n
	for _, m := range g.Pkg.Members {
		fn, ok := m.(*ssa.Function)
		if !ok || !strings.HasPrefix(fn.Name(), "init#") {
			continue
		}
		for _, b := range fn.Blocks {
			for _, in := range b.Instrs {
				if st, ok := in.(*ssa.Store); ok && st.Addr == ssa.Value(g) {
					return g
				}
			}
		}
	}
	c.aliasOf[g] = c.globalAlias(target)
	return c.aliasOf[g]
}

// rootParam: the parameter a field/element address is computed from (p.f.g -> p), nil otherwise.
func rootParam(v ssa.Value) *ssa.Parameter {
	for i := 0; i < 8; i++ {
		switch x := v.(type) {
		case *ssa.Parameter:
			return x
		case *ssa.FieldAddr:
			v = x.X
		case *ssa.IndexAddr:
			v = x.X
		default:
			return nil
		}
	}
	return nil
}

// freshOnlyParam: the parameter of an unexported function that is only ever called directly, and at every call
// site receives (part of) an object its caller has just allocated — a constructor's helper (`n.init(node)` in
// NewNode): what it stores into that object is construction, not mutation.
func (c *Ctx) freshOnlyParam(p *ssa.Parameter, depth int) bool {
	if p == nil || depth > 2 {
		return false
	}
	fn := p.Parent()
	if fn == nil || fn.Pkg == nil || fn.Parent() != nil || token.IsExported(fn.Name()) || !c.fnInModule(fn) {
		return false
	}
	idx := -1
	for i, q := range fn.Params {
		if q == p {
			idx = i
		}
	}
	if idx < 0 {
		return false
	}
	if fn.Signature.Recv() != nil {
		// not reachable through an interface of its package
		sc := fn.Pkg.Pkg.Scope()
		for _, n := range sc.Names() {
			tn, ok := sc.Lookup(n).(*types.TypeName)
			if !ok {
				continue
			}
			if it, ok := tn.Type().Underlying().(*types.Interface); ok {
				for i := 0; i < it.NumMethods(); i++ {
					if it.Method(i).Name() == fn.Name() {
						return false
					}
				}
			}
		}
	}
	if c.callersOf == nil {
		c.callersOf = map[*ssa.Function][]ssa.CallInstruction{}
		c.usedAsValue = map[*ssa.Function]bool{}
		for f := range allFunctions(c.Prog) {
			if !c.fnInModule(f) {
				continue
			}
			for _, b := range f.Blocks {
				for _, in := range b.Instrs {
					var callee ssa.Value
					if ci, ok := in.(ssa.CallInstruction); ok && !ci.Common().IsInvoke() {
						callee = ci.Common().Value
						if g, ok := callee.(*ssa.Function); ok {
							c.callersOf[g] = append(c.callersOf[g], ci)
						}
					}
					for _, op := range in.Operands(nil) {
						if g, ok := (*op).(*ssa.Function); ok && (callee == nil || op != callOperand(in)) {
							c.usedAsValue[g] = true
						}
					}
				}
			}
		}
	}
	if c.usedAsValue[fn] || len(c.callersOf[fn]) == 0 {
		return false
	}
	for _, ci := range c.callersOf[fn] {
		args := ci.Common().Args
		if idx >= len(args) {
			return false
		}
		if _, isGo := ci.(*ssa.Go); isGo {
			return false
		}
		a := args[idx]
		if rootAlloc(a) != nil {
			continue
		}
		if !c.freshOnlyParam(rootParam(a), depth+1) {
			return false
		}
	}
	return true
}

// callOperand: the operand slot of a call instruction that holds the callee.
func callOperand(in ssa.Instruction) *ssa.Value {
	if ci, ok := in.(ssa.CallInstruction); ok {
		return &ci.Common().Value
	}
	return nil
}
