package main

import (
	"go/constant"
	"go/types"

	"golang.org/x/tools/go/ssa"
)

func constantStringVal(s *Sym) string { return constant.StringVal(s.Const) }

// immutableField reports whether a struct field of a module type is never written (and its address never
// escapes) outside functions that write it through an object they allocated themselves (constructors).
// Such cells survive havoc: no other goroutine or callee can change them.
func (c *Ctx) immutableField(f *types.Var) bool {
	if f == nil {
		return false
	}
	if c.mutFields == nil {
		c.computeMutableFields()
	}
	if !c.inModule(f.Pkg()) {
		return false
	}
	return !c.mutFields[f.Origin()]
}

func (c *Ctx) computeMutableFields() {
	c.mutFields = map[*types.Var]bool{}
	for fn := range allFunctions(c.Prog) {
		if !c.fnInModule(fn) {
			continue
		}
		for _, b := range fn.Blocks {
			for _, in := range b.Instrs {
				fa, ok := in.(*ssa.FieldAddr)
				if !ok {
					continue
				}
				if c.fieldAddrMutated(fa, 0) {
					// the whole chain of enclosing fields is mutable
					var v ssa.Value = fa
					for {
						x, ok := v.(*ssa.FieldAddr)
						if !ok {
							break
						}
						if fv := fieldVar(x.X.Type(), x.Field); fv != nil {
							c.mutFields[fv.Origin()] = true
						}
						v = x.X
					}
				}
			}
		}
	}
}

// fieldAddrMutated: is the address used for anything but loads (or stores through a locally allocated object)?
func (c *Ctx) fieldAddrMutated(fa ssa.Value, depth int) bool {
	refs := fa.Referrers()
	if refs == nil {
		return true
	}
	for _, r := range *refs {
		switch r := r.(type) {
		case *ssa.UnOp:
			// load
		case *ssa.Store:
			if r.Addr != fa {
				return true // the address itself is stored somewhere
			}
			if rootAlloc(fa) == nil {
				return true
			}
		case *ssa.FieldAddr:
			if depth < 4 && c.fieldAddrMutated(r, depth+1) {
				return true
			}
		case *ssa.IndexAddr:
			if depth < 4 && c.fieldAddrMutated(r, depth+1) {
				return true
			}
		case *ssa.DebugRef:
		default:
			return true
		}
	}
	return false
}

func allFunctions(prog *ssa.Program) map[*ssa.Function]bool {
	seen := map[*ssa.Function]bool{}
	var add func(f *ssa.Function)
	add = func(f *ssa.Function) {
		if f == nil || seen[f] {
			return
		}
		seen[f] = true
		for _, a := range f.AnonFuncs {
			add(a)
		}
	}
	for _, p := range prog.AllPackages() {
		for _, m := range p.Members {
			switch m := m.(type) {
			case *ssa.Function:
				add(m)
			case *ssa.Type:
				if named, ok := m.Type().(*types.Named); ok {
					for i := 0; i < named.NumMethods(); i++ {
						add(prog.FuncValue(named.Method(i)))
					}
				}
			}
		}
	}
	return seen
}
