package main

import (
	"fmt"
	"go/token"
	"go/types"
	"math/big"
	"strings"

	"golang.org/x/tools/go/ssa"
)

func init() {
	register(&Property{
		ID:       "C01",
		Patterns: []string{"./syncx/semap"},
		Explanation: "Decides structural necessary conditions of the semaphore-map contract on every enumerated path of every public method " +
			"(callees inlined, loops: first + generalised iteration): (1) cur/waiters/m are only touched with SemMap.mux held and no public method " +
			"returns holding it; (2) every increase of cur is either the fast path under `size-cur>=n AND waiters empty` or a hand-off to the element " +
			"that is waiters.Front() under `size-cur>=w.n`; (3) a hand-off updates cur, removes that element and closes that waiter's channel together, " +
			"and nothing is granted after the first waiter that does not fit; (4) the cancel path re-locks, prefers a grant that already happened, decides " +
			"front-ness before removing itself, removes itself and re-notifies when it was at the front and tokens are left; (5) a map entry is deleted only " +
			"when it has no waiters AND no holders, and a fresh entry is inserted before the mutex is released; (6) read weight 1, write weight rwRatio = capacity, " +
			"release returns the weight acquire took. NOT decided: that admitted callers overlap only as allowed under every schedule (follows informally from 1-5), timing ('at once'), rwRatio<1.",
		Assumptions: []string{"container/list and sync behave as documented", "paths: loops are explored for the first and one generalised iteration"},
		Floors:      map[string]int{"C01.guarded-by": 6, "C01.lock-balance": 8, "C01.grant-guard": 2, "C01.grant-triple": 1, "C01.cancel-path": 1, "C01.entry-delete": 1, "C01.entry-insert": 1, "C01.entry-idle": 4, "C01.weights": 6},
		Run:         runC01,
	})
}

type semapCtx struct {
	c                               *Ctx
	size, cur, waiters, m, mux, rwR *types.Var
	wn, wready                      *types.Var
}

func runC01(c *Ctx) {
	const rel = "syncx/semap"
	c.checkOptionTargets("C01.weights", rel)
	s := &semapCtx{c: c}
	s.size = c.mustField(rel, "Weighted", "size")
	s.cur = c.mustField(rel, "Weighted", "cur")
	s.waiters = c.mustField(rel, "Weighted", "waiters")
	s.m = c.mustField(rel, "SemMap", "m")
	s.mux = c.mustField(rel, "SemMap", "mux")
	s.rwR = c.mustField(rel, "SemMap", "rwRatio")
	s.wn = c.mustField(rel, "waiter", "n")
	s.wready = c.mustField(rel, "waiter", "ready")
	if s.size == nil || s.cur == nil || s.waiters == nil || s.m == nil || s.mux == nil || s.rwR == nil || s.wn == nil || s.wready == nil {
		return
	}
	entries := c.entryPoints(rel)
	cfg := TraceConfig{}
	// 1. guarded-by
	table := []guard{
		{Field: s.cur, Mutex: s.mux, Name: "Weighted.cur"},
		{Field: s.waiters, Mutex: s.mux, Name: "Weighted.waiters"},
		{Field: s.m, Mutex: s.mux, Name: "SemMap.m"},
	}
	c.checkGuardedBy("C01.guarded-by", entries, table, cfg, nil)
	c.check(c.immutableField(s.size), "C01.immutable", "Weighted.size", s.size.Pos(), "written only during construction", "Weighted.size is written (or its address escapes) outside construction: the capacity can change while callers hold tokens")

	for _, entry := range entries {
		traces, complete := c.Trace(entry, cfg)
		name := c.fname(entry)
		if !complete {
			c.undecided("C01.paths", name, entry.Pos(), "path enumeration exceeded its budget")
			continue
		}
		touches := false
		balanced := true
		for _, t := range traces {
			for i, e := range t.Events {
				if lockOpOnField(e, s.mux) {
					touches = true
				}
				_ = i
			}
			if t.End == EndReturn {
				for _, h := range t.heldLocks(len(t.Events)) {
					if _, ok := lockIsField(h, s.mux); ok {
						balanced = false
						c.violated("C01.lock-balance", name, entry.Pos(), "a path returns while still holding SemMap.mux: every later operation on the map deadlocks", c.witness(t, len(t.Events)-1)...)
					}
				}
			}
			// double lock
			s.checkNoRelock(t, name)
			s.checkGrants(t, name)
			s.checkCancel(t, name)
			s.checkEntryLife(t, name)
			s.checkEntryIdle(t, name, entry)
		}
		if touches && balanced {
			c.holds("C01.lock-balance", name, entry.Pos(), fmt.Sprintf("%d paths end with the mutex released", len(traces)))
		}
	}
	s.checkWeights()
	s.checkRangeOption()
}

// checkRangeOption: the option record hands the configured rwRatio on unchanged: after the option functions ran,
// RangeOption may overwrite rwRatio only on a path that found it below 1 (a ratio for which nothing can ever be
// admitted). A guard `<= 1` silently turns WithRwRatio(1) — one reader at a time — into the default of 10.
func (s *semapCtx) checkRangeOption() {
	c := s.c
	fn := c.mustFn("syncx/semap", "RangeOption")
	rw := c.mustField("syncx/semap", "_Option", "rwRatio")
	if fn == nil || rw == nil {
		return
	}
	noInl := func(*ssa.Function, int) bool { return false }
	traces, _ := c.Trace(fn, TraceConfig{Inline: noInl})
	ok, n := true, 0
	for _, t := range traces {
		applied := false
		for i, e := range t.Events {
			if e.Kind == EvCall && e.Val != nil {
				applied = true // an option function ran
			}
			if e.Kind == EvBranch && e.Cond.mentions("$"+fn.Params[0].Name()) {
				applied = true // the option loop was evaluated (possibly zero options)
			}
			if e.Kind == EvStore && e.Addr.isFieldAddrOf(rw) && applied {
				n++
				facts := t.factsBefore(i)
				// the current ratio was found < 1 (<= 0)
				below := false
				for j := i - 1; j >= 0; j-- {
					x := t.Events[j]
					if x.Kind == EvLoad && x.Addr.isFieldAddrOf(rw) {
						below = factsImplyGE0(facts, lf(x.Res).scale(big.NewInt(-1))) // 0 - ratio >= 0
						break
					}
				}
				if !below && ok {
					ok = false
					c.violated("C01.weights", "semap.RangeOption", e.Pos, "the configured rwRatio is overwritten after the options were applied without having been found below 1: a valid ratio (e.g. 1, one reader at a time) is silently replaced and more readers than configured are admitted", c.witness(t, i)...)
				}
			}
		}
	}
	if ok {
		c.holds("C01.weights", "semap.RangeOption", fn.Pos(), fmt.Sprintf("rwRatio passed through (%d guarded overrides)", n))
	}
}

func lockOpOnField(e *Event, m *types.Var) bool {
	if _, _, ok := lockOp(e); ok && len(e.Args) > 0 {
		_, is := lockIsField(heldLock{e.Args[0], 0}, m)
		return is
	}
	return false
}

func (s *semapCtx) checkNoRelock(t *Trace, name string) {
	held := map[string]bool{}
	for i, e := range t.Events {
		if acq, _, ok := lockOp(e); ok && len(e.Args) > 0 {
			k := e.Args[0].Key()
			if acq {
				if held[k] {
					s.c.violated("C01.lock-balance", name, e.Pos, "the non-reentrant mutex is locked again while already held on this path (self-deadlock)", s.c.witness(t, i)...)
				}
				held[k] = true
			} else {
				if !held[k] && !e.InPanic {
					s.c.violated("C01.lock-balance", name, e.Pos, "the mutex is unlocked on a path where it is not held", s.c.witness(t, i)...)
				}
				delete(held, k)
			}
		}
	}
}

// listCallOn: event is a call of container/list method `method` on the waiters list of some Weighted; returns base.
func (s *semapCtx) listCallOn(e *Event, method string) (*Sym, bool) {
	if e.Kind != EvCall || e.callName() != "(*container/list.List)."+method || len(e.Args) == 0 {
		return nil, false
	}
	if e.Args[0].isFieldAddrOf(s.waiters) {
		return e.Args[0].Args[0], true
	}
	return nil, false
}

func isListMutation(e *Event) bool {
	if e.Kind != EvCall {
		return false
	}
	n := e.callName()
	if len(n) > 24 && n[:24] == "(*container/list.List)." {
		return !pureContainerMethods[n]
	}
	return false
}

// emptyWaitersAt: at event index i the path knows that base.waiters is empty (Len()==0 or Front()==nil
// established after the last list mutation and the last lock acquisition).
func (s *semapCtx) emptyWaitersAt(t *Trace, base *Sym, i int) bool {
	facts := t.factsBefore(i)
	for j := i - 1; j >= 0; j-- {
		e := t.Events[j]
		if isListMutation(e) {
			return false
		}
		if acq, _, ok := lockOp(e); ok && acq {
			return false
		}
		if b, ok := s.listCallOn(e, "Len"); ok && b.Key() == base.Key() {
			r := e.Res
			if hasFact(facts, func(f Fact) bool {
				z, isz := f.Y.intConst()
				return f.X.Key() == r.Key() && isz && ((f.Op == token.EQL && z == 0) || (f.Op == token.LEQ && z == 0) || (f.Op == token.LSS && z == 1))
			}) {
				return true
			}
		}
		if b, ok := s.listCallOn(e, "Front"); ok && b.Key() == base.Key() {
			r := e.Res
			if hasFact(facts, func(f Fact) bool {
				return (f.X.Key() == r.Key() || s.isFrontPhi(f.X)) && f.Op == token.EQL && f.Y.isNilConst() && f.Idx > j
			}) {
				return true
			}
		}
		if b, ok := s.listCallOn(e, "Back"); ok && b.Key() == base.Key() {
			r := e.Res
			if hasFact(facts, func(f Fact) bool { return f.X.Key() == r.Key() && f.Op == token.EQL && f.Y.isNilConst() }) {
				return true
			}
		}
	}
	return false
}

// sumFormFact: the path tested the fit as cur + n <= size (used to word the report).
func (s *semapCtx) sumFormFact(t *Trace, facts []Fact, base, cur, n *Sym) bool {
	sizeVals := fieldValues(t, s.size, base)
	return hasFact(facts, func(f Fact) bool {
		if f.Op == token.LEQ && f.X.Kind == KBin && f.X.Op == token.ADD && sizeVals[f.Y.Key()] {
			a, b := f.X.Args[0], f.X.Args[1]
			return (a.Key() == cur.Key() && b.Key() == n.Key()) || (b.Key() == cur.Key() && a.Key() == n.Key())
		}
		return false
	})
}

// fitsFact: facts entail size(base) - cur >= n for the given current value of cur.
func (s *semapCtx) fitsFact(t *Trace, facts []Fact, base, cur, n *Sym) bool {
	sizeVals := fieldValues(t, s.size, base)
	isSize := func(x *Sym) bool { return sizeVals[x.Key()] }
	return hasFact(facts, func(f Fact) bool {
		// size - cur >= n
		if f.Op == token.GEQ && f.X.Kind == KBin && f.X.Op == token.SUB && isSize(f.X.Args[0]) && f.X.Args[1].Key() == cur.Key() && f.Y.Key() == n.Key() {
			return true
		}
		// `cur + n <= size` is NOT accepted: the property quantifies over every rwRatio >= 1, and for a capacity
		// above MaxInt/2 the sum wraps (cur = size-1, n = size), so a writer is admitted beside readers. The
		// subtraction forms cannot wrap because 0 <= cur <= size and n >= 0.
		// size - n >= cur
		if f.Op == token.GEQ && f.X.Kind == KBin && f.X.Op == token.SUB && isSize(f.X.Args[0]) && f.X.Args[1].Key() == n.Key() && f.Y.Key() == cur.Key() {
			return true
		}
		// the same two, written the other way round: n <= size - cur ; cur <= size - n
		if f.Op == token.LEQ && f.Y.Kind == KBin && f.Y.Op == token.SUB && isSize(f.Y.Args[0]) {
			if (f.Y.Args[1].Key() == cur.Key() && f.X.Key() == n.Key()) || (f.Y.Args[1].Key() == n.Key() && f.X.Key() == cur.Key()) {
				return true
			}
		}
		return false
	})
}

// frontWaiter: n is `W.n` where W is the value of the element that the most recent Front() call on
// base.waiters returned (no list mutation since). Returns the element and the waiter value.
func (s *semapCtx) frontWaiter(t *Trace, base, n *Sym, i int) (elem, w *Sym, ok bool) {
	if n.Kind != KField || !sameField(n.Field, s.wn) {
		return nil, nil, false
	}
	w = n.Args[0]
	if w.Kind != KOp || w.Name != "typeassert" {
		return nil, nil, false
	}
	v := w.Args[0] // content of &elem.Value
	if v.Kind != KInit || v.Args[0].Kind != KFieldAddr || v.Args[0].Field.Name() != "Value" {
		return nil, nil, false
	}
	elem = v.Args[0].Args[0]
	for j := i - 1; j >= 0; j-- {
		e := t.Events[j]
		if isListMutation(e) {
			// the removal of this very element may precede the accounting (the three steps of a grant are independent)
			if b, isr := s.listCallOn(e, "Remove"); isr && b.Key() == base.Key() && len(e.Args) > 1 && e.Args[1].Key() == elem.Key() {
				continue
			}
			return nil, nil, false
		}
		if acq, _, isl := lockOp(e); isl && acq {
			return nil, nil, false
		}
		if b, isf := s.listCallOn(e, "Front"); isf && b.Key() == base.Key() {
			if e.Res.Key() == elem.Key() || s.isFrontPhi(elem) {
				return elem, w, true
			}
			return nil, nil, false
		}
	}
	return nil, nil, false
}

// checkGrants: rules 2 and 3.
func (s *semapCtx) checkGrants(t *Trace, name string) {
	c := s.c
	blockedSince := -1 // index of the "front waiter does not fit" fact since the last lock acquisition
	for i, e := range t.Events {
		if acq, _, ok := lockOp(e); ok && acq {
			blockedSince = -1
		}
		if e.Kind == EvBranch {
			for _, f := range factsOf(e.Cond, e.Taken, e.Pos, i) {
				// size - cur < W.n   for a front waiter
				if f.Op == token.LSS && f.X.Kind == KBin && f.X.Op == token.SUB && f.Y.Kind == KField && sameField(f.Y.Field, s.wn) {
					blockedSince = i
				}
			}
		}
		if e.Kind == EvClose && e.Addr.Kind == KField && sameField(e.Addr.Field, s.wready) {
			// waking a waiter requires that its weight was added to cur in the same critical section
			w := e.Addr.Args[0]
			acc := false
			for j := i - 1; j >= 0; j-- {
				x := t.Events[j]
				if acq, _, isl := lockOp(x); isl && acq {
					break
				}
				if x.Kind == EvStore && x.Addr.isFieldAddrOf(s.cur) && x.Val.Kind == KBin && x.Val.Op == token.ADD && x.Val.Args[1].Kind == KField && x.Val.Args[1].Args[0].Key() == w.Key() {
					acc = true
					break
				}
			}
			if !acc {
				c.violated("C01.grant-triple", "wake-up in "+c.fname(e.Fn), e.Pos, "a queued waiter is woken (ready closed) without its weight being added to cur: the capacity is exceeded", c.witness(t, i)...)
			}
		}
		if e.Kind != EvStore || !e.Addr.isFieldAddrOf(s.cur) {
			continue
		}
		base := e.Addr.Args[0]
		if base.root().Kind == KAlloc {
			continue // construction
		}
		cons := c.fname(e.Fn)
		// classify the stored value
		var inc *Sym
		if e.Val.Kind == KBin && e.Val.Op == token.ADD {
			if e.Val.Args[0].Key() == e.Old.Key() {
				inc = e.Val.Args[1]
			} else if e.Val.Args[1].Key() == e.Old.Key() {
				inc = e.Val.Args[0]
			}
		}
		if inc == nil {
			if e.Val.Kind == KBin && e.Val.Op == token.SUB && e.Val.Args[0].Key() == e.Old.Key() {
				c.holds("C01.grant-guard", "release in "+cons, e.Pos, "cur decreases by the released weight")
				continue
			}
			c.violated("C01.grant-guard", "store in "+cons, e.Pos, "Weighted.cur is assigned a value that is neither cur+weight nor cur-weight: "+c.short(e.Val.Key()), c.witness(t, i)...)
			continue
		}
		facts := t.factsBefore(i)
		if elem, w, ok := s.frontWaiter(t, base, inc, i); ok {
			// hand-off
			okFit := s.fitsFact(t, facts, base, e.Old, inc) || hasFact(facts, func(f Fact) bool {
				// written as !(size-cur < w.n)
				return false
			})
			if !okFit && s.sumFormFact(t, facts, base, e.Old, inc) {
				c.violated("C01.grant-guard", "hand-off in "+cons, e.Pos, "the fit of a queued waiter is tested as `cur + w.n <= size`: for rwRatio above MaxInt/2 the sum wraps (readers holding, writer of weight rwRatio queued), the writer is admitted beside the readers and cur goes negative; the test must be `size-cur >= w.n`", c.witness(t, i)...)
			} else if !okFit {
				c.violated("C01.grant-guard", "hand-off in "+cons, e.Pos, "a queued waiter is granted without the test `size-cur >= w.n` on the current value of cur: more tokens than the capacity can be handed out", c.witness(t, i)...)
			} else if blockedSince >= 0 {
				c.violated("C01.grant-triple", "hand-off in "+cons, e.Pos, "a waiter is granted after an earlier waiter at the front did not fit (queue jumping: the writer at the front can starve)", c.witness(t, i)...)
			} else {
				c.holds("C01.grant-guard", "hand-off in "+cons, e.Pos, "granted element is waiters.Front() and fits")
			}
			// triple: Remove(elem) and close(w.ready) follow before the next Front()/return
			rm, cl := false, false
			// the removal may also have happened between the Front() call and this store
			for j := i - 1; j >= 0; j-- {
				x := t.Events[j]
				if b, isr := s.listCallOn(x, "Remove"); isr && b.Key() == base.Key() && len(x.Args) > 1 && x.Args[1].Key() == elem.Key() {
					rm = true
				}
				if _, isf := s.listCallOn(x, "Front"); isf {
					break
				}
			}
			for j := i + 1; j < len(t.Events); j++ {
				x := t.Events[j]
				if b, isr := s.listCallOn(x, "Remove"); isr && b.Key() == base.Key() && len(x.Args) > 1 && x.Args[1].Key() == elem.Key() {
					rm = true
				}
				if x.Kind == EvClose && x.Addr.Kind == KField && sameField(x.Addr.Field, s.wready) && x.Addr.Args[0].Key() == w.Key() {
					cl = true
				}
				if _, isf := s.listCallOn(x, "Front"); isf || x.Kind == EvLoopGen {
					break
				}
				if acq, _, isl := lockOp(x); isl && !acq {
					break
				}
			}
			if rm && cl {
				c.holds("C01.grant-triple", "hand-off in "+cons, e.Pos, "cur+=w.n, waiters.Remove(front), close(w.ready) occur together")
			} else {
				c.violated("C01.grant-triple", "hand-off in "+cons, e.Pos, fmt.Sprintf("the grant of a queued waiter is incomplete on this path (removed from queue=%v, ready channel closed=%v): the waiter is granted twice or never woken", rm, cl), c.witness(t, i)...)
			}
			continue
		}
		// fast path
		fit := s.fitsFact(t, facts, base, e.Old, inc)
		empty := s.emptyWaitersAt(t, base, i)
		if fit && empty {
			c.holds("C01.grant-guard", "fast path in "+cons, e.Pos, "immediate grant under size-cur>=n and no waiters")
		} else {
			why := ""
			if !fit {
				why = "without the test `size-cur >= n` on the current value of cur"
				if s.sumFormFact(t, facts, base, e.Old, inc) {
					why = "under `cur + n <= size`, a sum that wraps for rwRatio above MaxInt/2 (the test must be `size-cur >= n`)"
				}
			}
			if !empty {
				if why != "" {
					why += " and "
				}
				why += "without knowing that nobody is waiting (arrivals could overtake queued callers; a queued writer can starve)"
			}
			c.violated("C01.grant-guard", "fast path in "+cons, e.Pos, "cur is increased for the caller "+why, c.witness(t, i)...)
		}
	}
}

// checkCancel: rule 4, applied to paths that take the ctx.Done() case of a blocking select after queueing.
func (s *semapCtx) checkCancel(t *Trace, name string) {
	c := s.c
	for i, e := range t.Events {
		if e.Kind != EvSelect || e.Case < 0 || e.Addr == nil {
			continue
		}
		sel, ok := e.Instr.(*ssa.Select)
		if !ok || !sel.Blocking {
			continue
		}
		if !s.isCtxDone(t, e.Addr, i) {
			continue
		}
		// find the element pushed by this caller before the select
		var elem, base *Sym
		for j := i - 1; j >= 0; j-- {
			if b, isp := s.listCallOn(t.Events[j], "PushBack"); isp {
				elem, base = t.Events[j].Res, b
				break
			}
		}
		if elem == nil {
			continue
		}
		cons := c.fname(e.Fn)
		// what happens next on this path
		relock := -1
		for j := i + 1; j < len(t.Events); j++ {
			if acq, _, isl := lockOp(t.Events[j]); isl && acq && lockOpOnFieldOrParam(t.Events[j], s.mux) {
				relock = j
				break
			}
		}
		if relock < 0 {
			c.violated("C01.cancel-path", cons, e.Pos, "after cancellation the queue entry is handled without re-taking the mutex (or not handled at all)", c.witness(t, len(t.Events)-1)...)
			continue
		}
		// inner poll on ready
		polled, granted := false, false
		front, removed, renotified := -1, -1, false
		var frontRes *Sym
		for j := relock + 1; j < len(t.Events); j++ {
			x := t.Events[j]
			if x.Kind == EvSelect {
				if s2, ok := x.Instr.(*ssa.Select); ok && !s2.Blocking {
					polled = true
					if x.Case >= 0 {
						granted = true
					}
				}
			}
			if x.Kind == EvRecv && x.Addr.root().Kind == KAlloc {
				polled = true
			}
			if b, isf := s.listCallOn(x, "Front"); isf && b.Key() == base.Key() {
				if front < 0 {
					front, frontRes = j, x.Res
				} else if removed >= 0 {
					renotified = true
				}
			}
			if b, isr := s.listCallOn(x, "Remove"); isr && b.Key() == base.Key() && len(x.Args) > 1 && x.Args[1].Key() == elem.Key() && removed < 0 {
				removed = j
			}
		}
		if !polled {
			c.violated("C01.cancel-path", cons, e.Pos, "the cancel path does not check whether the grant already happened (ready closed): a granted caller would leave holding tokens it reports as not acquired", c.witness(t, len(t.Events)-1)...)
			continue
		}
		if granted {
			// the grant wins: the error result must be nil
			if t.End == EndReturn && len(t.Ret) > 0 {
				errv := t.Ret[len(t.Ret)-1]
				if !errv.isNilConst() {
					c.violated("C01.cancel-path", cons, e.Pos, "the caller was granted before it noticed the cancellation but an error is returned: it holds tokens nobody will release", c.witness(t, len(t.Events)-1)...)
					continue
				}
			}
			c.holds("C01.cancel-path", cons, e.Pos, "")
			continue
		}
		if removed < 0 {
			c.violated("C01.cancel-path", cons, e.Pos, "a cancelled waiter stays in the queue: it will be granted tokens later that nobody releases", c.witness(t, len(t.Events)-1)...)
			continue
		}
		if front < 0 || front > removed {
			c.violated("C01.cancel-path", cons, e.Pos, "front-ness of the cancelled waiter is not determined before it is removed from the queue, so waiters behind it that now fit are not admitted", c.witness(t, removed)...)
			continue
		}
		// was at front and tokens left => renotify
		facts := t.factsBefore(len(t.Events))
		wasFront := hasFact(facts, func(f Fact) bool {
			return f.Op == token.EQL && f.X.Key() == frontRes.Key() && f.Y.Key() == elem.Key()
		})
		tokensLeft := hasFact(facts, func(f Fact) bool {
			if f.Op != token.GTR {
				return false
			}
			_, a := isInitOfField(f.X, s.size)
			return a
		})
		sizeVals := fieldValues(t, s.size, base)
		notFront := hasFact(facts, func(f Fact) bool {
			return f.Op == token.NEQ && f.X.Key() == frontRes.Key() && f.Y.Key() == elem.Key()
		})
		noTokens := hasFact(facts, func(f Fact) bool {
			return f.Op == token.LEQ && sizeVals[f.X.Key()]
		})
		_, _ = wasFront, tokensLeft
		if !renotified && !notFront && !noTokens {
			c.violated("C01.cancel-path", cons, e.Pos, "the cancelled waiter may have been at the front with tokens left, but the waiters behind it are not re-examined on this path (they stay blocked although they fit)", c.witness(t, len(t.Events)-1)...)
			continue
		}
		// context contract: once Done() is closed Err() is non-nil, so a path on which that Err() result is nil is infeasible
		errNil := false
		for _, x := range t.Events {
			if x.Kind == EvCall && x.callName() == "(context.Context).Err" && x.Res != nil {
				r := x.Res
				if hasFact(facts, func(f Fact) bool { return f.Op == token.EQL && f.X.Key() == r.Key() && f.Y.isNilConst() }) {
					errNil = true
				}
			}
		}
		if !errNil && t.End == EndReturn && len(t.Ret) > 0 && t.Ret[len(t.Ret)-1].isNilConst() {
			c.violated("C01.cancel-path", cons, e.Pos, "a cancelled acquire that was not granted returns nil: the caller believes it holds the key", c.witness(t, len(t.Events)-1)...)
			continue
		}
		c.holds("C01.cancel-path", cons, e.Pos, "re-lock, poll ready, Front()==elem before Remove(elem), re-notify when at front with tokens left")
	}
}

func lockOpOnFieldOrParam(e *Event, m *types.Var) bool {
	return lockOpOnField(e, m)
}

// isCtxDone: the channel is the result of a (context.Context).Done call.
func (s *semapCtx) isCtxDone(t *Trace, ch *Sym, i int) bool {
	for j := i - 1; j >= 0; j-- {
		e := t.Events[j]
		if e.Kind == EvCall && e.callName() == "(context.Context).Done" && e.Res != nil && e.Res.Key() == ch.Key() {
			return true
		}
	}
	return false
}

// checkEntryLife: rule 5.
func (s *semapCtx) checkEntryLife(t *Trace, name string) {
	c := s.c
	for i, e := range t.Events {
		switch e.Kind {
		case EvMapDelete:
			if _, ok := symFieldBase(e.Addr, s.m); !ok {
				continue
			}
			cons := c.fname(e.Fn)
			facts := t.factsBefore(i)
			// which Weighted is known to be idle?
			ok := false
			seen := map[string]bool{}
			for j := i - 1; j >= 0 && !ok; j-- {
				x := t.Events[j]
				var base *Sym
				if (x.Kind == EvLoad || x.Kind == EvStore) && x.Addr.isFieldAddrOf(s.cur) {
					base = x.Addr.Args[0]
				}
				if base == nil || seen[base.Key()] {
					continue
				}
				seen[base.Key()] = true
				// current value of cur
				var cur *Sym
				if x.Kind == EvStore {
					cur = x.Val
				} else {
					cur = x.Res
				}
				zero := hasFact(facts, func(f Fact) bool {
					z, isz := f.Y.intConst()
					return isz && f.X.Key() == cur.Key() && ((f.Op == token.EQL && z == 0) || (f.Op == token.LEQ && z == 0) || (f.Op == token.LSS && z == 1))
				})
				if z, isz := cur.intConst(); isz && z == 0 {
					zero = true
				}
				if zero && s.emptyWaitersAt(t, base, i) {
					ok = true
				}
			}
			if ok {
				c.holds("C01.entry-delete", cons, e.Pos, "entry deleted only under `no waiters AND cur == 0`")
			} else {
				c.violated("C01.entry-delete", cons, e.Pos, "the key's entry is deleted from the map without knowing that it has no holders (cur==0) and no waiters: with readers R1,R2 holding the key, R1's release drops the entry and a writer then acquires the same key on a fresh entry beside R2", c.witness(t, i)...)
			}
		case EvMapUpdate:
			if _, ok := symFieldBase(e.Addr, s.m); !ok {
				continue
			}
			cons := c.fname(e.Fn)
			// the lookup that missed must be under the same critical section
			okk := false
			for j := i - 1; j >= 0; j-- {
				x := t.Events[j]
				if acq, _, isl := lockOp(x); isl && !acq {
					break
				}
				if x.Kind == EvMapLookup && x.Addr.Key() == e.Addr.Key() && x.Args[0].Key() == e.Args[0].Key() {
					okk = true
					break
				}
			}
			fresh := e.Val.root().Kind == KAlloc
			if okk && fresh {
				c.holds("C01.entry-insert", cons, e.Pos, "miss and insert of a fresh entry in one critical section")
			} else {
				c.violated("C01.entry-insert", cons, e.Pos, "a map entry is (re)placed without the lookup of that key in the same critical section, or with a semaphore that is not fresh: two callers can end up on different semaphores for one key", c.witness(t, i)...)
			}
		}
	}
}

// checkEntryIdle: an acquire that fails (returns no *Weighted) must not leave behind the fresh entry it
// inserted for the key: nothing will ever release that entry, so the map would keep an idle entry forever.
// Paths that are only feasible for rwRatio < 1 (a configuration in which no acquire can ever succeed) are
// outside the property and are skipped; the test uses the linear form of each branch condition.
func (s *semapCtx) checkEntryIdle(t *Trace, name string, entry *ssa.Function) {
	c := s.c
	if t.End != EndReturn || len(t.Ret) != 2 {
		return
	}
	ins := -1
	for i, e := range t.Events {
		if e.Kind == EvMapUpdate {
			if _, ok := symFieldBase(e.Addr, s.m); ok {
				ins = i
			}
		}
		if e.Kind == EvMapDelete && ins >= 0 {
			if _, ok := symFieldBase(e.Addr, s.m); ok {
				ins = -1
			}
		}
	}
	if ins < 0 {
		return
	}
	if !t.Ret[0].isNilConst() {
		c.holds("C01.entry-idle", name, entry.Pos(), "a fresh entry stays only on paths that return it held")
		return
	}
	facts := t.factsBefore(len(t.Events))
	// container/list contract: the zero List of the fresh entry is empty until something is pushed
	mutated := false
	for _, e := range t.Events {
		if isListMutation(e) {
			mutated = true
		}
		if b, ok := s.listCallOn(e, "Len"); ok && !mutated && b.root().Kind == KAlloc {
			r := e.Res
			if hasFact(facts, func(f Fact) bool {
				z, isz := f.Y.intConst()
				return f.X.Key() == r.Key() && isz && z == 0 && (f.Op == token.NEQ || f.Op == token.GTR)
			}) {
				return
			}
		}
	}
	// feasibility under rwRatio >= 1: each branch condition X op Y as the linear form d = X - Y over rwRatio
	for _, f := range facts {
		d := lf(f.X).add(lf(f.Y), -1)
		var min, max *big.Int = new(big.Int).Set(d.c), new(big.Int).Set(d.c)
		okForm := true
		for k, a := range d.coef {
			switch {
			case !strings.Contains(k, "rwRatio"):
				okForm = false
			case a.Sign() > 0:
				min.Add(min, a)
				max = nil
			default:
				if max != nil {
					max.Add(max, a)
				}
				min = nil
			}
		}
		if !okForm || len(d.coef) > 1 {
			continue
		}
		switch f.Op {
		case token.LSS:
			if min != nil && min.Sign() >= 0 {
				return
			}
		case token.LEQ:
			if min != nil && min.Sign() > 0 {
				return
			}
		case token.GTR:
			if max != nil && max.Sign() <= 0 {
				return
			}
		case token.GEQ:
			if max != nil && max.Sign() < 0 {
				return
			}
		}
	}
	c.violated("C01.entry-idle", name, t.Events[ins].Pos, "an acquire that fails leaves the fresh entry it inserted for the key in the map: the entry has no holder and no waiter, and only a release ever deletes entries, so the map keeps an idle entry for that key forever", c.witness(t, len(t.Events)-1)...)
}

// checkWeights: rule 6 — per public method the weight that reaches the semaphore.
func (s *semapCtx) checkWeights() {
	c := s.c
	type want struct {
		method string
		acq    bool
		ratio  bool
	}
	for _, w := range []want{{"AcquireRead", true, false}, {"AcquireWrite", true, true}, {"ReleaseRead", false, false}, {"ReleaseWrite", false, true}} {
		fn := c.mustFn("syncx/semap", "(*SemMap)."+w.method)
		if fn == nil {
			continue
		}
		traces, _ := c.Trace(fn, TraceConfig{})
		okAll, n := true, 0
		for _, t := range traces {
			for i, e := range t.Events {
				if e.Kind != EvStore || !e.Addr.isFieldAddrOf(s.cur) || e.Gen {
					continue
				}
				if e.Addr.Args[0].root().Kind == KAlloc && e.Val.isConst() {
					continue
				}
				var delta *Sym
				if e.Val.Kind == KBin && (e.Val.Op == token.ADD || e.Val.Op == token.SUB) && e.Val.Args[0].Key() == e.Old.Key() {
					delta = e.Val.Args[1]
				}
				if delta == nil {
					continue
				}
				if delta.Kind == KField { // hand-off to a queued waiter: weight of that waiter
					continue
				}
				n++
				good := false
				if w.ratio {
					_, good = isInitOfField(delta, s.rwR)
				} else {
					v, isc := delta.intConst()
					good = isc && v == 1
				}
				if (e.Val.Op == token.ADD) != w.acq {
					good = false
				}
				if !good && okAll {
					okAll = false
					c.violated("C01.weights", "(*SemMap)."+w.method, e.Pos, fmt.Sprintf("%s changes cur by %s (expected %s)", w.method, c.short(delta.Key()), map[bool]string{true: "rwRatio", false: "1"}[w.ratio]), c.witness(t, i)...)
				}
			}
			// queued weight: waiter.n stored = same weight
			for i, e := range t.Events {
				if e.Kind == EvStore && e.Addr.isFieldAddrOf(s.wn) {
					n++
					good := false
					if w.ratio {
						_, good = isInitOfField(e.Val, s.rwR)
					} else {
						v, isc := e.Val.intConst()
						good = isc && v == 1
					}
					if !good && okAll {
						okAll = false
						c.violated("C01.weights", "(*SemMap)."+w.method, e.Pos, "the queued weight differs from the method's weight", c.witness(t, i)...)
					}
				}
			}
		}
		if n == 0 {
			c.undecided("C01.weights", "(*SemMap)."+w.method, fn.Pos(), "no update of cur found on any path")
		} else if okAll {
			c.holds("C01.weights", "(*SemMap)."+w.method, fn.Pos(), fmt.Sprintf("%d weight uses agree", n))
		}
	}
	// capacity = rwRatio
	if fn := c.mustFn("syncx/semap", "(*SemMap).acquire"); fn != nil {
		traces, _ := c.Trace(fn, TraceConfig{})
		found, good := false, true
		for _, t := range traces {
			for _, e := range t.Events {
				if e.Kind == EvStore && e.Addr.isFieldAddrOf(s.size) {
					found = true
					if _, ok := isInitOfField(e.Val, s.rwR); !ok {
						good = false
						c.violated("C01.weights", "capacity of a new entry", e.Pos, "a new entry's capacity is not the map's rwRatio: the write weight no longer excludes all readers", "")
					}
				}
			}
		}
		if found && good {
			c.holds("C01.weights", "capacity of a new entry", fn.Pos(), "size = rwRatio")
		} else if !found {
			c.undecided("C01.weights", "capacity of a new entry", fn.Pos(), "no store to Weighted.size found in SemMap.acquire")
		}
	}
}

var _ = types.Typ

// isFrontPhi: sym is a loop-carried variable all of whose incoming values are results of waiters.Front() — in
// `for head := l.Front(); head != nil; head = l.Front()` the variable is the latest Front() at every test.
func (s *semapCtx) isFrontPhi(x *Sym) bool {
	if x == nil || x.Kind != KFresh || x.Name != "loop" {
		return false
	}
	phi, ok := x.Ref.(*ssa.Phi)
	if !ok || len(phi.Edges) == 0 {
		return false
	}
	for _, ed := range phi.Edges {
		call, isCall := ed.(*ssa.Call)
		if !isCall || call.Call.StaticCallee() == nil || call.Call.StaticCallee().String() != "(*container/list.List).Front" {
			return false
		}
		fa, isFA := call.Call.Args[0].(*ssa.FieldAddr)
		if !isFA || !sameField(fieldVar(fa.X.Type(), fa.Field), s.waiters) {
			return false
		}
	}
	return true
}
