package main

import (
	"fmt"
	"go/token"
	"go/types"
	"math/big"
	"sort"
	"strings"

	"golang.org/x/tools/go/ssa"
)

func init() {
	register(&Property{
		ID:       "C03",
		Patterns: []string{"./ds/tree", "./ds/tree/btree"},
		Explanation: "Decides structural necessary conditions on every path (the recursive tree algorithms are analysed one function at a time with callees opaque): (1) the locked wrapper calls tree operations that (transitively) write tree state only with the write lock, read-only ones (Get, scans, the caller's iterator) with at least the read lock; " +
			"(2) copy-on-write ownership: every write to a node's storage acts on the receiver of a node-level mutator or on a node obtained on this path from mutableFor / mutableChild / newNode; tree-level mutators make the root mutable (or new) before the first mutating call; mutableFor returns its receiver only under n.cow == cow and otherwise a fresh node filled with copies; mutableChild stores the copy back; freeNode clears a node only under n.cow == c; Clone gives the two trees two distinct fresh contexts; " +
			"(3) scan entry table: each exported scan calls iterate with exactly the direction, start, stop and includeStart its range says (AscendGreater = (ascend,pivot,nil,false), DescendLess = (descend,pivot,nil,false), hit=false), and the wrapper maps Gte/Gt/Lte/Lt to the matching entry point; (4) the limit logic of the wrapper's walk: nothing is appended once c >= n, c grows by one per appended item, n == 0 returns before locking; (5) Update re-inserts only when the delete found the old item, UpdateOrInsert always re-inserts and reports whether the old item existed; " +
			"(6) shape coupling: split, maybeSplitChild and the merge step change a node's item count and child count together (truncate i / i+1, insertAt i / i+1, removeAt i / i+1, items and children appended together); (7) length++ exactly when the insert added an item, length-- exactly when the remove found one, Clear zeroes root and length together. " +
			"NOT decided: equivalence with a sorted set, node occupancy bounds and equal leaf depth, correctness of the iterate state machine for every tree shape and pivot — all data dependent; no sound static argument within reach (stated in DESIGN.md).",
		Assumptions: []string{"Item.Less is a strict weak order (caller's obligation)"},
		Floors:      map[string]int{"C03.wrapper-lock": 9, "C03.cow-ownership": 7, "C03.cow-primitives": 4, "C03.scan-entry": 10, "C03.wrapper-scan": 4, "C03.limit": 2, "C03.update": 2, "C03.shape-coupling": 3, "C03.insert-replace": 1, "C03.rebalance-guard": 1, "C03.slice-primitives": 8, "C03.lookup": 8, "C03.length": 3},
		Run:         runC03,
	})
}

type btCtx struct {
	c       *Ctx
	writers map[*ssa.Function]bool
}

func runC03(c *Ctx) {
	const relB = "ds/tree/btree"
	const relT = "ds/tree"
	x := &btCtx{c: c}
	x.computeWriters(relB)
	x.checkWrapper(relT, relB)
	x.checkOwnership(relB)
	x.checkCowPrimitives(relB)
	x.checkScanEntries(relB)
	x.checkShapeAndLength(relB)
}

// computeWriters: functions of the btree package that (transitively) write memory they did not allocate.
func (x *btCtx) computeWriters(rel string) {
	c := x.c
	fns := c.funcsOf(rel)
	direct := map[*ssa.Function]bool{}
	calls := map[*ssa.Function][]*ssa.Function{}
	for _, f := range fns {
		for _, b := range f.Blocks {
			for _, in := range b.Instrs {
				switch in := in.(type) {
				case *ssa.Store:
					if rootAlloc(in.Addr) == nil {
						direct[f] = true
					}
				case *ssa.MapUpdate:
					direct[f] = true
				case ssa.CallInstruction:
					if cal := in.Common().StaticCallee(); cal != nil && c.fnInModule(cal) {
						calls[f] = append(calls[f], cal)
					}
					if bi, ok := in.Common().Value.(*ssa.Builtin); ok && bi.Name() == "copy" {
						if rootAlloc(in.Common().Args[0]) == nil {
							direct[f] = true
						}
					}
				}
			}
		}
	}
	x.writers = map[*ssa.Function]bool{}
	for f := range direct {
		x.writers[f] = true
	}
	for changed := true; changed; {
		changed = false
		for f, cs := range calls {
			if x.writers[f] {
				continue
			}
			for _, cal := range cs {
				if x.writers[cal] || (cal.Origin() != nil && x.writers[cal.Origin()]) {
					x.writers[f] = true
					changed = true
					break
				}
			}
		}
	}
	var names []string
	for f := range x.writers {
		names = append(names, c.fname(f))
	}
	sort.Strings(names)
	c.Tables["btree_functions_that_write_tree_state"] = names
}

// (1) wrapper locking
func (x *btCtx) checkWrapper(relT, relB string) {
	c := x.c
	rw := c.mustField(relT, "BTree", "rw")
	tF := c.mustField(relT, "BTree", "t")
	if rw == nil || tF == nil {
		return
	}
	inl := func(callee *ssa.Function, depth int) bool {
		return depth <= 4 && callee.Pkg != nil && strings.HasSuffix(callee.Pkg.Pkg.Path(), "/ds/tree")
	}
	boundTarget := func(s *Sym) *ssa.Function {
		// closure of a bound method wrapper: resolve the method
		if s == nil || s.Kind != KClosure {
			return nil
		}
		bf := s.Ref.(*ssa.Function)
		if !strings.HasSuffix(bf.Name(), "$bound") {
			return nil
		}
		name := strings.TrimSuffix(bf.Name(), "$bound")
		return c.fn(relB, "(*BTree)."+name)
	}
	for _, fn := range c.exportedMethods(relT, "BTree") {
		name := "(*tree.BTree)." + fn.Name()
		traces, complete := c.Trace(fn, TraceConfig{Inline: inl})
		if !complete {
			c.undecided("C03.wrapper-lock", name, fn.Pos(), "path budget exceeded")
			continue
		}
		ok, n := true, 0
		var scanTarget *ssa.Function
		for _, t := range traces {
			for i, e := range t.Events {
				var target *ssa.Function
				if e.Kind == EvCall && e.Callee != nil && e.Callee.Pkg != nil && strings.HasSuffix(e.Callee.Pkg.Pkg.Path(), "/"+relB) {
					target = e.Callee
				}
				if e.Kind == EvCall && e.Val != nil {
					if bt := boundTarget(e.Val); bt != nil {
						target = bt
						scanTarget = bt
					}
				}
				if e.Kind == EvCall && e.Callee != nil && strings.HasSuffix(e.Callee.Name(), "$bound") {
					if bt := c.fn(relB, "(*BTree)."+strings.TrimSuffix(e.Callee.Name(), "$bound")); bt != nil {
						target = bt
						scanTarget = bt
					}
				}
				if target == nil {
					continue
				}
				n++
				mode := lockNone
				for _, h := range t.heldLocks(i) {
					if _, is := lockIsField(h, rw); is && h.mode > mode {
						mode = h.mode
					}
				}
				w := x.writers[target]
				if w && mode != lockW && ok {
					ok = false
					c.violated("C03.wrapper-lock", name, e.Pos, fmt.Sprintf("%s writes tree state but is called %s: concurrent readers see a tree in the middle of a split/merge (and two writers corrupt it)", c.fname(target), map[int]string{lockNone: "without the lock", lockR: "under the read lock only"}[mode]), c.witness(t, i)...)
				}
				if !w && mode == lockNone && ok {
					ok = false
					c.violated("C03.wrapper-lock", name, e.Pos, c.fname(target)+" reads the tree without the read lock: it can run concurrently with a writer", c.witness(t, i)...)
				}
			}
			// atomicity: all tree operations of one wrapper call sit in one critical section
			{
				first, released := -1, -1
				for i, e := range t.Events {
					isOp := false
					if e.Kind == EvCall && e.Callee != nil && e.Callee.Pkg != nil && strings.HasSuffix(e.Callee.Pkg.Pkg.Path(), "/"+relB) {
						isOp = true
					}
					if e.Kind == EvCall && (e.Val != nil && boundTarget(e.Val) != nil) {
						isOp = true
					}
					if isOp {
						if first >= 0 && released >= 0 && ok {
							ok = false
							c.violated("C03.wrapper-lock", name, e.Pos, "the tree operations of one wrapper call are spread over several critical sections (the lock is released at "+c.posStr(t.Events[released].Pos)+" in between): another goroutine can observe or modify the tree between the halves, e.g. a key that is only being updated is briefly absent", c.witness(t, i)...)
						}
						if first < 0 {
							first = i
						}
					}
					if acq, _, isL := lockOp(e); isL && !acq && first >= 0 && lockOpOnField(e, rw) {
						released = i
					}
				}
			}
			// lock balance
			if t.End == EndReturn {
				for _, h := range t.heldLocks(len(t.Events)) {
					if _, is := lockIsField(h, rw); is && ok {
						ok = false
						c.violated("C03.wrapper-lock", name, fn.Pos(), "a path returns holding the tree lock", c.witness(t, len(t.Events)-1)...)
					}
				}
			}
		}
		if n == 0 {
			c.undecided("C03.wrapper-lock", name, fn.Pos(), "no tree operation found")
		} else if ok {
			c.holds("C03.wrapper-lock", name, fn.Pos(), fmt.Sprintf("%d tree calls under the required lock mode", n))
		}
		// (3b) wrapper scan wiring
		want := map[string]string{"AscendGte": "AscendGreaterOrEqual", "AscendGt": "AscendGreater", "DescendLte": "DescendLessOrEqual", "DescendLt": "DescendLess"}
		if w, isScan := want[fn.Name()]; isScan {
			good := scanTarget != nil && scanTarget.Name() == w
			got := "<none>"
			if scanTarget != nil {
				got = scanTarget.Name()
			}
			c.check(good, "C03.wrapper-scan", name, fn.Pos(), "-> btree."+w, fn.Name()+" walks the tree with btree."+got+" instead of "+w+": inclusivity or direction of the scan is wrong")
		}
	}
	// (4) limit logic of iterWalk
	if fn := c.mustFn(relT, "(*BTree).iterWalk"); fn != nil {
		traces, _ := c.Trace(fn, TraceConfig{Inline: func(*ssa.Function, int) bool { return false }})
		ok := true
		sawZero := false
		for _, t := range traces {
			facts := t.factsBefore(len(t.Events))
			zero := hasFact(facts, func(f Fact) bool {
				z, isz := f.Y.intConst()
				return f.X.Key() == t.Params[4].Key() && isz && z == 0 && f.Op == token.EQL
			})
			if zero {
				sawZero = true
				for i, e := range t.Events {
					if _, _, isl := lockOp(e); isl && ok {
						ok = false
						c.violated("C03.limit", "(*tree.BTree).iterWalk n==0", e.Pos, "with limit 0 the walk still takes the lock / visits the tree", c.witness(t, i)...)
					}
				}
				if t.End == EndReturn && !t.Ret[0].isNilConst() && ok {
					ok = false
					c.violated("C03.limit", "(*tree.BTree).iterWalk n==0", fn.Pos(), "limit 0 does not return an empty result", "")
				}
			}
		}
		c.check(ok && sawZero, "C03.limit", "(*tree.BTree).iterWalk n==0", fn.Pos(), "n == 0 returns nil before locking", "the walk has no early return for limit 0")
		// the callback
		if len(fn.AnonFuncs) == 1 && fn.AnonFuncs[0].Signature.Results().Len() == 1 && fn.AnonFuncs[0].Signature.Params().Len() == 1 {
			cb := fn.AnonFuncs[0]
			ts, _ := c.Trace(cb, TraceConfig{})
			okc, nAppend := true, 0
			for _, t := range ts {
				if t.End != EndReturn {
					continue
				}
				facts := t.factsBefore(len(t.Events))
				// free variables: c, n, filter, ns
				var cCell, nsCell *Sym
				var cOld *Sym
				appended, inc := 0, 0
				for _, e := range t.Events {
					if e.Kind == EvStore && e.Addr.Kind == KParam {
						if e.Val.Kind == KOp && e.Val.Name == "append" {
							appended++
							nsCell = e.Addr
							// the appended element is the visited item
							if len(e.Val.Args) >= 2 {
								el := e.Val.Args[1]
								if !el.mentions(t.Params[0].Key()) {
									// append(ns, v) compiles to a slice of a one-element array holding v
								}
							}
						} else if d, isD := counterDelta(e); isD {
							if d == 1 {
								inc++
								cCell, cOld = e.Addr, e.Old
							} else {
								okc = false
							}
						}
					}
				}
				_ = nsCell
				if appended > 0 {
					nAppend++
					// under !(c >= n) for the value of c before the increment
					// the captured counter is private to this closure: an intervening call of the caller's filter
					// cannot change it, so any reading of the same cell counts
					guard := cOld != nil && hasFact(facts, func(f Fact) bool {
						return f.Op == token.LSS && f.X.Kind == KInit && cCell != nil && f.X.Args[0].Key() == cCell.Key()
					})
					// the count may also be the length of the gathered slice itself: `len(ns) < n` before append(ns, v)
					lenOfNs := func(x *Sym) bool {
						return nsCell != nil && x.Kind == KOp && x.Name == "len" && len(x.Args) == 1 && x.Args[0].Kind == KInit && x.Args[0].Args[0].Key() == nsCell.Key()
					}
					if appended == 1 && inc == 0 && hasFact(facts, func(f Fact) bool { return f.Op == token.LSS && lenOfNs(f.X) }) {
						inc, guard = 1, true
					}
					if appended != 1 || inc != 1 || !guard {
						okc = false
						c.violated("C03.limit", "iterWalk callback", cb.Pos(), fmt.Sprintf("an item is appended without `c < n` on the current count, or the count does not grow by exactly one per appended item (appends=%d increments=%d guarded=%v): more than n items are returned", appended, inc, guard), c.witness(t, len(t.Events)-1)...)
					}
				} else if inc != 0 {
					okc = false
					c.violated("C03.limit", "iterWalk callback", cb.Pos(), "the count grows although nothing was appended: fewer than n matching items are returned", c.witness(t, len(t.Events)-1)...)
				}
				_ = cCell
				// returning false (stop) only when c >= n
				if b, isB := t.Ret[0].boolConst(); isB && !b {
					stop := hasFact(facts, func(f Fact) bool {
						return f.Op == token.GEQ && (f.X.Kind == KInit || (f.X.Kind == KOp && f.X.Name == "len" && len(f.X.Args) == 1 && f.X.Args[0].Kind == KInit))
					})
					if !stop {
						okc = false
						c.violated("C03.limit", "iterWalk callback", cb.Pos(), "the walk is stopped although the limit is not reached", c.witness(t, len(t.Events)-1)...)
					}
				}
			}
			c.check(okc && nAppend > 0, "C03.limit", "iterWalk callback", cb.Pos(), "append under c<n, c++ once per append, stop only at c>=n", "the limit logic of the walk callback is broken")
		} else {
			c.undecided("C03.limit", "iterWalk callback", fn.Pos(), "callback closure not found")
		}
	}
	// (5) Update / UpdateOrInsert
	for _, m := range []string{"Update", "UpdateOrInsert"} {
		fn := c.mustFn(relT, "(*BTree)."+m)
		if fn == nil {
			continue
		}
		name := "(*tree.BTree)." + m
		traces, _ := c.Trace(fn, TraceConfig{Inline: inl})
		ok, n := true, 0
		for _, t := range traces {
			if t.End != EndReturn {
				continue
			}
			n++
			facts := t.factsBefore(len(t.Events))
			var del *Event
			ins := 0
			for _, e := range t.Events {
				if e.Kind == EvCall && e.Callee != nil && e.Callee.Name() == "Delete" {
					del = e
				}
				if e.Kind == EvCall && e.Callee != nil && e.Callee.Name() == "ReplaceOrInsert" {
					ins++
					if len(e.Args) < 2 || e.Args[1].Key() != t.Params[2].Key() {
						if ok {
							c.violated("C03.update", name, e.Pos, "the item inserted is not the caller's new item", c.witness(t, len(t.Events)-1)...)
						}
						ok = false
					}
				}
			}
			if del == nil || len(del.Args) < 2 || del.Args[1].Key() != t.Params[1].Key() {
				if ok {
					c.violated("C03.update", name, fn.Pos(), fmt.Sprintf("a path of %s does not remove the old item first (%d insert(s) on it): the new item is stored although nothing established that the old one was in the tree — an update of an absent key inserts it", m, ins), c.witness(t, len(t.Events)-1)...)
				}
				ok = false
				continue
			}
			found := hasFact(facts, func(f Fact) bool { return f.X.Key() == del.Res.Key() && f.Op == token.NEQ && f.Y.isNilConst() })
			missing := hasFact(facts, func(f Fact) bool { return f.X.Key() == del.Res.Key() && f.Op == token.EQL && f.Y.isNilConst() })
			r := t.Ret[0]
			if m == "Update" {
				rb, isB := r.boolConst()
				if missing && (ins != 0 || !isB || rb) {
					ok = false
					c.violated("C03.update", name, fn.Pos(), "Update inserts the new item (or reports success) although the old item was not in the tree", c.witness(t, len(t.Events)-1)...)
				}
				if found && (ins != 1 || !isB || !rb) {
					ok = false
					c.violated("C03.update", name, fn.Pos(), "Update deleted the old item but does not insert the new one exactly once and report success: the item is lost", c.witness(t, len(t.Events)-1)...)
				}
				if !found && !missing {
					if ok {
						c.violated("C03.update", name, fn.Pos(), "Update returns without having examined whether the old item was in the tree", c.witness(t, len(t.Events)-1)...)
					}
					ok = false
				}
			} else {
				good := ins == 1 && r.Kind == KBin && r.Op == token.NEQ && r.Args[0].Key() == del.Res.Key() && r.Args[1].isNilConst()
				// or the constant the path has established for `old != nil`
				if rb, isB := r.boolConst(); isB && ins == 1 && ((found && rb) || (missing && !rb)) {
					good = true
				}
				if !good {
					ok = false
					c.violated("C03.update", name, fn.Pos(), "UpdateOrInsert does not always insert the new item exactly once and report whether the old one existed", c.witness(t, len(t.Events)-1)...)
				}
			}
		}
		if ok && n > 0 {
			c.holds("C03.update", name, fn.Pos(), "")
		} else if ok {
			c.undecided("C03.update", name, fn.Pos(), "no path")
		}
	}
}

// nodeOfAddr: the node (or tree) object whose storage address a denotes.
func nodeOfAddr(a *Sym) *Sym {
	for a != nil {
		switch a.Kind {
		case KFieldAddr, KIndexAddr:
			a = a.Args[0]
		case KInit:
			// content of a cell: the items/children slice header of some node, or a loaded pointer
			in := a.Args[0]
			if in.Kind == KFieldAddr && (in.Field.Name() == "items" || in.Field.Name() == "children") {
				a = in.Args[0]
				continue
			}
			return a
		case KOp:
			if a.Name == "slice" {
				a = a.Args[0]
				continue
			}
			return a
		default:
			return a
		}
	}
	return a
}

// (2) ownership
func (x *btCtx) checkOwnership(rel string) {
	c := x.c
	nodeT := c.namedType(rel, "node")
	treeT := c.namedType(rel, "BTree")
	if nodeT == nil || treeT == nil {
		c.undecided("anchor", rel+".node", 0, "types not found")
		return
	}
	isNodePtr := func(t types.Type) bool {
		if p, ok := t.(*types.Pointer); ok {
			if n, ok := p.Elem().(*types.Named); ok {
				return n.Obj() == nodeT.Obj()
			}
		}
		return false
	}
	noInl := func(*ssa.Function, int) bool { return false }
	producers := map[string]bool{"mutableFor": true, "mutableChild": true, "newNode": true}
	selfGuarded := map[string]bool{"freeNode": true, "reset": true} // verified by checkCowPrimitives
	for _, fn := range c.funcsOf(rel) {
		if !x.writers[fn] || fn.Parent() != nil {
			continue
		}
		rn := recvNamedName(fn)
		if rn != "node" && rn != "BTree" {
			continue // slice helpers (items/children), free list: they act on what they are given
		}
		if producers[fn.Name()] || selfGuarded[fn.Name()] || fn.Name() == "print" {
			continue
		}
		// a function introduced since the rules were written is part of its callers' logic: it is expanded where it
		// is called (with the caller's knowledge of what was made mutable), not judged on its own
		if c.isNewHelper(fn) {
			continue
		}
		name := c.fname(fn)
		traces, complete := c.Trace(fn, TraceConfig{Inline: noInl})
		if !complete {
			c.undecided("C03.cow-ownership", name, fn.Pos(), "path budget exceeded")
			continue
		}
		ok, nWrites := true, 0
		recv := "$" + fn.Params[0].Name()
		for _, t := range traces {
			owned := map[string]bool{}
			if rn == "node" {
				owned[recv] = true // made mutable by the caller (checked at the call sites below)
			}
			rootVal := ""
			for i, e := range t.Events {
				// producers
				if e.Kind == EvCall && e.Callee != nil && producers[e.Callee.Name()] && e.Res != nil {
					owned[e.Res.Key()] = true
				}
				// tree root: the value stored into t.root
				if e.Kind == EvStore && e.Addr.Kind == KFieldAddr && e.Addr.Field.Name() == "root" {
					rootVal = e.Val.Key()
					continue // writing the tree's own root pointer is a tree-level write
				}
				if e.Kind == EvStore && e.Addr.Kind == KFieldAddr && (e.Addr.Field.Name() == "length" || e.Addr.Field.Name() == "cow" && e.Addr.Args[0].Key() == recv && rn == "BTree") {
					continue
				}
				var target *Sym
				what := ""
				switch {
				case e.Kind == EvStore && e.Addr.root().Kind != KAlloc:
					target = nodeOfAddr(e.Addr)
					what = "store to " + c.short(e.Addr.Key())
				case e.Kind == EvCall && e.Callee != nil && x.writers[e.Callee] && len(e.Args) > 0 && !producers[e.Callee.Name()] && !selfGuarded[e.Callee.Name()]:
					a0 := e.Args[0]
					if isNodePtr(typeOf(a0)) || a0.Kind == KFieldAddr || a0.Kind == KInit || a0.Kind == KParam || a0.Kind == KFresh {
						target = nodeOfAddr(a0)
						what = "call of " + e.Callee.Name()
					}
				case e.Kind == EvCall && e.Val != nil && e.Val.Name == "builtin:copy":
					if e.Args[0].root().Kind != KAlloc {
						target = nodeOfAddr(e.Args[0])
						what = "copy into " + c.short(e.Args[0].Key())
					}
				}
				if target == nil {
					continue
				}
				if rn == "BTree" && target.Key() == recv {
					continue // the tree object itself
				}
				nWrites++
				k := target.Key()
				good := owned[k] || (rootVal != "" && k == rootVal && owned[rootVal])
				// a node read back from t.root after it was made mutable
				if !good && target.Kind == KInit && target.Args[0].Kind == KFieldAddr && target.Args[0].Field.Name() == "root" && rootVal != "" && owned[rootVal] {
					good = true
				}
				if !good && ok {
					ok = false
					c.violated("C03.cow-ownership", name, e.Pos, fmt.Sprintf("%s acts on node %s, which on this path is neither the receiver of a node-level mutator nor obtained from mutableFor / mutableChild / newNode: the node may still be shared with a clone, so a write to one tree becomes visible in the other", what, c.short(k)), c.witness(t, i)...)
				}
			}
		}
		if ok && nWrites > 0 {
			c.holds("C03.cow-ownership", name, fn.Pos(), fmt.Sprintf("%d writes, all on owned nodes", nWrites))
		}
	}
}

// (2a,b,d,e) the copy-on-write primitives themselves
func (x *btCtx) checkCowPrimitives(rel string) {
	c := x.c
	noInl := func(*ssa.Function, int) bool { return false }
	cowF := c.mustField(rel, "node", "cow")
	if cowF == nil {
		return
	}
	if fn := c.mustFn(rel, "(*node).mutableFor"); fn != nil {
		traces, _ := c.Trace(fn, TraceConfig{Inline: noInl})
		ok, n := true, 0
		for _, t := range traces {
			if t.End != EndReturn {
				continue
			}
			n++
			facts := t.factsBefore(len(t.Events))
			same := hasFact(facts, func(f Fact) bool {
				_, isCow := isInitOfField(f.X, cowF)
				return isCow && f.Op == token.EQL && f.Y.Key() == t.Params[1].Key()
			})
			r := t.Ret[0]
			if r.Key() == t.Params[0].Key() {
				if !same {
					ok = false
					c.violated("C03.cow-primitives", "(*node).mutableFor", fn.Pos(), "the receiver is returned as mutable without `n.cow == cow` established: a node shared with a clone is modified in place", c.witness(t, len(t.Events)-1)...)
				}
				continue
			}
			// fresh node with copies
			fresh := false
			copies := 0
			for _, e := range t.Events {
				if e.Kind == EvCall && e.Callee != nil && e.Callee.Name() == "newNode" && e.Res.Key() == r.Key() {
					fresh = len(e.Args) > 0 && e.Args[0].Key() == t.Params[1].Key()
				}
				if e.Kind == EvCall && e.Val != nil && e.Val.Name == "builtin:copy" {
					src := nodeOfAddr(e.Args[1])
					dst := nodeOfAddr(e.Args[0])
					if src.Key() == t.Params[0].Key() && dst.Key() != t.Params[0].Key() {
						copies++
					}
				}
			}
			if same || !fresh || copies != 2 {
				ok = false
				c.violated("C03.cow-primitives", "(*node).mutableFor", fn.Pos(), fmt.Sprintf("for a node of another context mutableFor does not return a node newly taken from the requested context holding copies of items and children (fresh=%v, copies=%d)", fresh, copies), c.witness(t, len(t.Events)-1)...)
			}
		}
		if ok && n >= 2 {
			c.holds("C03.cow-primitives", "(*node).mutableFor", fn.Pos(), "returns n only under n.cow == cow, else a fresh copy")
		} else if ok {
			c.undecided("C03.cow-primitives", "(*node).mutableFor", fn.Pos(), "expected both the shared and the owned case")
		}
	}
	if fn := c.mustFn(rel, "(*node).mutableChild"); fn != nil {
		traces, _ := c.Trace(fn, TraceConfig{Inline: noInl})
		ok, n := true, 0
		for _, t := range traces {
			if t.End != EndReturn {
				continue
			}
			n++
			var mf *Event
			stored := false
			for _, e := range t.Events {
				if e.Kind == EvCall && e.Callee != nil && e.Callee.Name() == "mutableFor" {
					mf = e
				}
				if mf != nil && e.Kind == EvStore && e.Addr.Kind == KIndexAddr && e.Val.Key() == mf.Res.Key() && e.Addr.Args[1].Key() == t.Params[1].Key() {
					stored = true
				}
			}
			retOK := mf != nil && t.Ret[0].Key() == mf.Res.Key()
			if mf != nil && !retOK {
				// `return n.children[i]` right after the store: mutableFor (checked above) writes only the node it
				// returns, so the receiver's child slot read back is the copy just stored
				r := t.Ret[0]
				if r.Kind == KInit && r.Args[0].Kind == KIndexAddr && r.Args[0].Args[1].Key() == t.Params[1].Key() {
					if base := r.Args[0].Args[0]; base.Kind == KInit && base.Args[0].Kind == KFieldAddr && base.Args[0].Field != nil && base.Args[0].Field.Name() == "children" && base.Args[0].Args[0].Key() == t.Params[0].Key() {
						// nothing but loads between the store and the return
						afterStore, clean := false, true
						for _, e := range t.Events {
							if e.Kind == EvStore && e.Addr.Kind == KIndexAddr && e.Val.Key() == mf.Res.Key() {
								afterStore = true
								continue
							}
							if afterStore && e.Kind != EvLoad && e.Kind != EvReturn {
								clean = false
							}
						}
						retOK = afterStore && clean
					}
				}
			}
			good := mf != nil && stored && retOK
			if good {
				// context = the parent's own context
				_, isCow := isInitOfField(mf.Args[1], cowF)
				good = isCow
			}
			if !good {
				ok = false
				c.violated("C03.cow-primitives", "(*node).mutableChild", fn.Pos(), "mutableChild does not replace children[i] by its mutable copy for the parent's own context and return that copy: later writes go to a node that is not linked into this tree (or to a shared one)", c.witness(t, len(t.Events)-1)...)
			}
		}
		if ok && n > 0 {
			c.holds("C03.cow-primitives", "(*node).mutableChild", fn.Pos(), "")
		}
	}
	if fn := c.mustFn(rel, "(*copyOnWriteContext).freeNode"); fn != nil {
		traces, _ := c.Trace(fn, TraceConfig{Inline: noInl})
		ok, n := true, 0
		for _, t := range traces {
			for i, e := range t.Events {
				isWrite := (e.Kind == EvStore && e.Addr.root().Kind != KAlloc) || (e.Kind == EvCall && e.Callee != nil && x.writers[e.Callee])
				if !isWrite {
					continue
				}
				n++
				fb := t.factsBefore(i)
				owned := hasFact(fb, func(f Fact) bool {
					_, isCow := isInitOfField(f.X, cowF)
					return isCow && f.Op == token.EQL && f.Y.Key() == t.Params[0].Key()
				})
				if !owned && ok {
					ok = false
					c.violated("C03.cow-primitives", "(*copyOnWriteContext).freeNode", e.Pos, "a node is cleared / recycled without `n.cow == c` established: a node still used by a clone is emptied", c.witness(t, i)...)
				}
			}
		}
		// a node handed to the free list is empty: both its items and its children were truncated to 0 on that
		// path. A recycled node that still points at children starts its next life with a stale child.
		for _, t := range traces {
			for i, e := range t.Events {
				if !(e.Kind == EvCall && e.Callee != nil && e.Callee.Name() == "freeNode" && recvNamedName(e.Callee) == "FreeList") {
					continue
				}
				cleared := map[string]bool{}
				for _, y := range t.Events[:i] {
					if y.Kind == EvCall && y.Callee != nil && y.Callee.Name() == "truncate" && len(y.Args) == 2 && isIntConst(y.Args[1], 0) {
						if a := y.Args[0]; a.Kind == KFieldAddr && a.Field != nil && a.Args[0].Key() == t.Params[1].Key() {
							cleared[a.Field.Name()] = true
						}
					}
				}
				if !(cleared["items"] && cleared["children"]) && ok {
					ok = false
					c.violated("C03.cow-primitives", "(*copyOnWriteContext).freeNode", e.Pos, "a node is put on the free list without its items and its children having been truncated on this path: a recycled node keeps stale children (or items) and the next split or copy that reuses it builds them into the tree", c.witness(t, i)...)
				}
			}
		}
		if ok && n > 0 {
			c.holds("C03.cow-primitives", "(*copyOnWriteContext).freeNode", fn.Pos(), "clears only nodes of its own context")
		}
	}
	if fn := c.mustFn(rel, "(*BTree).Clone"); fn != nil {
		treeCow := c.mustField(rel, "BTree", "cow")
		traces, _ := c.Trace(fn, TraceConfig{Inline: noInl})
		ok, n := true, 0
		for _, t := range traces {
			if t.End != EndReturn || treeCow == nil {
				continue
			}
			n++
			var vals []*Sym
			var bases []string
			for _, e := range t.Events {
				if e.Kind == EvStore && e.Addr.isFieldAddrOf(treeCow) {
					vals = append(vals, e.Val)
					bases = append(bases, e.Addr.Args[0].Key())
				}
			}
			good := len(vals) == 2 && vals[0].Kind == KAlloc && vals[1].Kind == KAlloc && vals[0].Key() != vals[1].Key() && bases[0] != bases[1]
			if good {
				// one of the two trees is the receiver, the other the returned copy
				good = (bases[0] == t.Params[0].Key() || bases[1] == t.Params[0].Key()) && (t.Ret[0].Key() == bases[0] || t.Ret[0].Key() == bases[1])
			}
			if !good {
				ok = false
				c.violated("C03.cow-primitives", "(*BTree).Clone", fn.Pos(), "Clone does not give the original and the copy two distinct fresh contexts: nodes created before the clone are still considered owned by one of the trees and are modified in place under the other", c.witness(t, len(t.Events)-1)...)
			}
		}
		if ok && n > 0 {
			c.holds("C03.cow-primitives", "(*BTree).Clone", fn.Pos(), "two distinct fresh contexts")
		}
	}
}

// (3) scan entry table
func (x *btCtx) checkScanEntries(rel string) {
	c := x.c
	type ent struct {
		name      string
		dir       int64
		start     string // "p0", "p1", "nil"
		stop      string
		includeSt bool
	}
	table := []ent{
		{"AscendRange", 1, "p0", "p1", true},
		{"AscendLessThan", 1, "nil", "p0", false},
		{"AscendGreaterOrEqual", 1, "p0", "nil", true},
		{"AscendGreater", 1, "p0", "nil", false},
		{"Ascend", 1, "nil", "nil", false},
		{"DescendRange", -1, "p0", "p1", true},
		{"DescendLessOrEqual", -1, "p0", "nil", true},
		{"DescendLess", -1, "p0", "nil", false},
		{"DescendGreaterThan", -1, "nil", "p0", false},
		{"Descend", -1, "nil", "nil", false},
	}
	rootF := c.mustField(rel, "BTree", "root")
	for _, en := range table {
		fn := c.mustFn(rel, "(*BTree)."+en.name)
		if fn == nil || rootF == nil {
			continue
		}
		name := "(*btree.BTree)." + en.name
		// a scan entry written through a sibling (AscendGreaterOrEqual(p) = AscendRange(p, nil)) is walked into it
		entryNames := map[string]bool{}
		for _, e2 := range table {
			entryNames[e2.name] = true
		}
		traces, _ := c.Trace(fn, TraceConfig{Inline: func(callee *ssa.Function, depth int) bool {
			return depth < 3 && callee != fn && entryNames[callee.Name()] && recvNamedName(callee) == "BTree"
		}})
		ok, n := true, 0
		argOf := func(t *Trace, spec string) func(s *Sym) bool {
			return func(s *Sym) bool {
				switch spec {
				case "nil":
					return s.isNilConst()
				case "p0":
					return s.Key() == t.Params[1].Key()
				case "p1":
					return s.Key() == t.Params[2].Key()
				}
				return false
			}
		}
		for _, t := range traces {
			for i, e := range t.Events {
				if e.Kind != EvCall || e.Callee == nil || e.Callee.Name() != "iterate" {
					continue
				}
				n++
				good := len(e.Args) == 7
				if good {
					d, isD := e.Args[1].intConst()
					inc, isI := e.Args[4].boolConst()
					hit, isH := e.Args[5].boolConst()
					_, isRoot := isInitOfField(e.Args[0], rootF)
					good = isRoot && isD && d == en.dir && argOf(t, en.start)(e.Args[2]) && argOf(t, en.stop)(e.Args[3]) && isI && inc == en.includeSt && isH && !hit && e.Args[6].Key() == t.Params[len(t.Params)-1].Key()
				}
				if !good && ok {
					ok = false
					c.violated("C03.scan-entry", name, e.Pos, fmt.Sprintf("%s does not start the shared scan with (direction=%+d, start=%s, stop=%s, includeStart=%v, hit=false, caller's iterator): the scan runs the wrong way, includes/excludes the pivot wrongly or ignores a bound", en.name, en.dir, en.start, en.stop, en.includeSt), c.witness(t, i)...)
				}
				// only on a non-nil root
				fb := t.factsBefore(i)
				if !hasFact(fb, func(f Fact) bool {
					_, isRoot := isInitOfField(f.X, rootF)
					return isRoot && f.Op == token.NEQ && f.Y.isNilConst()
				}) && ok {
					ok = false
					c.violated("C03.scan-entry", name, e.Pos, "the scan dereferences the root without checking that the tree is non-empty", c.witness(t, i)...)
				}
			}
		}
		// a path that returns without scanning a non-empty tree must be justified by what it established: the pivot
		// lies beyond the extreme item in scan direction — strictly beyond for an inclusive scan
		for _, t := range traces {
			if !ok || t.End != EndReturn {
				continue
			}
			scanned := false
			for _, e := range t.Events {
				if e.Kind == EvCall && e.Callee != nil && e.Callee.Name() == "iterate" {
					scanned = true
				}
			}
			if scanned {
				continue
			}
			facts := t.factsBefore(len(t.Events))
			if hasFact(facts, func(f Fact) bool {
				_, isRoot := isInitOfField(f.X, rootF)
				return isRoot && f.Op == token.EQL && f.Y.isNilConst()
			}) {
				continue
			}
			justified := false
			if en.start == "p0" && en.stop == "nil" {
				pivot := t.Params[1]
				extreme := "max"
				if en.dir < 0 {
					extreme = "min"
				}
				var ext *Sym
				for _, e := range t.Events {
					if e.Kind == EvCall && e.Callee != nil && e.Callee.Name() == extreme && len(e.Args) == 1 && e.Res != nil {
						if _, isRoot := isInitOfField(e.Args[0], rootF); isRoot {
							ext = e.Res
						}
					}
				}
				if ext != nil {
					if hasFact(facts, func(f Fact) bool { return f.X.Key() == ext.Key() && f.Op == token.EQL && f.Y.isNilConst() }) {
						justified = true
					}
					for _, e := range t.Events {
						if e.Kind != EvCall || e.Method == nil || e.Method.Name() != "Less" || len(e.Args) != 2 || e.Res == nil {
							continue
						}
						v, known := condFact(facts, e.Res)
						if !known {
							continue
						}
						a, b := e.Args[0].Key(), e.Args[1].Key()
						// ascending: nothing lies after the pivot when !(pivot < max) [exclusive], max < pivot [inclusive];
						// descending: !(min < pivot) [exclusive], pivot < min [inclusive]
						beyond, notBefore := false, false
						if en.dir > 0 {
							beyond = a == ext.Key() && b == pivot.Key() && v
							notBefore = a == pivot.Key() && b == ext.Key() && !v
						} else {
							beyond = a == pivot.Key() && b == ext.Key() && v
							notBefore = a == ext.Key() && b == pivot.Key() && !v
						}
						if beyond || (notBefore && !en.includeSt) {
							justified = true
						}
					}
				}
			}
			if !justified {
				ok = false
				c.violated("C03.scan-entry", name, fn.Pos(), en.name+" returns without running the scan on a non-empty tree, and the path has not established that no item can lie in the range (for an inclusive scan the pivot must be strictly beyond the extreme item): items of the range are not visited", c.witness(t, len(t.Events)-1)...)
			}
		}
		if ok && n > 0 {
			c.holds("C03.scan-entry", name, fn.Pos(), "")
		} else if n == 0 {
			c.undecided("C03.scan-entry", name, fn.Pos(), "no call of the shared scan found")
		}
	}
}

// (6) + (7)
func (x *btCtx) checkShapeAndLength(rel string) {
	c := x.c
	noInl := func(*ssa.Function, int) bool { return false }
	helperOn := func(e *Event, name, field string) (*Sym, bool) {
		// call of (*items|*children).name on &X.field ; returns X
		if e.Kind != EvCall || e.Callee == nil || e.Callee.Name() != name || len(e.Args) == 0 {
			return nil, false
		}
		a := e.Args[0]
		if a.Kind == KFieldAddr && a.Field.Name() == field {
			return a.Args[0], true
		}
		return nil, false
	}
	// split
	if fn := c.mustFn(rel, "(*node).split"); fn != nil {
		traces, _ := c.Trace(fn, TraceConfig{Inline: noInl})
		ok, n := true, 0
		for _, t := range traces {
			if t.End != EndReturn {
				continue
			}
			n++
			i := t.Params[1]
			var itemsTr, childTr *Event
			for _, e := range t.Events {
				if _, is := helperOn(e, "truncate", "items"); is {
					itemsTr = e
				}
				if _, is := helperOn(e, "truncate", "children"); is {
					childTr = e
				}
			}
			facts := t.factsBefore(len(t.Events))
			hasKids := false
			for _, f := range facts {
				// len(children) found positive, in any spelling (> 0, != 0, >= 1, negated == 0)
				for _, side := range []*Sym{f.X, f.Y} {
					if side.Kind == KOp && side.Name == "len" {
						if pos, _ := factsSign(facts, lf(side)); pos {
							hasKids = true
						}
					}
				}
			}
			good := itemsTr != nil && lf(itemsTr.Args[1]).equal(lf(i))
			if hasKids {
				good = good && childTr != nil && lf(childTr.Args[1]).equal(lf(i).add(lfConst(1), 1))
			} else {
				good = good && childTr == nil
			}
			if !good {
				ok = false
				c.violated("C03.shape-coupling", "(*node).split", fn.Pos(), "split does not cut the items at i and (for an inner node) the children at i+1: the two halves no longer satisfy children = items + 1", c.witness(t, len(t.Events)-1)...)
			}
		}
		if ok && n >= 2 {
			c.holds("C03.shape-coupling", "(*node).split", fn.Pos(), "items truncated at i, children at i+1")
		} else if ok {
			c.undecided("C03.shape-coupling", "(*node).split", fn.Pos(), "expected a leaf and an inner-node path")
		}
	}
	if fn := c.mustFn(rel, "(*node).maybeSplitChild"); fn != nil {
		traces, _ := c.Trace(fn, TraceConfig{Inline: noInl})
		ok, n := true, 0
		for _, t := range traces {
			if t.End != EndReturn {
				continue
			}
			var ii, ci *Event
			var split *Event
			for _, e := range t.Events {
				if b, is := helperOn(e, "insertAt", "items"); is && b.Key() == t.Params[0].Key() {
					ii = e
				}
				if b, is := helperOn(e, "insertAt", "children"); is && b.Key() == t.Params[0].Key() {
					ci = e
				}
				if e.Kind == EvCall && e.Callee != nil && e.Callee.Name() == "split" {
					split = e
				}
			}
			if split == nil {
				if ii != nil || ci != nil {
					ok = false
				}
				continue
			}
			n++
			i := t.Params[1]
			good := ii != nil && ci != nil && lf(ii.Args[1]).equal(lf(i)) && lf(ci.Args[1]).equal(lf(i).add(lfConst(1), 1))
			if good {
				good = ii.Args[2].Key() == split.Res.Args[0].Key() && ci.Args[2].Key() == split.Res.Args[1].Key()
			}
			if !good {
				ok = false
				c.violated("C03.shape-coupling", "(*node).maybeSplitChild", fn.Pos(), "after splitting child i the separator is not inserted at items[i] together with the new node at children[i+1]", c.witness(t, len(t.Events)-1)...)
			}
		}
		if ok && n > 0 {
			c.holds("C03.shape-coupling", "(*node).maybeSplitChild", fn.Pos(), "items.insertAt(i, sep) with children.insertAt(i+1, second)")
		}
	}
	if fn := c.mustFn(rel, "(*node).growChildAndRemove"); fn != nil {
		traces, _ := c.Trace(fn, TraceConfig{Inline: noInl})
		ok, n := true, 0
		for _, t := range traces {
			var ir, cr *Event
			for _, e := range t.Events {
				if b, is := helperOn(e, "removeAt", "items"); is && b.Key() == t.Params[0].Key() {
					ir = e
				}
				if b, is := helperOn(e, "removeAt", "children"); is && b.Key() == t.Params[0].Key() {
					cr = e
				}
			}
			if ir == nil && cr == nil {
				continue
			}
			n++
			good := ir != nil && cr != nil && lf(cr.Args[1]).equal(lf(ir.Args[1]).add(lfConst(1), 1))
			if !good && ok {
				ok = false
				c.violated("C03.shape-coupling", "(*node).growChildAndRemove merge", fn.Pos(), "the merge step does not remove separator i together with child i+1 from the parent", c.witness(t, len(t.Events)-1)...)
			}
		}
		if ok && n > 0 {
			c.holds("C03.shape-coupling", "(*node).growChildAndRemove merge", fn.Pos(), "items.removeAt(i) with children.removeAt(i+1)")
		}
	}
	// (6b) insert: a path that reports "replaced" (returns the old item of a slot) has stored the new item in
	// that slot; a path that reports "added" (nil) has inserted the new item; otherwise the answer is the
	// recursive call's on the mutable child
	if fn := c.mustFn(rel, "(*node).insert"); fn != nil {
		traces, _ := c.Trace(fn, TraceConfig{Inline: noInl})
		ok, n := true, 0
		item := "$" + fn.Params[1].Name()
		for _, t := range traces {
			if t.End != EndReturn {
				continue
			}
			n++
			r := t.Ret[0]
			switch {
			case r.isNilConst():
				added := false
				for _, e := range t.Events {
					if _, is := helperOn(e, "insertAt", "items"); is && len(e.Args) == 3 && e.Args[2].Key() == item {
						added = true
					}
				}
				if !added && ok {
					ok = false
					c.violated("C03.insert-replace", "(*node).insert", fn.Pos(), "insert reports that an item was added (nil) on a path that does not insert the new item", c.witness(t, len(t.Events)-1)...)
				}
			case r.Kind == KInit && r.Args[0].Kind == KIndexAddr:
				stored := false
				for _, e := range t.Events {
					if e.Kind == EvStore && e.Addr.Key() == r.Args[0].Key() && e.Val.Key() == item {
						stored = true
					}
				}
				if !stored && ok {
					ok = false
					c.violated("C03.insert-replace", "(*node).insert", fn.Pos(), "insert returns the old item of a slot (\"replaced\") without storing the new item in that slot: the key keeps its stale item although the caller is told it was replaced (e.g. when the key is the median promoted by a split on the way down)", c.witness(t, len(t.Events)-1)...)
				}
			default:
				rec := false
				for _, e := range t.Events {
					if e.Kind == EvCall && e.Callee != nil && e.Callee.Name() == "insert" && e.Res.Key() == r.Key() && len(e.Args) >= 2 && e.Args[1].Key() == item {
						rec = true
					}
				}
				if !rec && ok {
					ok = false
					c.violated("C03.insert-replace", "(*node).insert", fn.Pos(), "insert returns something that is neither nil, the old item of the slot it overwrote, nor the result of inserting the same item into the child: "+c.short(r.Key()), c.witness(t, len(t.Events)-1)...)
				}
			}
		}
		if ok && n > 0 {
			c.holds("C03.insert-replace", "(*node).insert", fn.Pos(), fmt.Sprintf("%d paths", n))
		}
	}

	// (6c) rebalancing before a delete descends: the merge branch of growChildAndRemove is reached only when
	// neither existing sibling has an item to spare — otherwise a merge with a rich sibling produces a node above
	// the degree bound. For the left and for the right side the path must have established "no such sibling"
	// (i <= 0 / i >= len(n.items)) or "that sibling is at its minimum" (len(sibling.items) <= minItems);
	// implication is decided on the linear form of each branch fact.
	if fn := c.mustFn(rel, "(*node).growChildAndRemove"); fn != nil {
		traces, complete := c.Trace(fn, TraceConfig{Inline: noInl})
		cons := "(*node).growChildAndRemove"
		if !complete {
			c.undecided("C03.rebalance-guard", cons, fn.Pos(), "path budget exceeded")
		} else {
			iKey, minKey := "$"+fn.Params[1].Name(), "$"+fn.Params[3].Name()
			ok, merges := true, 0
			for _, t := range traces {
				mergeAt := -1
				for i, e := range t.Events {
					if _, is := helperOn(e, "removeAt", "children"); is && e.Args[0].root().Key() == "$"+fn.Params[0].Name() {
						mergeAt = i
					}
				}
				if mergeAt < 0 {
					continue
				}
				merges++
				facts := t.factsBefore(mergeAt)
				// classify the len(...) terms that occur in the facts
				lenOwn, lenLeft, lenRight := "", "", ""
				classify := func(x *Sym) {
					x.walk(func(y *Sym) {
						if y.Kind != KOp || y.Name != "len" || len(y.Args) != 1 {
							return
						}
						key := boundKey(y)
						if !strings.Contains(key, ".items") {
							return
						}
						delta, viaChild := int64(0), false
						y.Args[0].walk(func(z *Sym) {
							if z.Kind == KIndexAddr && strings.Contains(z.Args[0].Key(), ".children") {
								d := lf(z.Args[1]).add(lf(&Sym{Kind: KParam, Ref: fn.Params[1], Typ: fn.Params[1].Type()}), -1)
								if cst, isC := d.isConst(); isC && cst.IsInt64() {
									delta, viaChild = cst.Int64(), true
								}
							}
						})
						switch {
						case !viaChild && !strings.Contains(key, ".children"):
							lenOwn = key
						case viaChild && delta == -1:
							lenLeft = key
						case viaChild && delta == 1:
							lenRight = key
						}
					})
				}
				for _, f := range facts {
					classify(f.X)
					classify(f.Y)
				}
				one := func(k string, v int64) linForm {
					return linForm{coef: map[string]*big.Int{k: big.NewInt(v)}, c: new(big.Int)}
				}
				implied := func(target linForm) bool { return factsImplyGE0(facts, target) }
				leftOK := implied(one(iKey, -1)) // i <= 0
				if !leftOK && lenLeft != "" {
					leftOK = implied(one(minKey, 1).add(one(lenLeft, 1), -1))
				}
				rightOK := false
				if lenOwn != "" {
					rightOK = implied(one(iKey, 1).add(one(lenOwn, 1), -1)) // i >= len(n.items)
				}
				if !rightOK && lenRight != "" {
					rightOK = implied(one(minKey, 1).add(one(lenRight, 1), -1))
				}
				if (!leftOK || !rightOK) && ok {
					ok = false
					side := "left"
					if leftOK {
						side = "right"
					}
					c.violated("C03.rebalance-guard", cons, t.Events[mergeAt].Pos, "two children are merged on a path that has established neither that the "+side+" sibling does not exist nor that it is at its minimum: a child whose "+side+" sibling could spare an item is merged instead, producing a node above the degree bound (2*degree-1 items)", c.witness(t, mergeAt)...)
				}
			}
			if ok && merges > 0 {
				c.holds("C03.rebalance-guard", cons, fn.Pos(), fmt.Sprintf("%d merge paths, each after both siblings were found absent or at minimum", merges))
			} else if ok {
				c.undecided("C03.rebalance-guard", cons, fn.Pos(), "no merge path recognised")
			}
		}
	}

	// (6d) the slice primitives every structural operation is built from (items and children: two copies)
	c.checkBtreeSlicePrimitives(rel)
	// (6e) the read side: find / get / min / max and their tree-level wrappers
	c.checkBtreeLookup(rel)

	// (7) length accounting
	lengthF := c.mustField(rel, "BTree", "length")
	rootF := c.mustField(rel, "BTree", "root")
	if lengthF == nil || rootF == nil {
		return
	}
	if fn := c.mustFn(rel, "(*BTree).ReplaceOrInsert"); fn != nil {
		traces, _ := c.Trace(fn, TraceConfig{Inline: noInl})
		ok, n := true, 0
		for _, t := range traces {
			if t.End != EndReturn {
				continue
			}
			n++
			facts := t.factsBefore(len(t.Events))
			inc := 0
			for _, e := range t.Events {
				if e.Kind == EvStore && e.Addr.isFieldAddrOf(lengthF) {
					if d, isD := counterDelta(e); isD && d == 1 {
						inc++
					} else {
						inc += 100
					}
				}
			}
			var ins *Event
			for _, e := range t.Events {
				if e.Kind == EvCall && e.Callee != nil && e.Callee.Name() == "insert" {
					ins = e
				}
			}
			added := false
			if ins == nil {
				added = true // empty tree: the item becomes the root's only item
			} else {
				added = hasFact(facts, func(f Fact) bool { return f.X.Key() == ins.Res.Key() && f.Op == token.EQL && f.Y.isNilConst() })
				replaced := hasFact(facts, func(f Fact) bool { return f.X.Key() == ins.Res.Key() && f.Op == token.NEQ && f.Y.isNilConst() })
				if !added && !replaced {
					ok = false
					c.violated("C03.length", "(*BTree).ReplaceOrInsert", fn.Pos(), "the length is not adjusted according to whether the insert added or replaced an item (its result is not examined)", c.witness(t, len(t.Events)-1)...)
					continue
				}
			}
			want := 0
			if added {
				want = 1
			}
			if inc != want {
				ok = false
				c.violated("C03.length", "(*BTree).ReplaceOrInsert", fn.Pos(), fmt.Sprintf("length changes by %d on a path where the insert %s an item: Len() no longer equals the item count", inc, map[bool]string{true: "added", false: "replaced"}[added]), c.witness(t, len(t.Events)-1)...)
			}
		}
		if ok && n > 0 {
			c.holds("C03.length", "(*BTree).ReplaceOrInsert", fn.Pos(), "length++ exactly when an item was added")
		}
	}
	if fn := c.mustFn(rel, "(*BTree).deleteItem"); fn != nil {
		traces, _ := c.Trace(fn, TraceConfig{Inline: noInl})
		ok, n := true, 0
		for _, t := range traces {
			if t.End != EndReturn {
				continue
			}
			n++
			facts := t.factsBefore(len(t.Events))
			dec := 0
			var rem *Event
			for _, e := range t.Events {
				if e.Kind == EvStore && e.Addr.isFieldAddrOf(lengthF) {
					if d, isD := counterDelta(e); isD && d == -1 {
						dec++
					} else {
						dec += 100
					}
				}
				if e.Kind == EvCall && e.Callee != nil && e.Callee.Name() == "remove" {
					rem = e
				}
			}
			found := rem != nil && hasFact(facts, func(f Fact) bool { return f.X.Key() == rem.Res.Key() && f.Op == token.NEQ && f.Y.isNilConst() })
			notFound := rem != nil && hasFact(facts, func(f Fact) bool { return f.X.Key() == rem.Res.Key() && f.Op == token.EQL && f.Y.isNilConst() })
			if rem != nil && !found && !notFound {
				ok = false
				c.violated("C03.length", "(*BTree).deleteItem", fn.Pos(), "the length is not adjusted according to whether the remove found an item (its result is not examined): Len() drifts from the item count", c.witness(t, len(t.Events)-1)...)
				continue
			}
			want := 0
			if found {
				want = 1
			}
			if dec != want {
				ok = false
				c.violated("C03.length", "(*BTree).deleteItem", fn.Pos(), fmt.Sprintf("length decreases %d times on a path where the remove %s an item", dec, map[bool]string{true: "found", false: "did not find"}[found]), c.witness(t, len(t.Events)-1)...)
			}
			// the root is re-examined after every remove — also when nothing was found: a remove of an absent key can
			// still have merged the root's last two children, leaving a root without items that must be replaced by
			// its only child (otherwise the empty-root guard turns every later delete into a no-op)
			if rem != nil {
				collapseTested := false
				seenRem := false
				for _, e := range t.Events {
					if e == rem {
						seenRem = true
						continue
					}
					if seenRem && e.Kind == EvBranch && e.Cond.Kind == KBin && e.Cond.Args[0].Kind == KOp && e.Cond.Args[0].Name == "len" && strings.Contains(e.Cond.Args[0].Key(), ".items") && (strings.Contains(e.Cond.Args[0].Key(), ".root") || (len(rem.Args) > 0 && strings.Contains(e.Cond.Args[0].Key(), rem.Args[0].Key()))) {
						// the node examined is the tree's root: read again from the root field, or the node remove was called on
						collapseTested = true
					}
				}
				if !collapseTested && ok {
					ok = false
					c.violated("C03.shape-coupling", "(*BTree).deleteItem root collapse", fn.Pos(), "a path returns after remove without re-examining the root (len(root.items) == 0 with children): a remove that merged the root's children leaves an item-less root in place and later deletes silently do nothing", c.witness(t, len(t.Events)-1)...)
				}
			}
			if rem != nil && t.Ret[0].Key() != rem.Res.Key() && !(notFound && t.Ret[0].isNilConst()) {
				ok = false
				c.violated("C03.length", "(*BTree).deleteItem", fn.Pos(), "the item returned is not the item removed", c.witness(t, len(t.Events)-1)...)
			}
		}
		if ok && n > 0 {
			c.holds("C03.length", "(*BTree).deleteItem", fn.Pos(), "length-- exactly when an item was removed")
		}
	}
	if fn := c.mustFn(rel, "(*BTree).Clear"); fn != nil {
		traces, _ := c.Trace(fn, TraceConfig{Inline: noInl})
		ok, n := true, 0
		for _, t := range traces {
			if t.End != EndReturn {
				continue
			}
			n++
			r0, l0 := false, false
			for _, e := range t.Events {
				if e.Kind == EvStore && e.Addr.isFieldAddrOf(rootF) && e.Val.isNilConst() {
					r0 = true
				}
				if e.Kind == EvStore && e.Addr.isFieldAddrOf(lengthF) {
					z, isC := e.Val.intConst()
					l0 = isC && z == 0
				}
			}
			if !r0 || !l0 {
				ok = false
			}
		}
		c.check(ok && n > 0, "C03.length", "(*BTree).Clear", fn.Pos(), "root = nil and length = 0 together", "Clear does not reset root and length together")
	}
}

// checkBtreeSlicePrimitives: insertAt / removeAt / pop / truncate of the items and children slices.
//
//	insertAt(i, x): *s = append(*s, nil); the tail [i:] is shifted to [i+1:] unless i is the new last index; (*s)[i] = x
//	removeAt(i):    returns the old (*s)[i]; [i+1:] is shifted to [i:]; *s = (*s)[:len-1]
//	pop():          returns the old (*s)[len-1]; *s = (*s)[:len-1]
//	truncate(i):    *s = (*s)[:i]
//
// Decided on the symbolic arguments (linear forms), for both copies, which therefore agree.
func (c *Ctx) checkBtreeSlicePrimitives(rel string) {
	noInl := func(*ssa.Function, int) bool { return false }
	for _, typ := range []string{"items", "children"} {
		for _, m := range []string{"insertAt", "removeAt", "pop", "truncate"} {
			fn := c.mustFn(rel, "(*"+typ+")."+m)
			if fn == nil {
				continue
			}
			cons := "(*" + typ + ")." + m
			traces, complete := c.Trace(fn, TraceConfig{Inline: noInl})
			if !complete {
				c.undecided("C03.slice-primitives", cons, fn.Pos(), "path budget exceeded")
				continue
			}
			sKey := "$" + fn.Params[0].Name()
			old := "*" + sKey
			lfOf := func(x *Sym) linForm { return lf(x) }
			idx := linForm{}
			if len(fn.Params) > 1 {
				idx = lfOf(&Sym{Kind: KParam, Ref: fn.Params[1], Typ: fn.Params[1].Type()})
			}
			lenOld := lfOf(&Sym{Kind: KOp, Name: "len", Args: []*Sym{{Kind: KInit, Args: []*Sym{{Kind: KParam, Ref: fn.Params[0], Typ: fn.Params[0].Type()}}}}})
			isNone := func(x *Sym) bool { return x.Kind == KConst && x.Name == "none" }
			ok, n := true, 0
			fail := func(t *Trace, msg string) {
				if ok {
					ok = false
					c.violated("C03.slice-primitives", cons, fn.Pos(), msg, c.witness(t, len(t.Events)-1)...)
				}
			}
			for _, t := range traces {
				if t.End != EndReturn {
					continue
				}
				n++
				var finalS *Sym
				var copies []*Event
				var idxStore *Event
				for _, e := range t.Events {
					if e.Kind == EvStore && e.Addr.Key() == sKey {
						finalS = e.Val
					}
					if e.Kind == EvCall && e.Val != nil && e.Val.Name == "builtin:copy" {
						copies = append(copies, e)
					}
					if e.Kind == EvStore && e.Addr.Kind == KIndexAddr && !e.Val.isNilConst() {
						idxStore = e
					}
				}
				switch m {
				case "insertAt":
					if finalS == nil || finalS.Kind != KOp || finalS.Name != "append" || finalS.Args[0].Key() != old {
						fail(t, "the slice is not extended by one element (`*s = append(*s, nil)`)")
						continue
					}
					app := finalS.Key()
					if idxStore == nil || idxStore.Addr.Args[0].Key() != app || !lfOf(idxStore.Addr.Args[1]).equal(idx) || idxStore.Val.Key() != "$"+fn.Params[2].Name() {
						fail(t, "the new element is not stored at the requested index of the extended slice")
						continue
					}
					shifted := false
					for _, cp := range copies {
						d, sr := cp.Args[0], cp.Args[1]
						if d.Kind == KOp && d.Name == "slice" && sr.Kind == KOp && sr.Name == "slice" && d.Args[0].Key() == app && sr.Args[0].Key() == app &&
							lfOf(d.Args[1]).equal(idx.add(lfConst(1), 1)) && lfOf(sr.Args[1]).equal(idx) && isNone(d.Args[2]) && isNone(sr.Args[2]) {
							shifted = true
						}
					}
					if !shifted {
						// allowed only when the index was found to be the last position (index >= len(new) is impossible;
						// index < len(new) false means index == len(old)+... : nothing to shift)
						// index >= len(extended) - 1: the new element goes to the last slot
						lenApp := lfOf(&Sym{Kind: KOp, Name: "len", Args: []*Sym{finalS}})
						noShiftNeeded := factsImplyGE0(t.factsBefore(len(t.Events)), idx.add(lenApp, -1).add(lfConst(1), 1))
						if !noShiftNeeded {
							fail(t, "the elements from the index onwards are not shifted up by one before the new element is stored: the element at the index is overwritten (lost) and the last slot stays nil")
						}
					}
				case "removeAt":
					want := &Sym{}
					_ = want
					r := t.Ret[0]
					goodRet := r.Kind == KInit && r.Args[0].Kind == KIndexAddr && r.Args[0].Args[0].Key() == old && lfOf(r.Args[0].Args[1]).equal(idx)
					if goodRet {
						// read before the tail is pulled back
						ld, cp := -1, -1
						for i, e := range t.Events {
							if e.Kind == EvLoad && e.Res.Key() == r.Key() && ld < 0 {
								ld = i
							}
							if e.Kind == EvCall && e.Val != nil && e.Val.Name == "builtin:copy" && cp < 0 {
								cp = i
							}
						}
						goodRet = ld >= 0 && (cp < 0 || ld < cp)
					}
					if !goodRet {
						fail(t, "the value returned is not the element that was at the index (read before the tail is pulled back)")
						continue
					}
					shifted := false
					for _, cp := range copies {
						d, sr := cp.Args[0], cp.Args[1]
						if d.Kind == KOp && d.Name == "slice" && sr.Kind == KOp && sr.Name == "slice" && d.Args[0].Key() == old && sr.Args[0].Key() == old &&
							lfOf(d.Args[1]).equal(idx) && lfOf(sr.Args[1]).equal(idx.add(lfConst(1), 1)) && isNone(d.Args[2]) && isNone(sr.Args[2]) {
							shifted = true
						}
					}
					if !shifted {
						fail(t, "the elements after the index are not pulled back by one (copy((*s)[i:], (*s)[i+1:]))")
						continue
					}
					if finalS == nil || finalS.Kind != KOp || finalS.Name != "slice" || finalS.Args[0].Key() != old || !isNone(finalS.Args[1]) || !lfOf(finalS.Args[2]).equal(lenOld.add(lfConst(1), -1)) {
						fail(t, "the slice is not shortened by exactly one element")
					}
				case "pop":
					r := t.Ret[0]
					goodRet := r.Kind == KInit && r.Args[0].Kind == KIndexAddr && r.Args[0].Args[0].Key() == old && lfOf(r.Args[0].Args[1]).equal(lenOld.add(lfConst(1), -1))
					if !goodRet {
						fail(t, "the value returned is not the last element")
						continue
					}
					if finalS == nil || finalS.Kind != KOp || finalS.Name != "slice" || finalS.Args[0].Key() != old || !isNone(finalS.Args[1]) || !lfOf(finalS.Args[2]).equal(lenOld.add(lfConst(1), -1)) {
						fail(t, "the slice is not shortened by exactly one element")
					}
				case "truncate":
					var first *Sym
					for _, e := range t.Events {
						if e.Kind == EvStore && e.Addr.Key() == sKey {
							first = e.Val
							break
						}
					}
					if first == nil || first.Kind != KOp || first.Name != "slice" || first.Args[0].Key() != old || !isNone(first.Args[1]) || !lfOf(first.Args[2]).equal(idx) {
						fail(t, "the slice is not cut to its first `index` elements")
					}
				}
			}
			if ok && n > 0 {
				c.holds("C03.slice-primitives", cons, fn.Pos(), fmt.Sprintf("%d paths", n))
			} else if ok {
				c.undecided("C03.slice-primitives", cons, fn.Pos(), "no returning path")
			}
		}
	}
}

// checkBtreeLookup: the read side of the tree.
//
//	items.find(x): r = sort.Search(len(s), i -> x.Less(s[i])); reports (r-1, true) exactly when r > 0 and
//	               !s[r-1].Less(x) (i.e. s[r-1] == x under the order), else (r, false)
//	node.get(k):   (i, found) = items.find(k); found -> items[i]; else children[i].get(k) when there are children; else nil
//	min / max:     descend children[0] / children[len-1]; return items[0] / items[len-1]
//	BTree.Get/Has/Min/Max: root nil -> nil, else the node-level function on the root with the caller's key
func (c *Ctx) checkBtreeLookup(rel string) {
	noInl := func(*ssa.Function, int) bool { return false }
	cfg := TraceConfig{Inline: noInl}
	rule := "C03.lookup"
	// ---- find
	if fn := c.mustFn(rel, "(items).find"); fn != nil {
		cons := "(items).find"
		ts, _ := c.Trace(fn, cfg)
		good, n, why := true, 0, ""
		item := fn.Params[1]
		for _, t := range ts {
			if t.End != EndReturn || len(t.Ret) != 2 {
				continue
			}
			n++
			var search, less *Event
			for _, e := range t.Events {
				if e.Kind == EvCall && e.callName() == "sort.Search" {
					search = e
				}
				if e.Kind == EvCall && e.Method != nil && e.Method.Name() == "Less" {
					less = e
				}
			}
			if search == nil || len(search.Args) != 2 || search.Args[0].Kind != KOp || search.Args[0].Name != "len" {
				good, why = false, "the position is not found with sort.Search over the slice"
				continue
			}
			r := lf(search.Res)
			facts := t.factsBefore(len(t.Events))
			// r > 0 in any spelling (sort.Search never returns a negative position, so r != 0 says the same)
			pos, _ := factsSign(facts, r)
			found, isB := t.Ret[1].boolConst()
			if !isB {
				good, why = false, "found is not decided"
				continue
			}
			// the equality probe: s[r-1].Less(item)
			probeOK := false
			var probeVal, probeKnown bool
			if less != nil && len(less.Args) == 2 {
				recv := less.Args[0]
				if recv.Kind == KInit && recv.Args[0].Kind == KIndexAddr && lf(recv.Args[0].Args[1]).equal(r.add(lfConst(1), -1)) {
					// argument is the item (through its spilled cell)
					probeOK = true
					probeVal, probeKnown = boolFact(facts, less.Res)
				}
			}
			if found {
				if !(pos && probeOK && probeKnown && !probeVal && lf(t.Ret[0]).equal(r.add(lfConst(1), -1))) {
					good, why = false, "found is reported without `r > 0 && !s[r-1].Less(item)`, or the index returned is not r-1"
				}
			} else {
				sameIdx := lf(t.Ret[0]).equal(r)
				if k, isC := t.Ret[0].intConst(); !sameIdx && isC {
					// `if r == 0 { return 0, false }`: the constant the path established for r
					sameIdx = hasFact(facts, func(f Fact) bool {
						z, isz := f.Y.intConst()
						return f.X.Key() == search.Res.Key() && isz && z == k && f.Op == token.EQL
					})
				}
				if !sameIdx {
					good, why = false, "the insertion index returned on a miss is not sort.Search's result"
				}
				if pos && !(probeOK && probeKnown && probeVal) {
					good, why = false, "a miss is reported for r > 0 without s[r-1].Less(item) having been found true: an item equal to s[r-1] is not found"
				}
			}
		}
		// the search predicate
		if len(fn.AnonFuncs) == 1 {
			cts, _ := c.Trace(fn.AnonFuncs[0], cfg)
			for _, t := range cts {
				if t.End != EndReturn {
					continue
				}
				okp := false
				for _, e := range t.Events {
					if e.Kind == EvCall && e.Method != nil && e.Method.Name() == "Less" && len(e.Args) == 2 && e.Res.Key() == t.Ret[0].Key() {
						a := e.Args[1]
						if a.Kind == KInit && a.Args[0].Kind == KIndexAddr && a.Args[0].Args[1].Key() == "$"+fn.AnonFuncs[0].Params[0].Name() && strings.Contains(e.Args[0].Key(), item.Name()) {
							okp = true
						}
					}
				}
				if !okp {
					good, why = false, "the search predicate is not `item.Less(s[i])`"
				}
			}
		} else {
			good, why = false, "search predicate closure not found"
		}
		c.check(good && n > 0, rule, cons, fn.Pos(), "sort.Search + equality probe at r-1", "items.find: "+why+" — Get/Has/Delete/ReplaceOrInsert and every scan start from this position")
	}
	// ---- get
	if fn := c.mustFn(rel, "(*node).get"); fn != nil {
		cons := "(*node).get"
		ts, _ := c.Trace(fn, cfg)
		good, n, why := true, 0, ""
		key := "$" + fn.Params[1].Name()
		for _, t := range ts {
			if t.End != EndReturn {
				continue
			}
			n++
			var find, rec *Event
			for _, e := range t.Events {
				if e.Kind == EvCall && e.Callee != nil && e.Callee.Name() == "find" {
					find = e
				}
				if e.Kind == EvCall && e.Callee != nil && e.Callee.Name() == "get" {
					rec = e
				}
			}
			if find == nil || len(find.Args) != 2 || find.Args[1].Key() != key || !strings.Contains(find.Args[0].Key(), ".items") || find.Res.Kind != KTuple {
				good, why = false, "the node's items are not searched for the caller's key"
				continue
			}
			idx := find.Res.Args[0]
			facts := t.factsBefore(len(t.Events))
			fv, fk := boolFact(facts, find.Res.Args[1])
			r := t.Ret[0]
			switch {
			case fk && fv:
				if !(r.Kind == KInit && r.Args[0].Kind == KIndexAddr && strings.Contains(r.Args[0].Args[0].Key(), ".items") && r.Args[0].Args[1].Key() == idx.Key()) {
					good, why = false, "a hit does not return items[i] at the index find reported"
				}
			case fk && !fv && rec != nil:
				recv := rec.Args[0]
				if !(rec.Res.Key() == r.Key() && len(rec.Args) == 2 && rec.Args[1].Key() == key && recv.Kind == KInit && recv.Args[0].Kind == KIndexAddr && strings.Contains(recv.Args[0].Args[0].Key(), ".children") && recv.Args[0].Args[1].Key() == idx.Key()) {
					good, why = false, "a miss in an internal node does not continue in children[i] (the index find reported) with the same key"
				}
			case fk && !fv:
				if !r.isNilConst() {
					good, why = false, "a miss in a leaf does not return nil"
				}
			default:
				good, why = false, "the result does not depend on find's `found`"
			}
		}
		c.check(good && n > 0, rule, cons, fn.Pos(), "items[i] on a hit, children[i].get(key) on a miss", "node.get: "+why)
	}
	// ---- min / max
	for _, m := range []string{"min", "max"} {
		fn := c.fnOrSuccessor(rel, m, c.field(rel, "node", "children"), c.field(rel, "node", "items"))
		if fn == nil {
			continue
		}
		ts, _ := c.Trace(fn, cfg)
		good, n, why := true, 0, ""
		idxOK := func(ia *Sym, field string) bool {
			// ia = &X.field[idx]: idx is 0 (min) or len(X.field)-1 (max)
			if ia.Kind != KIndexAddr || !strings.Contains(ia.Args[0].Key(), "."+field) {
				return false
			}
			if m == "min" {
				return isIntConst(ia.Args[1], 0)
			}
			want := lf(&Sym{Kind: KOp, Name: "len", Args: []*Sym{ia.Args[0]}}).add(lfConst(1), -1)
			return lf(ia.Args[1]).equal(want)
		}
		for _, t := range ts {
			for _, e := range t.Events {
				if e.Kind == EvLoad && e.Addr.Kind == KIndexAddr && strings.Contains(e.Addr.Args[0].Key(), ".children") {
					n++
					if !idxOK(e.Addr, "children") {
						good, why = false, "the descent does not follow the "+map[string]string{"min": "first", "max": "last"}[m]+" child"
					}
				}
			}
			if t.End == EndReturn && !t.Ret[0].isNilConst() {
				r := t.Ret[0]
				if !(r.Kind == KInit && idxOK(r.Args[0], "items")) {
					good, why = false, "the item returned is not the "+map[string]string{"min": "first", "max": "last"}[m]+" item of the node reached"
				}
			}
		}
		c.check(good && n > 0, rule, m, fn.Pos(), "", m+": "+why)
	}
	// ---- tree-level wrappers
	wr := func(name, callee string, keyed bool) {
		fn := c.mustFn(rel, "(*BTree)."+name)
		if fn == nil {
			return
		}
		if callee == "min" || callee == "max" {
			if sf := c.fnOrSuccessor(rel, callee, c.field(rel, "node", "children"), c.field(rel, "node", "items")); sf != nil {
				callee = sf.Name()
			}
		}
		ts, _ := c.Trace(fn, cfg)
		good, n := true, 0
		for _, t := range ts {
			if t.End != EndReturn {
				continue
			}
			n++
			var call *Event
			expanded := false
			for _, e := range t.Events {
				if e.Kind == EvCall && e.Callee != nil && e.Callee.Name() == callee {
					call = e
				}
				// the node-level function may have been expanded into the path (a function introduced since)
				if e.Kind == EvEnter && e.Callee != nil && e.Callee.Name() == callee && len(e.Args) > 0 && strings.Contains(e.Args[0].Key(), ".root") {
					expanded = true
				}
				// Has may also go to the node-level get on the root itself instead of through the tree's Get
				if name == "Has" && e.Kind == EvCall && e.Callee != nil && e.Callee.Name() == "get" && len(e.Args) > 0 && strings.Contains(e.Args[0].Key(), ".root") {
					call = e
				}
			}
			if call == nil && expanded {
				continue
			}
			if call == nil {
				// allowed only for the empty tree
				emptyAnswer := t.Ret[0].isNilConst()
				if b, isB := t.Ret[0].boolConst(); name == "Has" && isB && !b {
					emptyAnswer = true
				}
				if !(emptyAnswer && hasFact(t.factsBefore(len(t.Events)), func(f Fact) bool {
					return strings.Contains(f.X.Key(), ".root") && f.Op == token.EQL && f.Y.isNilConst()
				})) {
					good = false
				}
				continue
			}
			if !strings.Contains(call.Args[0].Key(), ".root") && name != "Has" {
				good = false
			}
			if keyed && (len(call.Args) < 2 || call.Args[len(call.Args)-1].Key() != "$"+fn.Params[1].Name()) {
				good = false
			}
			if name == "Has" {
				r := t.Ret[0]
				if !(r.Kind == KBin && r.Op == token.NEQ && r.Args[0].Key() == call.Res.Key() && r.Args[1].isNilConst()) {
					good = false
				}
			} else if t.Ret[0].Key() != call.Res.Key() {
				good = false
			}
		}
		c.check(good && n > 0, rule, "(*BTree)."+name, fn.Pos(), "", "(*BTree)."+name+" is not the node-level "+callee+" on the root with the caller's key (nil for the empty tree)")
	}
	wr("Get", "get", true)
	wr("Has", "Get", true)
	wr("Min", "min", false)
	wr("Max", "max", false)
}
