package main

import (
	"go/types"
	"strings"

	"golang.org/x/tools/go/ssa"
)

// invoke performs a call (from a Call instruction or a deferred call being run).
// For deferred calls the caller's pc is not advanced (RunDefers / unwinding re-examines the defer stack).
func (tr *Tracer) invoke(st *state, site ssa.Instruction, cc *ssa.CallCommon, fnSym *Sym, args []*Sym, isDefer bool) (*state, []*state) {
	advance := func(s *state) {
		if !isDefer {
			s.top().pc++
		}
	}
	setRes := func(s *state, r *Sym) {
		if !isDefer {
			if v, ok := site.(ssa.Value); ok {
				s.top().regs[v] = r
			}
		}
	}
	// builtins
	if b, ok := cc.Value.(*ssa.Builtin); ok && !cc.IsInvoke() {
		r := tr.builtin(st, site, b, args)
		setRes(st, r)
		advance(st)
		return st, nil
	}
	var callee *ssa.Function
	var bindings []*Sym
	if !cc.IsInvoke() {
		callee = cc.StaticCallee()
		if fnSym != nil {
			switch fnSym.Kind {
			case KClosure:
				callee = fnSym.Ref.(*ssa.Function)
				bindings = fnSym.Args
			case KFunc:
				callee = fnSym.Ref.(*ssa.Function)
			}
		}
	}
	if callee == nil && tr.cfg.Devirt != nil {
		var recv *Sym
		if len(args) > 0 {
			recv = args[0]
		}
		if fnSym != nil {
			recv = fnSym
		}
		callee = tr.cfg.Devirt(cc, recv)
	}
	// bound-method closures and other wrappers are looked through by go/ssa itself ($bound, $thunk have bodies)

	// sync.Once.Do(f): the first call runs f synchronously; that is the case modelled.
	if callee != nil && callee.String() == "(*sync.Once).Do" && len(args) == 2 {
		st.emit(&Event{Kind: EvCall, Instr: site, Callee: callee, Method: fnObj(callee), Args: args})
		fs := args[1]
		if fs.Kind == KClosure || fs.Kind == KFunc {
			inner := fs.Ref.(*ssa.Function)
			if len(inner.Blocks) > 0 && !tr.onStack(st, inner) && len(st.frames) < tr.cfg.MaxDepth+2 {
				advance(st)
				var b []*Sym
				if fs.Kind == KClosure {
					b = fs.Args
				}
				tr.push(st, inner, nil, b, nil, false, site)
				return st, nil
			}
		}
		tr.havoc(st, "once")
		advance(st)
		return st, nil
	}

	if callee != nil && len(callee.Blocks) > 0 && tr.shouldInline(st, callee) {
		if isDefer {
			tr.push(st, callee, args, bindings, nil, true, site)
		} else {
			ci := site.(ssa.CallInstruction)
			tr.push(st, callee, args, bindings, ci, false, site)
		}
		return st, nil
	}

	// opaque call
	ev := &Event{Kind: EvCall, Instr: site, Callee: callee, Args: args}
	if cc.IsInvoke() {
		ev.Method = cc.Method
	} else if callee != nil {
		ev.Method = fnObj(callee)
	} else if fnSym != nil {
		ev.Val = fnSym
	}
	var rt types.Type
	if v, ok := site.(ssa.Value); ok && !isDefer {
		rt = v.Type()
	} else {
		rt = cc.Signature().Results()
	}
	res := tr.callResult(st, site, rt)
	// container/list contract: Remove(e) returns e.Value — the same value a read of e.Value gives at this point
	if callee != nil && callee.String() == "(*container/list.List).Remove" && len(args) == 2 {
		if fv := fieldVarByName(args[1].Typ, "Value"); fv != nil {
			addr := &Sym{Kind: KFieldAddr, Args: []*Sym{args[1]}, Field: fv, Typ: types.NewPointer(fv.Type())}
			res = tr.loadCell(st, addr, fv.Type())
		}
	}
	ev.Res = res
	st.emit(ev)
	eff := tr.effectOf(ev, cc)
	if eff != effNone {
		for _, a := range args {
			tr.escape(st, a)
		}
		tr.escape(st, fnSym)
		tr.havoc(st, "call")
	} else {
		// the callee may still write through pointer arguments (e.g. binary.PutUint32(buf, ...)): forget the referents
		for _, a := range args {
			tr.havocReferent(st, a)
		}
	}
	setRes(st, res)
	if tr.cfg.MayPanic != nil && tr.cfg.MayPanic(ev) {
		other := st.clone()
		pv := other.fresh("panicval", nil, site)
		other.emit(&Event{Kind: EvPanic, Instr: site, Args: []*Sym{pv}, Callee: callee, Method: ev.Method})
		advance(st)
		s2, f2 := tr.startPanic(other, pv)
		if s2 != nil {
			f2 = append(f2, s2)
		}
		return st, f2
	}
	advance(st)
	return st, nil
}

func fnObj(f *ssa.Function) *types.Func {
	if f == nil {
		return nil
	}
	if o, ok := f.Object().(*types.Func); ok {
		return o
	}
	if f.Origin() != nil {
		if o, ok := f.Origin().Object().(*types.Func); ok {
			return o
		}
	}
	return nil
}

func (tr *Tracer) callResult(st *state, site ssa.Instruction, rt types.Type) *Sym {
	if tup, ok := rt.(*types.Tuple); ok {
		if tup.Len() == 0 {
			return &Sym{Kind: KTuple}
		}
		if tup.Len() == 1 {
			return st.fresh("ret", tup.At(0).Type(), site)
		}
		args := make([]*Sym, tup.Len())
		for i := range args {
			args[i] = st.fresh("ret", tup.At(i).Type(), site)
		}
		return &Sym{Kind: KTuple, Args: args}
	}
	return st.fresh("ret", rt, site)
}

func (tr *Tracer) havocReferent(st *state, a *Sym) {
	if a == nil {
		return
	}
	r := a.root()
	if r.Kind != KAlloc {
		return
	}
	if _, ok := r.Ref.(*ssa.Alloc); ok {
		// only array / slice backing stores are written by the stdlib helpers we treat as effect free;
		// struct receivers such as &sync.Mutex are opaque to the rules anyway.
		for k, c := range st.store {
			if c.addr.root() == r || c.addr.root().Key() == r.Key() {
				if c.addr.Kind == KIndexAddr {
					st.store[k] = &cell{addr: c.addr, val: st.later(c.addr, nil)}
				}
			}
		}
	}
}

type effect int

const (
	effNone effect = iota
	effHavoc
)

// effectOf classifies an opaque call.
//   - lock acquisition (Lock, RLock, Cond.Wait): other goroutines may have changed shared state → havoc
//   - static callee outside the module without function-valued arguments: cannot touch module state
//     except through its arguments → no havoc
//   - invoke on an interface declared outside the module (context.Context, io.Reader, error, net.Conn…): no havoc
//   - everything else (function values, module interfaces, recursive module calls): havoc
func (tr *Tracer) effectOf(ev *Event, cc *ssa.CallCommon) effect {
	name := ev.callName()
	switch name {
	case "(*sync.Mutex).Lock", "(*sync.RWMutex).Lock", "(*sync.RWMutex).RLock", "(*sync.Cond).Wait", "(sync.Locker).Lock",
		"(*sync.WaitGroup).Wait", "time.Sleep", "runtime.Gosched":
		return effHavoc
	}
	if tr.cfg.Havoc != nil && tr.cfg.Havoc(ev) {
		return effHavoc
	}
	if tr.cfg.NoHavoc != nil && tr.cfg.NoHavoc(ev) {
		return effNone
	}
	if cc.IsInvoke() {
		if m := cc.Method; m != nil && m.Pkg() != nil && tr.c.inModule(m.Pkg()) {
			return effHavoc
		}
		if m := cc.Method; m != nil && m.Pkg() == nil {
			return effNone // error.Error
		}
		// interface from another package: only if the dynamic type could be a module type with side effects
		// on module state; the ones used here (context.Context, io.Reader/Writer, net.Conn, redis.Cmdable,
		// sort/heap.Interface) — heap/sort interfaces are implemented by module types
		if m := cc.Method; m != nil && m.Pkg() != nil {
			switch m.Pkg().Path() {
			case "sort", "container/heap":
				return effHavoc
			}
		}
		return effNone
	}
	if ev.Callee != nil {
		if ev.Callee.Pkg != nil && tr.c.inModule(ev.Callee.Pkg.Pkg) {
			if tr.c.pureModuleFn(ev.Callee) {
				return effNone // getter / pure computation
			}
			return effHavoc // module function not inlined (recursion / depth / policy)
		}
		if ev.Callee.Pkg == nil {
			// instantiation / wrapper of a generic or synthetic: look at the object's package
			if o := fnObj(ev.Callee); o != nil && o.Pkg() != nil && tr.c.inModule(o.Pkg()) {
				return effHavoc
			}
		}
		// callbacks: function-typed or module-interface-typed arguments may run module code
		for _, a := range ev.Args {
			if a == nil {
				continue
			}
			s := a.strip()
			if s.Kind == KClosure || s.Kind == KFunc {
				return effHavoc
			}
			if s.Typ != nil {
				if _, ok := s.Typ.Underlying().(*types.Signature); ok {
					return effHavoc
				}
			}
		}
		if strings.HasPrefix(name, "container/heap.") || strings.HasPrefix(name, "sort.") {
			return effHavoc
		}
		return effNone
	}
	return effHavoc
}

func (tr *Tracer) onStack(st *state, fn *ssa.Function) bool {
	for _, fr := range st.frames {
		if fr.fn == fn {
			return true
		}
	}
	return false
}

func (tr *Tracer) shouldInline(st *state, callee *ssa.Function) bool {
	depth := len(st.frames)
	if tr.onStack(st, callee) {
		return false
	}
	if tr.cfg.Inline != nil {
		if tr.cfg.Inline(callee, depth) {
			return true
		}
		// a function of the module that did not exist when the rules were written is a helper somebody extracted:
		// its body is part of the caller's logic, so it is always entered (the rules keep seeing the original shape)
		if depth <= 8 && tr.c.isNewHelper(callee) {
			return true
		}
		// the wrapper of a method value (s.sendAll handed to a helper) whose method is itself new
		if depth <= 8 && strings.HasPrefix(callee.Synthetic, "bound method wrapper") {
			if m, isM := callee.Object().(*types.Func); isM {
				if target := tr.c.Prog.FuncValue(m); target != nil && tr.c.isNewHelper(target) {
					return true
				}
			}
		}
		// a function literal written inside a new helper, or handed to one by the function under analysis (the visit
		// callback of an extracted walker), is part of that same logic
		if depth <= 8 && callee.Parent() != nil {
			top := callee
			for top.Parent() != nil {
				top = top.Parent()
			}
			if tr.c.isNewHelper(top) {
				return true
			}
			if top == tr.entry {
				for _, f := range st.frames {
					if tr.c.isNewHelper(f.fn) {
						return true
					}
				}
			}
		}
		return false
	}
	if depth > tr.cfg.MaxDepth {
		return false
	}
	return tr.c.fnInModule(callee)
}

func (c *Ctx) fnInModule(f *ssa.Function) bool {
	if f == nil {
		return false
	}
	if f.Pkg != nil {
		return c.inModule(f.Pkg.Pkg)
	}
	if o := fnObj(f); o != nil {
		return c.inModule(o.Pkg())
	}
	if p := f.Parent(); p != nil {
		return c.fnInModule(p)
	}
	return false
}

func (tr *Tracer) push(st *state, callee *ssa.Function, args, bindings []*Sym, ci ssa.CallInstruction, fromDef bool, site ssa.Instruction) {
	tr.c.traced(callee)
	st.emit(&Event{Kind: EvEnter, Instr: site, Callee: callee, Method: fnObj(callee), Args: args})
	fr := &frame{fn: callee, block: callee.Blocks[0], regs: map[ssa.Value]*Sym{}, loopGen: map[*ssa.BasicBlock]int{}, call: ci, fromDef: fromDef}
	if fromDef && st.panicking != nil {
		fr.inPanicD = true
	}
	for i, p := range callee.Params {
		if i < len(args) {
			fr.regs[p] = args[i]
		} else {
			fr.regs[p] = st.fresh("arg", p.Type(), p)
		}
	}
	for i, fv := range callee.FreeVars {
		if i < len(bindings) {
			fr.regs[fv] = bindings[i]
		} else {
			fr.regs[fv] = st.fresh("freevar", fv.Type(), fv)
		}
	}
	st.frames = append(st.frames, fr)
}

func (tr *Tracer) doReturn(st *state, rets []*Sym) (*state, []*state) {
	f := st.top()
	if len(st.frames) == 1 {
		st.emit(&Event{Kind: EvReturn, Instr: f.block.Instrs[f.pc], Args: rets})
		tr.finish(st, EndReturn, rets)
		return nil, nil
	}
	var res *Sym
	switch len(rets) {
	case 0:
		res = &Sym{Kind: KTuple}
	case 1:
		res = rets[0]
	default:
		res = &Sym{Kind: KTuple, Args: rets}
	}
	var pos = f.fn.Pos()
	if f.pc < len(f.block.Instrs) {
		pos = f.block.Instrs[f.pc].Pos()
	}
	st.gen -= f.genDepth
	st.emit(&Event{Kind: EvExit, Callee: f.fn, Method: fnObj(f.fn), Res: res, Pos: pos, Fn: f.fn})
	st.frames = st.frames[:len(st.frames)-1]
	p := st.top()
	if f.call != nil {
		if v, ok := f.call.(ssa.Value); ok {
			p.regs[v] = res
		}
		p.pc++
	} else if !f.fromDef {
		// sync.Once.Do body: pc was advanced before the push
	}
	return st, nil
}

func (tr *Tracer) startPanic(st *state, v *Sym) (*state, []*state) {
	st.panicking = v
	st.top().unwind = true
	return st, nil
}

// unwindStep runs the deferred calls of a panicking frame, then either resumes after a recover or
// continues unwinding in the caller.
func (tr *Tracer) unwindStep(st *state) (*state, []*state) {
	f := st.top()
	if st.panicking == nil {
		// recovered by a deferred call of this frame: the function returns normally
		f.unwind = false
		// remaining defers still run
		if len(f.defers) > 0 {
			d := f.defers[len(f.defers)-1]
			f.defers = f.defers[:len(f.defers)-1]
			f.unwind = true // come back here; panicking==nil keeps us in this branch
			return tr.invoke(st, d.instr, &d.instr.Call, d.fnSym, d.args, true)
		}
		if f.fn.Recover != nil {
			f.prev, f.block, f.pc = nil, f.fn.Recover, 0
			return st, nil
		}
		// no named results: zero values
		var rets []*Sym
		res := f.fn.Signature.Results()
		for i := 0; i < res.Len(); i++ {
			rets = append(rets, zeroSym(res.At(i).Type()))
		}
		// make doReturn's position lookup safe
		f.pc = len(f.block.Instrs) - 1
		return tr.doReturn(st, rets)
	}
	if len(f.defers) > 0 {
		d := f.defers[len(f.defers)-1]
		f.defers = f.defers[:len(f.defers)-1]
		return tr.invoke(st, d.instr, &d.instr.Call, d.fnSym, d.args, true)
	}
	// propagate to the caller
	if len(st.frames) == 1 {
		tr.finish(st, EndPanic, []*Sym{st.panicking})
		return nil, nil
	}
	st.gen -= f.genDepth
	st.frames = st.frames[:len(st.frames)-1]
	st.top().unwind = true
	return st, nil
}

func (tr *Tracer) builtin(st *state, site ssa.Instruction, b *ssa.Builtin, args []*Sym) *Sym {
	var rt types.Type
	if v, ok := site.(ssa.Value); ok {
		rt = v.Type()
	}
	switch b.Name() {
	case "len", "cap":
		a := args[0]
		if a.isConst() && a.Const != nil && b.Name() == "len" {
			if s, ok := constStr(a); ok {
				return symInt(int64(len(s)), rt)
			}
		}
		if a.Kind == KAlloc && len(a.Args) == 2 {
			// len/cap of a slice made in this path
			if b.Name() == "len" {
				return a.Args[0]
			}
			return a.Args[1]
		}
		if b.Name() == "len" && a.Kind == KOp && a.Name == "slice" && len(a.Args) >= 3 {
			// len(x[lo:hi]) with constant bounds; hi defaults to the array length when x is (a pointer to) an array
			lo, hi, ok := int64(0), int64(-1), true
			if a.Args[1].Name != "none" {
				lo, ok = a.Args[1].intConst()
			}
			if a.Args[2].Name != "none" {
				if v, isC := a.Args[2].intConst(); isC {
					hi = v
				} else {
					ok = false
				}
			} else if xt := a.Args[0].Typ; xt != nil {
				if pt, isP := xt.Underlying().(*types.Pointer); isP {
					if arr, isA := pt.Elem().Underlying().(*types.Array); isA {
						hi = arr.Len()
					}
				}
			}
			if ok && hi >= lo && hi >= 0 {
				return symInt(hi-lo, rt)
			}
		}
		if a.Typ != nil {
			switch u := a.Typ.Underlying().(type) {
			case *types.Map, *types.Chan:
				return st.fresh(b.Name(), rt, site)
			case *types.Array:
				return symInt(u.Len(), rt)
			case *types.Pointer:
				if arr, ok := u.Elem().Underlying().(*types.Array); ok {
					return symInt(arr.Len(), rt)
				}
			}
		}
		return &Sym{Kind: KOp, Name: b.Name(), Args: []*Sym{a}, Typ: rt}
	case "append":
		return &Sym{Kind: KOp, Name: "append", Args: args, Typ: rt}
	case "copy":
		st.emit(&Event{Kind: EvCall, Instr: site, Args: args, Val: &Sym{Kind: KOp, Name: "builtin:copy"}})
		tr.havocReferent(st, args[0])
		return st.fresh("copy", rt, site)
	case "delete":
		st.emit(&Event{Kind: EvMapDelete, Instr: site, Addr: args[0], Args: []*Sym{args[1]}})
		return &Sym{Kind: KTuple}
	case "close":
		st.emit(&Event{Kind: EvClose, Instr: site, Addr: args[0]})
		return &Sym{Kind: KTuple}
	case "recover":
		var r *Sym
		f := st.top()
		if st.panicking != nil && f.fromDef && f.inPanicD {
			r = st.panicking
			if r.Kind == KFresh {
				// an injected panic value is non-nil by construction
				r = &Sym{Kind: KConv, Name: "makeiface", Args: []*Sym{r}, Typ: types.NewInterfaceType(nil, nil)}
			}
			st.panicking = nil
		} else {
			r = &Sym{Kind: KConst, Typ: rt}
		}
		st.emit(&Event{Kind: EvRecover, Instr: site, Res: r})
		return r
	case "min", "max", "real", "imag", "complex":
		return &Sym{Kind: KOp, Name: b.Name(), Args: args, Typ: rt}
	case "print", "println":
		return &Sym{Kind: KTuple}
	case "clear":
		st.emit(&Event{Kind: EvCall, Instr: site, Args: args, Val: &Sym{Kind: KOp, Name: "builtin:clear"}})
		return &Sym{Kind: KTuple}
	}
	return st.fresh(b.Name(), rt, site)
}

func constStr(s *Sym) (string, bool) {
	if s == nil || s.Kind != KConst || s.Const == nil || s.Const.Kind().String() != "String" {
		return "", false
	}
	return constantStringVal(s), true
}

// helperName: Type.Method or Func, generic origin, without package.
func helperName(fn *ssa.Function) string {
	if o := fn.Origin(); o != nil {
		fn = o
	}
	if r := recvNamed(fn); r != nil {
		return r.Obj().Name() + "." + fn.Name()
	}
	return fn.Name()
}

// isNewHelper: callee is a source function (or a closure inside one) of the module whose name is not in the
// frozen table of functions that existed when the rules were written (known_funcs.go).
func (c *Ctx) isNewHelper(callee *ssa.Function) bool {
	if callee == nil {
		return false
	}
	top := callee
	for top.Parent() != nil {
		top = top.Parent()
	}
	if callee != top {
		return false // closures are handled through their own call sites
	}
	// (an instantiation of a generic function is synthetic but stands for its source function)
	if (top.Synthetic != "" && top.Origin() == nil) || !c.fnInModule(top) || top.Pkg == nil && top.Origin() == nil {
		return false
	}
	pkg := ""
	if top.Pkg != nil {
		pkg = top.Pkg.Pkg.Path()
	} else if o := top.Origin(); o != nil && o.Pkg != nil {
		pkg = o.Pkg.Pkg.Path()
	}
	names, ok := knownFuncs[pkg]
	if !ok {
		return false // a package the table does not know at all: leave it to the rule's own policy
	}
	return !names[helperName(top)]
}

// fieldVarByName: the field `name` of the struct a pointer type points to.
func fieldVarByName(t types.Type, name string) *types.Var {
	if t == nil {
		return nil
	}
	p, ok := t.Underlying().(*types.Pointer)
	if !ok {
		return nil
	}
	st, ok := p.Elem().Underlying().(*types.Struct)
	if !ok {
		return nil
	}
	for i := 0; i < st.NumFields(); i++ {
		if st.Field(i).Name() == name {
			return st.Field(i)
		}
	}
	return nil
}
