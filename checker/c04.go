package main

import (
	"fmt"
	"go/token"
	"go/types"
	"strings"

	"golang.org/x/tools/go/ssa"
)

func init() {
	register(&Property{
		ID:       "C04",
		Patterns: []string{"./cache", "./cache/tiny"},
		Explanation: "For cache.LRUCache and cache/tiny.LRUCache (one rule set applied to both, so the two copies must agree), decides on every path of every public method (eviction loop: first + generalised iteration): " +
			"(1) list, table, size, capacity, evictions and entry fields are touched only under the cache mutex; (2) the three representations change together: every PushFront comes with table[entry.key]=element for the caller's key and a size increase by that entry's size (1 in tiny), every list.Remove with the delete of that entry's key and a size decrease by that entry's size, an in-place update stores value and size and adds exactly the difference, Clear resets all three; " +
			"(3) every path that may have increased size or changed capacity returns only after observing size <= capacity on the final values; eviction victims are list.Back(), each bumps evictions once, and the ...AndGetRemoved forms append the victim's value; " +
			"(4) recency table: Get hit -> MoveToFront and the entry's value, Peek/Exist/Stats/Length/Size/Capacity/Evictions/Keys/Items never mutate the list, Set hit -> value replaced + MoveToFront, SetIfAbsent hit -> MoveToFront only, misses -> PushFront, Keys/Items walk Front..Next; " +
			"(5) the wide forms give each shard capacity/numbs+1 (routing/delegation: C17). " +
			"NOT decided: equality with an ideal LRU over whole histories (follows informally from these per-operation facts and container/list), interleavings beyond lock coverage.",
		Assumptions: []string{"container/list contract", "Init runs before the cache is shared (declared exemption)"},
		Floors:      map[string]int{"C04.guarded-by": 40, "C04.coupled": 14, "C04.capacity-restored": 8, "C04.eviction": 4, "C04.recency": 20, "C04.shard-capacity": 2, "C04.delegation": 10, "C04.index-provenance": 10, "C04.construction": 2},
		Run:         runC04,
	})
}

type lruCtx struct {
	c                                      *Ctx
	rel                                    string
	sized                                  bool
	mu, list, table, size, capacity, evict *types.Var
	eKey, eValue, eSize                    *types.Var
	cfg                                    TraceConfig
}

func runC04(c *Ctx) {
	for _, rel := range []string{"cache", "cache/tiny"} {
		x := &lruCtx{c: c, rel: rel, sized: rel == "cache"}
		x.mu = c.mustField(rel, "LRUCache", "mu")
		x.list = c.mustField(rel, "LRUCache", "list")
		x.table = c.mustField(rel, "LRUCache", "table")
		x.size = c.mustField(rel, "LRUCache", "size")
		x.capacity = c.mustField(rel, "LRUCache", "capacity")
		x.evict = c.mustField(rel, "LRUCache", "evictions")
		x.eKey = c.mustField(rel, "entry", "key")
		x.eValue = c.mustField(rel, "entry", "value")
		if x.sized {
			x.eSize = c.mustField(rel, "entry", "size")
			if x.eSize == nil {
				continue
			}
		}
		if x.mu == nil || x.list == nil || x.table == nil || x.size == nil || x.capacity == nil || x.evict == nil || x.eKey == nil || x.eValue == nil {
			continue
		}
		pkgSuffix := "/" + rel
		x.cfg = TraceConfig{Inline: func(callee *ssa.Function, depth int) bool {
			return depth <= 6 && c.fnInModule(callee) && callee.Pkg != nil && strings.HasSuffix(callee.Pkg.Pkg.Path(), pkgSuffix)
		}}
		x.run()
	}
	c.checkShardCapacity()
	// the wide variants: "per shard" holds only if every keyed operation is the shard's same-named operation
	// on shards[calKeyFn(key)] (Peek delegating to Get would refresh recency, Get to Peek would not)
	if numbs := c.mustField("remap", "ReMap", "numbs"); numbs != nil {
		for _, w := range wideContainers {
			if w.typ == "WideLRUCache" {
				c.checkWideContainer("C04", w, numbs)
			}
		}
	}
}

func (x *lruCtx) listCall(e *Event, m string) bool {
	if e.Kind != EvCall || e.callName() != "(*container/list.List)."+m || len(e.Args) == 0 {
		return false
	}
	_, ok := isInitOfField(e.Args[0], x.list)
	return ok
}

func (x *lruCtx) isListMutation(e *Event) bool {
	if e.Kind != EvCall || len(e.Args) == 0 || !strings.HasPrefix(e.callName(), "(*container/list.List).") {
		return false
	}
	if _, ok := isInitOfField(e.Args[0], x.list); !ok {
		return false
	}
	return !pureContainerMethods[e.callName()]
}

// entryOf: sym is `elem.Value.(*entry)` for element elem
func entryOfElem(n *Sym) (*Sym, bool) { return nodeOfElem(n) }

func (x *lruCtx) run() {
	c := x.c
	tname := x.rel + ".LRUCache"
	methods := c.exportedMethods(x.rel, "LRUCache")
	table := []guard{
		{Field: x.list, Mutex: x.mu, SameBase: true, Name: "LRUCache.list"},
		{Field: x.table, Mutex: x.mu, SameBase: true, Name: "LRUCache.table"},
		{Field: x.size, Mutex: x.mu, SameBase: true, Name: "LRUCache.size"},
		{Field: x.capacity, Mutex: x.mu, SameBase: true, Name: "LRUCache.capacity"},
		{Field: x.evict, Mutex: x.mu, SameBase: true, Name: "LRUCache.evictions"},
		{Field: x.eValue, Mutex: x.mu, Name: "entry.value"},
	}
	if x.sized {
		table = append(table, guard{Field: x.eSize, Mutex: x.mu, Name: "entry.size"})
	}
	exempt := map[string]string{"(*" + tname + ").Init": "exported initialiser, runs before the cache is shared"}
	c.checkGuardedBy("C04.guarded-by", methods, table, x.cfg, exempt)

	for _, fn := range methods {
		if fn.Name() == "Init" {
			continue
		}
		name := "(*" + tname + ")." + fn.Name()
		traces, complete := c.Trace(fn, x.cfg)
		if !complete {
			c.undecided("C04.paths", name, fn.Pos(), "path budget exceeded")
			continue
		}
		okCoupled, okCap, okEv, okRec := true, true, true, true
		mutates := false
		nret := 0
		for _, t := range traces {
			if x.infeasible(t) {
				continue
			}
			for _, e := range t.Events {
				if x.isListMutation(e) || (e.Kind == EvStore && (e.Addr.isFieldAddrOf(x.size) || e.Addr.isFieldAddrOf(x.capacity))) {
					mutates = true
				}
			}
			if t.End == EndReturn {
				nret++
			}
			if okCoupled {
				okCoupled = x.checkCoupled(t, name, fn)
			}
			if okCap && t.End == EndReturn {
				okCap = x.checkCapacity(t, name)
			}
			if okEv {
				okEv = x.checkEviction(t, name, fn)
			}
			if okRec && t.End == EndReturn {
				okRec = x.checkRecency(t, name, fn)
			}
			// a slice handed to the caller (the removed values, Keys, Items) is the caller's: it must not be
			// backed by storage the cache keeps and rewrites on the next call
			if okEv && t.End == EndReturn {
				for _, r := range t.Ret {
					if r.Typ == nil {
						continue
					}
					if _, isSl := r.strip().Typ.Underlying().(*types.Slice); !isSl {
						continue
					}
					base := r.strip()
					for base.Kind == KOp && (base.Name == "append" || base.Name == "slice") {
						base = base.Args[0].strip()
					}
					if base.Kind == KInit && base.Args[0].Kind == KFieldAddr && base.Args[0].Args[0].root().Key() == t.Params[0].Key() {
						okEv = false
						c.violated("C04.eviction", name, fn.Pos(), "the slice returned to the caller is built in storage the cache keeps ("+c.short(base.Key())+"): the next call that uses it rewrites the list this caller still holds, so the values reported as removed change after the fact (and concurrent callers race on it)", c.witness(t, len(t.Events)-1)...)
					}
				}
			}
		}
		if nret == 0 {
			c.undecided("C04.paths", name, fn.Pos(), "no returning path")
			continue
		}
		if mutates {
			if okCoupled {
				c.holds("C04.coupled", name, fn.Pos(), "")
			}
			if okCap {
				c.holds("C04.capacity-restored", name, fn.Pos(), "")
			}
		}
		if okEv && x.hasEviction(traces) {
			c.holds("C04.eviction", name, fn.Pos(), "")
		}
		if okRec {
			c.holds("C04.recency", name, fn.Pos(), "")
		}
	}
}

func (x *lruCtx) hasEviction(traces []*Trace) bool {
	for _, t := range traces {
		for _, e := range t.Events {
			if x.listCall(e, "Back") {
				return true
			}
		}
	}
	return false
}

// infeasible: list contract — Back() of a list whose accounted size is positive is non-nil is not modelled;
// the only infeasible paths pruned here are `element == nil` after a successful commaok lookup.
//
// One more contract is used: every element this rule set lets into the list carries a fresh *entry (checked by
// `coupled`: PushFront(&entry{...})), so the entry type-asserted out of an element's Value is never nil; a path
// that found it nil (a helper answering "hit" with the entry pointer, tested by its caller) cannot happen.
func (x *lruCtx) infeasible(t *Trace) bool {
	for _, f := range t.factsBefore(len(t.Events)) {
		if f.Op != token.EQL {
			continue
		}
		for _, pair := range [][2]*Sym{{f.X, f.Y}, {f.Y, f.X}} {
			if _, isEntry := entryOfElem(pair[0]); isEntry && pair[1].isNilConst() {
				return true
			}
		}
	}
	return false
}

// lookedUp: the element returned by the table lookup of this path (nil if none), and whether it was found.
func (x *lruCtx) lookedUp(t *Trace) (elem *Sym, found, known bool) {
	facts := t.factsBefore(len(t.Events))
	for _, e := range t.Events {
		if e.Kind != EvMapLookup {
			continue
		}
		if _, ok := symFieldBase(e.Addr, x.table); !ok {
			continue
		}
		if e.Res.Kind == KTuple {
			elem = e.Res.Args[0]
			if v, k := boolFact(facts, e.Res.Args[1]); k {
				return elem, v, true
			}
		} else {
			elem = e.Res
		}
		if hasFact(facts, func(f Fact) bool { return f.X.Key() == elem.Key() && f.Op == token.EQL && f.Y.isNilConst() }) {
			return elem, false, true
		}
		if hasFact(facts, func(f Fact) bool { return f.X.Key() == elem.Key() && f.Op == token.NEQ && f.Y.isNilConst() }) {
			return elem, true, true
		}
	}
	return elem, false, false
}

// checkCoupled: rule 2 by balancing the effects on the three representations along the path.
func (x *lruCtx) checkCoupled(t *Trace, name string, fn *ssa.Function) bool {
	c := x.c
	if t.End != EndReturn && t.End != EndCut {
		return true
	}
	type push struct {
		idx        int
		entry, el  *Sym
		key, sizeV *Sym
		indexed    bool
		counted    bool
	}
	type rem struct {
		idx     int
		el      *Sym
		deleted bool
		counted bool
	}
	var pushes []*push
	var rems []*rem
	cleared := -1
	for i, e := range t.Events {
		switch {
		case x.listCall(e, "PushFront") || x.listCall(e, "PushBack"):
			p := &push{idx: i, entry: e.Args[1].strip(), el: e.Res}
			for j := 0; j < i; j++ {
				y := t.Events[j]
				if y.Kind == EvStore && y.Addr.isFieldAddrOf(x.eKey) && y.Addr.Args[0].Key() == p.entry.Key() {
					p.key = y.Val
				}
				if x.sized && y.Kind == EvStore && y.Addr.isFieldAddrOf(x.eSize) && y.Addr.Args[0].Key() == p.entry.Key() {
					p.sizeV = y.Val
				}
			}
			pushes = append(pushes, p)
		case x.listCall(e, "Remove"):
			rems = append(rems, &rem{idx: i, el: e.Args[1]})
		case x.listCall(e, "Init"):
			cleared = i
		}
	}
	fail := func(i int, msg string) bool {
		if i < 0 {
			i = len(t.Events) - 1
		}
		c.violated("C04.coupled", name, t.Events[i].Pos, msg, c.witness(t, i)...)
		return false
	}
	// table updates / deletes
	elem, _, _ := x.lookedUp(t)
	for i, e := range t.Events {
		if e.Kind == EvMapUpdate {
			if _, ok := symFieldBase(e.Addr, x.table); !ok {
				continue
			}
			matched := false
			for _, p := range pushes {
				if e.Val.Key() == p.el.Key() {
					if p.key == nil || e.Args[0].Key() != p.key.Key() {
						return fail(i, "the element is put in the table under a key other than its entry's key: Delete/eviction of that entry removes the wrong table slot")
					}
					p.indexed = true
					matched = true
				}
			}
			if !matched {
				return fail(i, "the table is assigned an element that was not pushed on the list in this operation")
			}
		}
		if e.Kind == EvMapDelete {
			if _, ok := symFieldBase(e.Addr, x.table); !ok {
				continue
			}
			k := e.Args[0]
			matched := false
			for _, r := range rems {
				// key is the removed element's entry key, or the looked-up key for the looked-up element
				if k.Kind == KInit && k.Args[0].isFieldAddrOf(x.eKey) {
					if b, ok := entryOfElem(k.Args[0].Args[0]); ok && b.Key() == r.el.Key() {
						r.deleted, matched = true, true
					}
				}
				if elem != nil && r.el.Key() == elem.Key() && len(t.Params) > 1 && k.Key() == t.Params[1].Key() {
					r.deleted, matched = true, true
				}
			}
			if !matched {
				return fail(i, "a key is deleted from the table that does not belong to an element removed from the list in this operation")
			}
		}
	}
	// size stores
	updates := 0
	consumed := map[int]bool{}
	for i, e := range t.Events {
		if e.Kind != EvStore || !e.Addr.isFieldAddrOf(x.size) || e.Addr.Args[0].root().Kind == KAlloc || consumed[i] {
			continue
		}
		v := e.Val
		if z, isC := v.intConst(); isC && z == 0 {
			if cleared < 0 {
				return fail(i, "size is reset to 0 without clearing the list")
			}
			continue
		}
		if v.Kind != KBin || (v.Op != token.ADD && v.Op != token.SUB) || v.Args[0].Key() != e.Old.Key() {
			return fail(i, "size is assigned a value that is not size +/- an entry size: "+c.short(v.Key()))
		}
		d := v.Args[1]
		matched := false
		if v.Op == token.ADD {
			for _, p := range pushes {
				if p.counted {
					continue
				}
				if x.sized && p.sizeV != nil && d.Key() == p.sizeV.Key() {
					p.counted, matched = true, true
					break
				}
				if !x.sized {
					if one, isC := d.intConst(); isC && one == 1 {
						p.counted, matched = true, true
						break
					}
				}
			}
			if !matched && x.sized && d.Kind == KBin && d.Op == token.SUB {
				// in-place update: new size - old entry size, with entry.size = new size stored
				newSize, old := d.Args[0], d.Args[1]
				if old.Kind == KInit && old.Args[0].isFieldAddrOf(x.eSize) {
					ent := old.Args[0].Args[0]
					for _, y := range t.Events {
						if y.Kind == EvStore && y.Addr.isFieldAddrOf(x.eSize) && y.Addr.Args[0].Key() == ent.Key() && y.Val.Key() == newSize.Key() {
							matched = true
							updates++
						}
					}
					if !matched {
						return fail(i, "size grows by (new size - old size) of an entry whose stored size is not updated to the new size: the next update or delete of that entry mis-accounts")
					}
				}
			}
		} else {
			for _, r := range rems {
				if r.counted {
					continue
				}
				if x.sized {
					if d.Kind == KInit && d.Args[0].isFieldAddrOf(x.eSize) {
						if b, ok := entryOfElem(d.Args[0].Args[0]); ok && b.Key() == r.el.Key() {
							r.counted, matched = true, true
							break
						}
					}
				} else if one, isC := d.intConst(); isC && one == 1 {
					r.counted, matched = true, true
					break
				}
			}
		}
		// in-place update written as two steps: size -= entry.size; size += new size (with entry.size = new size)
		if !matched && x.sized && v.Op == token.SUB && d.Kind == KInit && d.Args[0].isFieldAddrOf(x.eSize) {
			ent := d.Args[0].Args[0]
			for j := i + 1; j < len(t.Events) && !matched; j++ {
				y := t.Events[j]
				if y.Kind != EvStore || !y.Addr.isFieldAddrOf(x.size) {
					continue
				}
				if y.Val.Kind == KBin && y.Val.Op == token.ADD && y.Val.Args[0].Key() == y.Old.Key() {
					newSize := y.Val.Args[1]
					for _, z := range t.Events {
						if z.Kind == EvStore && z.Addr.isFieldAddrOf(x.eSize) && z.Addr.Args[0].Key() == ent.Key() && z.Val.Key() == newSize.Key() {
							matched = true
							consumed[j] = true
							updates++
						}
					}
				}
				break
			}
		}
		if !matched {
			return fail(i, "size changes by an amount that is not the size of an entry added/removed/updated in this operation: "+c.short(d.Key()))
		}
	}
	for _, p := range pushes {
		if x.listCall(t.Events[p.idx], "PushBack") {
			return fail(p.idx, "a new entry is pushed at the back of the recency list: it is the first to be evicted")
		}
		if !p.indexed || !p.counted {
			if t.End == EndCut {
				continue
			}
			return fail(p.idx, fmt.Sprintf("an entry is pushed on the list but the other representations do not follow (table updated=%v, size increased by its size=%v)", p.indexed, p.counted))
		}
		if len(t.Params) > 1 && p.key != nil && p.key.Key() != t.Params[1].Key() {
			return fail(p.idx, "the new entry does not carry the caller's key")
		}
	}
	for _, r := range rems {
		if !r.deleted || !r.counted {
			if t.End == EndCut {
				continue
			}
			return fail(r.idx, fmt.Sprintf("an element is removed from the list but the other representations do not follow (table entry deleted=%v, size decreased by its size=%v)", r.deleted, r.counted))
		}
	}
	if cleared >= 0 {
		tbl, sz := false, false
		for _, e := range t.Events {
			if e.Kind == EvStore && e.Addr.isFieldAddrOf(x.table) && e.Val.Kind == KAlloc {
				tbl = true
			}
			if e.Kind == EvStore && e.Addr.isFieldAddrOf(x.size) {
				if z, isC := e.Val.intConst(); isC && z == 0 {
					sz = true
				}
			}
		}
		if !tbl || !sz {
			return fail(cleared, fmt.Sprintf("Clear empties the list but table reset=%v size reset=%v", tbl, sz))
		}
	}
	return true
}

// checkCapacity: rule 3a — at return, size <= capacity was observed on the final values whenever the
// operation may have increased size or changed capacity.
func (x *lruCtx) checkCapacity(t *Trace, name string) bool {
	c := x.c
	lastGrow := -1
	for i, e := range t.Events {
		if e.Kind == EvStore && e.Addr.Args != nil && e.Addr.isFieldAddrOf(x.capacity) && e.Addr.Args[0].root().Kind != KAlloc {
			lastGrow = i
		}
		if e.Kind == EvStore && e.Addr.isFieldAddrOf(x.size) && e.Val.Kind == KBin && e.Val.Op == token.ADD {
			lastGrow = i
		}
	}
	if lastGrow < 0 {
		return true
	}
	// final values
	var sizeV, capV *Sym
	for _, e := range t.Events {
		if e.Kind == EvStore && e.Addr.isFieldAddrOf(x.size) {
			sizeV = e.Val
		}
		if e.Kind == EvLoad && e.Addr.isFieldAddrOf(x.size) {
			sizeV = e.Res
		}
		if e.Kind == EvStore && e.Addr.isFieldAddrOf(x.capacity) {
			capV = e.Val
		}
		if e.Kind == EvLoad && e.Addr.isFieldAddrOf(x.capacity) {
			capV = e.Res
		}
	}
	facts := t.factsBefore(len(t.Events))
	ok := sizeV != nil && capV != nil && hasFact(facts, func(f Fact) bool {
		return f.X.Key() == sizeV.Key() && f.Y.Key() == capV.Key() && f.Op == token.LEQ
	})
	if !ok {
		c.violated("C04.capacity-restored", name, t.Events[lastGrow].Pos, "the operation may have increased size (or changed capacity) but returns without having observed `size <= capacity` on the final values: the summed item size can exceed the capacity after the operation returns", c.witness(t, len(t.Events)-1)...)
	}
	return ok
}

// checkEviction: rule 3b.
func (x *lruCtx) checkEviction(t *Trace, name string, fn *ssa.Function) bool {
	c := x.c
	elem, _, _ := x.lookedUp(t)
	getRemoved := strings.HasSuffix(fn.Name(), "AndGetRemoved")
	for i, e := range t.Events {
		if !x.listCall(e, "Remove") {
			continue
		}
		el := e.Args[1]
		if elem != nil && el.Key() == elem.Key() {
			// Delete of the looked-up element: the caller asked for it, it is not an eviction
			for j, y := range t.Events {
				if y.Kind == EvStore && y.Addr.isFieldAddrOf(x.evict) && y.Addr.Args[0].root().Kind != KAlloc {
					c.violated("C04.eviction", name, y.Pos, "removing the entry the caller named (Delete) is counted as an eviction: Evictions no longer is the number of entries displaced by the capacity bound", c.witness(t, j)...)
					return false
				}
			}
			continue
		}
		// victim must be Back(), chosen under size > capacity on current values
		isBack := false
		for j := i - 1; j >= 0; j-- {
			y := t.Events[j]
			if x.isListMutation(y) {
				break
			}
			if x.listCall(y, "Back") && y.Res.Key() == el.Key() {
				isBack = true
				break
			}
		}
		if !isBack {
			c.violated("C04.eviction", name, e.Pos, "an evicted element is not list.Back(): the victim is not the least recently used entry", c.witness(t, i)...)
			return false
		}
		// the entry this operation touches must already be at the front when victims are chosen
		for j := i + 1; j < len(t.Events); j++ {
			y := t.Events[j]
			if x.listCall(y, "MoveToFront") || x.listCall(y, "PushFront") {
				c.violated("C04.eviction", name, e.Pos, "entries are evicted before the entry this operation touches has been moved to the front: a just-updated key near the tail is evicted itself (its new value is lost) or in place of older entries", c.witness(t, j)...)
				return false
			}
		}
		facts := t.factsBefore(i)
		over := false
		for j := i - 1; j >= 0; j-- {
			y := t.Events[j]
			if y.Kind == EvStore && y.Addr.isFieldAddrOf(x.size) {
				break
			}
			if y.Kind == EvLoad && y.Addr.isFieldAddrOf(x.size) {
				sv := y.Res
				if hasFact(facts, func(f Fact) bool {
					return f.X.Key() == sv.Key() && f.Op == token.GTR && loadedFrom(t, f.Y, x.capacity, 0, i)
				}) {
					over = true
				}
			}
		}
		if !over {
			c.violated("C04.eviction", name, e.Pos, "an entry is evicted without `size > capacity` established on the current size: entries are evicted although they fit (e.g. with `>=` a cache filled exactly to capacity loses its LRU entry)", c.witness(t, i)...)
			return false
		}
		// evictions++ once for this victim (until the next Back())
		bumps, appended := 0, false
		for j := i + 1; j < len(t.Events); j++ {
			y := t.Events[j]
			if x.listCall(y, "Back") || y.Kind == EvLoopGen {
				break
			}
			if y.Kind == EvStore && y.Addr.isFieldAddrOf(x.evict) {
				if y.Val.Kind == KBin && y.Val.Op == token.ADD && y.Val.Args[0].Key() == y.Old.Key() {
					if one, isC := y.Val.Args[1].intConst(); isC && one == 1 {
						bumps++
					}
				}
			}
		}
		// the increment may also precede the Remove within the same iteration
		for j := i - 1; j >= 0; j-- {
			y := t.Events[j]
			if x.listCall(y, "Back") {
				break
			}
			if y.Kind == EvStore && y.Addr.isFieldAddrOf(x.evict) {
				bumps++
			}
		}
		complete := false
		for j := i + 1; j < len(t.Events); j++ {
			if t.Events[j].Kind == EvLoopGen || t.Events[j].Kind == EvReturn {
				complete = true
			}
		}
		if t.End == EndCut {
			complete = true
		}
		if complete && bumps != 1 {
			c.violated("C04.eviction", name, e.Pos, fmt.Sprintf("evictions is incremented %d times for one evicted entry", bumps), c.witness(t, i)...)
			return false
		}
		if getRemoved && t.End == EndReturn {
			// the returned slice contains the victim's value
			r := t.Ret[0]
			r.walk(func(s *Sym) {
				if s.Kind == KInit && s.Args[0].isFieldAddrOf(x.eValue) {
					if b, ok := entryOfElem(s.Args[0].Args[0]); ok && b.Key() == el.Key() {
						appended = true
					}
				}
			})
			// values evicted in a generalised iteration flow through a loop-carried slice: accept a fresh loop value
			if !appended {
				r.walk(func(s *Sym) {
					if (s.Kind == KFresh && s.Name == "loop") || (s.Kind == KInit && s.ID != 0) {
						appended = true
					}
				})
			}
			if !appended {
				c.violated("C04.eviction", name, e.Pos, "an entry is evicted by a ...AndGetRemoved operation but its value is not in the returned list", c.witness(t, len(t.Events)-1)...)
				return false
			}
		}
	}
	return true
}

// checkRecency: rule 4.
func (x *lruCtx) checkRecency(t *Trace, name string, fn *ssa.Function) bool {
	c := x.c
	elem, found, known := x.lookedUp(t)
	var moves, pushes, valueStores, mutations int
	for _, e := range t.Events {
		if x.isListMutation(e) {
			mutations++
		}
		if x.listCall(e, "MoveToFront") {
			if elem != nil && len(e.Args) > 1 && e.Args[1].Key() == elem.Key() {
				moves++
			} else {
				moves += 100
			}
		}
		if x.listCall(e, "PushFront") {
			pushes++
		}
		if e.Kind == EvStore && e.Addr.isFieldAddrOf(x.eValue) && e.Addr.Args[0].root().Kind != KAlloc {
			valueStores++
		}
		if x.listCall(e, "MoveToBack") || x.listCall(e, "MoveBefore") || x.listCall(e, "MoveAfter") || x.listCall(e, "InsertBefore") || x.listCall(e, "InsertAfter") {
			moves += 100
		}
	}
	fail := func(msg string) bool {
		c.violated("C04.recency", name, fn.Pos(), msg, c.witness(t, len(t.Events)-1)...)
		return false
	}
	retEntryValue := func(r *Sym) bool {
		if r.Kind == KInit && r.Args[0].isFieldAddrOf(x.eValue) {
			b, ok := entryOfElem(r.Args[0].Args[0])
			return ok && elem != nil && b.Key() == elem.Key()
		}
		return false
	}
	switch fn.Name() {
	case "Get":
		if known && found {
			if moves != 1 {
				return fail("a Get hit does not move exactly the found element to the front: Get must refresh recency")
			}
			if !retEntryValue(t.Ret[0]) {
				return fail("a Get hit does not return the found entry's value")
			}
			if b, isb := t.Ret[1].boolConst(); !isb || !b {
				return fail("a Get hit does not report ok=true")
			}
		} else if known && !found {
			if mutations != 0 {
				return fail("a Get miss changes the list")
			}
			if b, isb := t.Ret[1].boolConst(); !isb || b {
				return fail("a Get miss does not report ok=false")
			}
		}
	case "Peek":
		if mutations != 0 {
			return fail("Peek changes the recency list: Peek must not refresh recency")
		}
		if known && found && !retEntryValue(t.Ret[0]) {
			return fail("a Peek hit does not return the found entry's value")
		}
	case "Exist", "Stats", "StatsJSON", "Length", "Size", "Capacity", "Evictions", "Keys", "Items":
		if mutations != 0 {
			return fail(fn.Name() + " changes the recency list")
		}
		if fn.Name() == "Exist" && known {
			if b, isb := t.Ret[0].boolConst(); isb && b != found {
				return fail("Exist reports the opposite of the lookup")
			}
		}
		if fn.Name() == "Keys" || fn.Name() == "Items" {
			for _, e := range t.Events {
				if x.listCall(e, "Back") || (e.Kind == EvCall && e.callName() == "(*container/list.Element).Prev") {
					return fail(fn.Name() + " does not walk the list from Front() with Next(): entries are not listed from most to least recently used")
				}
			}
		}
	case "Set", "SetAndGetRemoved":
		if known && found {
			if moves != 1 || pushes != 0 {
				return fail("a Set on an existing key does not move exactly that element to the front")
			}
			if valueStores != 1 {
				return fail("a Set on an existing key does not replace the entry's value exactly once")
			}
		} else if known && !found {
			if pushes != 1 {
				return fail("a Set on a new key does not push exactly one new element at the front")
			}
		}
	case "SetIfAbsent":
		if known && found {
			if moves != 1 || pushes != 0 || valueStores != 0 {
				return fail("SetIfAbsent on an existing key must only refresh its recency (MoveToFront), not replace the value or add an element")
			}
		} else if known && !found {
			if pushes != 1 {
				return fail("SetIfAbsent on a new key does not push exactly one new element at the front")
			}
		}
	case "Delete":
		if known && !found && mutations != 0 {
			return fail("Delete of an absent key changes the list")
		}
		if known && t.End == EndReturn && len(t.Ret) == 1 {
			if b, isb := t.Ret[0].boolConst(); isb && b != found {
				return fail("Delete reports the opposite of whether the key existed")
			}
		}
	}
	if !known && elem != nil && (fn.Name() == "Get" || fn.Name() == "Set" || fn.Name() == "SetIfAbsent") {
		return fail("the outcome of the table lookup is not examined")
	}
	return true
}

// checkShardCapacity: rule 5.
func (c *Ctx) checkShardCapacity() {
	for _, rel := range []string{"cache", "cache/tiny"} {
		fn := c.mustFn(rel, "newWideLRUCache")
		capF := c.field(rel, "LRUCache", "capacity")
		numbs := c.field("remap", "ReMap", "numbs")
		if fn == nil || capF == nil || numbs == nil {
			continue
		}
		cons := rel + ".newWideLRUCache"
		traces, _ := c.Trace(fn, TraceConfig{})
		ok, n := true, 0
		for _, t := range traces {
			for _, e := range t.Events {
				if e.Kind == EvStore && e.Addr.isFieldAddrOf(capF) {
					n++
					v := e.Val
					good := v.Kind == KBin && v.Op == token.ADD
					if good {
						one, isC := v.Args[1].intConst()
						q := v.Args[0]
						good = isC && one == 1 && q.Kind == KBin && q.Op == token.QUO && q.Args[0].Key() == t.Params[0].Key()
						if good {
							good = false
							d := q.Args[1]
							for _, y := range t.Events {
								if (y.Kind == EvLoad || y.Kind == EvStore) && y.Addr.isFieldAddrOf(numbs) {
									vv := y.Res
									if y.Kind == EvStore {
										vv = y.Val
									}
									if boundKey(vv) == boundKey(d) {
										good = true
									}
								}
							}
						}
					}
					if !good && ok {
						ok = false
						c.violated("C04.shard-capacity", cons, e.Pos, "a shard's capacity is not capacity/numbs + 1: "+c.short(v.Key()), c.witness(t, len(t.Events)-1)...)
					}
				}
			}
		}
		if ok && n > 0 {
			c.holds("C04.shard-capacity", cons, fn.Pos(), "per-shard capacity = capacity/numbs + 1")
		} else if n == 0 {
			c.undecided("C04.shard-capacity", cons, fn.Pos(), "no shard capacity store found")
		}
	}
}
