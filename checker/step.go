package main

import (
	"go/constant"
	"go/token"
	"go/types"
	"strings"

	"golang.org/x/tools/go/ssa"
)

// step executes one instruction of the top frame. It returns the continuation (nil when the path
// ended) and additional forked states.
func (tr *Tracer) step(st *state) (*state, []*state) {
	f := st.top()
	if f.unwind {
		return tr.unwindStep(st)
	}
	if f.pc >= len(f.block.Instrs) {
		tr.finish(st, EndBlock, nil)
		return nil, nil
	}
	in := f.block.Instrs[f.pc]
	switch in := in.(type) {
	case *ssa.Phi:
		// all phis of a block are evaluated simultaneously with respect to the incoming edge
		idx := -1
		for i, p := range f.block.Preds {
			if p == f.prev {
				idx = i
			}
		}
		vals := map[*ssa.Phi]*Sym{}
		pc := f.pc
		for pc < len(f.block.Instrs) {
			ph, ok := f.block.Instrs[pc].(*ssa.Phi)
			if !ok {
				break
			}
			if idx >= 0 {
				vals[ph] = tr.val(st, ph.Edges[idx])
			} else {
				vals[ph] = st.fresh("phi", ph.Type(), ph)
			}
			pc++
		}
		for ph, v := range vals {
			f.regs[ph] = v
		}
		f.pc = pc
		return st, nil
	case *ssa.Alloc:
		st.nextID++
		f.regs[in] = &Sym{Kind: KAlloc, ID: st.nextID, Ref: in, Typ: in.Type()}
	case *ssa.MakeMap, *ssa.MakeChan, *ssa.MakeSlice:
		st.nextID++
		v := in.(ssa.Value)
		s := &Sym{Kind: KAlloc, ID: st.nextID, Ref: in, Typ: v.Type()}
		if mc, ok := in.(*ssa.MakeChan); ok {
			s.Args = []*Sym{tr.val(st, mc.Size)}
			s.key = ""
		}
		if ms, ok := in.(*ssa.MakeSlice); ok {
			s.Args = []*Sym{tr.val(st, ms.Len), tr.val(st, ms.Cap)}
		}
		f.regs[v] = s
	case *ssa.BinOp:
		f.regs[in] = tr.binop(in.Op, tr.val(st, in.X), tr.val(st, in.Y), in.Type())
	case *ssa.UnOp:
		x := tr.val(st, in.X)
		switch in.Op {
		case token.MUL: // load
			v := tr.loadCell(st, x, in.Type())
			if tr.cfg.RecordAllLoads || x.Kind == KFieldAddr || x.Kind == KIndexAddr || x.Kind == KGlobal {
				st.emit(&Event{Kind: EvLoad, Instr: in, Addr: x, Res: v})
			}
			f.regs[in] = v
		case token.ARROW:
			var res *Sym
			if in.CommaOk {
				res = &Sym{Kind: KTuple, Args: []*Sym{st.fresh("recv", nil, in), st.fresh("recvok", types.Typ[types.Bool], in)}}
			} else {
				res = st.fresh("recv", in.Type(), in)
			}
			st.emit(&Event{Kind: EvRecv, Instr: in, Addr: x, Res: res})
			tr.havoc(st, "recv")
			f.regs[in] = res
		case token.NOT:
			if b, ok := x.boolConst(); ok {
				f.regs[in] = symBool(!b)
			} else {
				f.regs[in] = &Sym{Kind: KUn, Op: in.Op, Args: []*Sym{x}, Typ: in.Type()}
			}
		case token.SUB, token.XOR:
			if x.isConst() && x.Const != nil {
				if in.Op == token.SUB {
					f.regs[in] = wrapConst(constant.UnaryOp(token.SUB, x.Const, 0), in.Type())
				} else {
					f.regs[in] = wrapConst(constant.BinaryOp(constant.MakeInt64(-1), token.XOR, x.Const), in.Type())
				}
			} else {
				f.regs[in] = &Sym{Kind: KUn, Op: in.Op, Args: []*Sym{x}, Typ: in.Type()}
			}
		default:
			f.regs[in] = &Sym{Kind: KUn, Op: in.Op, Args: []*Sym{x}, Typ: in.Type()}
		}
	case *ssa.ChangeType:
		// value preserving: only the static type changes (also generic instantiation wrappers)
		f.regs[in] = tr.val(st, in.X)
	case *ssa.ChangeInterface:
		f.regs[in] = &Sym{Kind: KConv, Name: "changeiface", Args: []*Sym{tr.val(st, in.X)}, Typ: in.Type()}
	case *ssa.MakeInterface:
		f.regs[in] = &Sym{Kind: KConv, Name: "makeiface", Args: []*Sym{tr.val(st, in.X)}, Typ: in.Type()}
	case *ssa.Convert:
		x := tr.val(st, in.X)
		if x.isConst() && x.Const != nil && x.Const.Kind() == constant.Int {
			if b, ok := in.Type().Underlying().(*types.Basic); ok && b.Info()&types.IsInteger != 0 {
				f.regs[in] = wrapConst(x.Const, in.Type())
				break
			}
		}
		f.regs[in] = &Sym{Kind: KConv, Name: "convert", Args: []*Sym{x}, Typ: in.Type()}
	case *ssa.MultiConvert:
		f.regs[in] = &Sym{Kind: KConv, Name: "convert", Args: []*Sym{tr.val(st, in.X)}, Typ: in.Type()}
	case *ssa.SliceToArrayPointer:
		f.regs[in] = &Sym{Kind: KConv, Name: "slice2arr", Args: []*Sym{tr.val(st, in.X)}, Typ: in.Type()}
	case *ssa.FieldAddr:
		x := tr.val(st, in.X)
		fld := fieldVar(in.X.Type(), in.Field)
		// a field reached through embedded structs is a field of the outer object (the language promotes it): the
		// cell is named after the outer object, so that a field moved into an embedded base struct keeps its identity
		for x.Kind == KFieldAddr && x.Field != nil && x.Field.Embedded() && x.Args[0] != nil {
			if _, isPtr := x.Field.Type().Underlying().(*types.Pointer); isPtr {
				break // embedded by pointer: a different object
			}
			x = x.Args[0]
		}
		f.regs[in] = &Sym{Kind: KFieldAddr, Args: []*Sym{x}, Field: fld, FIdx: in.Field, Typ: in.Type()}
	case *ssa.Field:
		x := tr.val(st, in.X)
		fld := fieldVar(in.X.Type(), in.Field)
		f.regs[in] = fieldOf(x, fld, in.Field, in.Type())
	case *ssa.IndexAddr:
		x, idx := tr.val(st, in.X), tr.val(st, in.Index)
		// an element of a slice taken over a local array (`[]T{a, b}`, buf[1:]) is that array's element
		if x.Kind == KOp && x.Name == "slice" && len(x.Args) >= 3 && x.Args[0].Kind == KAlloc && constSliceLen(x) >= 0 {
			if i, isC := idx.intConst(); isC && i >= 0 && i < constSliceLen(x) {
				lo := int64(0)
				if x.Args[1].Name != "none" {
					lo, _ = x.Args[1].intConst()
				}
				f.regs[in] = &Sym{Kind: KIndexAddr, Args: []*Sym{x.Args[0], symInt(lo+i, types.Typ[types.Int])}, Typ: in.Type()}
				break
			}
		}
		f.regs[in] = &Sym{Kind: KIndexAddr, Args: []*Sym{x, idx}, Typ: in.Type()}
	case *ssa.Index:
		x, idx := tr.val(st, in.X), tr.val(st, in.Index)
		if _, isArr := in.X.Type().Underlying().(*types.Array); isArr && x.Kind == KStruct {
			if i, ok := idx.intConst(); ok && i >= 0 && int(i) < len(x.Args) {
				f.regs[in] = x.Args[i]
				break
			}
		}
		f.regs[in] = &Sym{Kind: KIndex, Args: []*Sym{x, idx}, Typ: in.Type()}
	case *ssa.Lookup:
		m, k := tr.val(st, in.X), tr.val(st, in.Index)
		if _, isMap := in.X.Type().Underlying().(*types.Map); !isMap {
			f.regs[in] = &Sym{Kind: KIndex, Args: []*Sym{m, k}, Typ: in.Type()}
			break
		}
		var res *Sym
		if in.CommaOk {
			res = &Sym{Kind: KTuple, Args: []*Sym{st.fresh("mapval", nil, in), st.fresh("mapok", types.Typ[types.Bool], in)}}
		} else {
			res = st.fresh("mapval", in.Type(), in)
		}
		st.emit(&Event{Kind: EvMapLookup, Instr: in, Addr: m, Args: []*Sym{k}, Res: res})
		f.regs[in] = res
	case *ssa.Extract:
		t := tr.val(st, in.Tuple)
		if t.Kind == KTuple && in.Index < len(t.Args) {
			v := t.Args[in.Index]
			if v.Typ == nil {
				v.Typ = in.Type()
			}
			f.regs[in] = v
		} else {
			f.regs[in] = &Sym{Kind: KOp, Name: "extract", Args: []*Sym{t, symInt(int64(in.Index), nil)}, Typ: in.Type()}
		}
	case *ssa.Slice:
		args := []*Sym{tr.val(st, in.X)}
		for _, v := range []ssa.Value{in.Low, in.High, in.Max} {
			if v != nil {
				args = append(args, tr.val(st, v))
			} else {
				args = append(args, &Sym{Kind: KConst, Name: "none"})
			}
		}
		f.regs[in] = &Sym{Kind: KOp, Name: "slice", Args: args, Typ: in.Type()}
	case *ssa.TypeAssert:
		x := tr.val(st, in.X)
		ta := &Sym{Kind: KOp, Name: "typeassert", Args: []*Sym{x}, Typ: in.AssertedType}
		if in.CommaOk {
			var okv *Sym
			if inner := x.strip(); x.Kind == KConv && x.Name == "makeiface" && inner.Typ != nil && !types.IsInterface(in.AssertedType) {
				okv = symBool(types.Identical(inner.Typ, in.AssertedType))
			} else {
				okv = &Sym{Kind: KOp, Name: "typeassertok", Args: []*Sym{x}, Typ: in.AssertedType}
				okv.key = "typeassertok(" + x.Key() + ")<" + typeStr(in.AssertedType) + ">"
			}
			f.regs[in] = &Sym{Kind: KTuple, Args: []*Sym{ta, okv}}
		} else {
			if x.Kind == KConv && x.Name == "makeiface" && !types.IsInterface(in.AssertedType) && x.Args[0].Typ != nil && types.Identical(x.Args[0].Typ, in.AssertedType) {
				ta = x.Args[0]
			}
			f.regs[in] = ta
		}
	case *ssa.MakeClosure:
		b := tr.vals(st, in.Bindings)
		f.regs[in] = &Sym{Kind: KClosure, Ref: in.Fn.(*ssa.Function), Args: b, Typ: in.Type()}
	case *ssa.Range:
		f.regs[in] = st.fresh("range", nil, in)
	case *ssa.Next:
		f.regs[in] = &Sym{Kind: KTuple, Args: []*Sym{st.fresh("nextok", types.Typ[types.Bool], in), st.fresh("nextk", nil, in), st.fresh("nextv", nil, in)}}
	case *ssa.Store:
		addr, v := tr.val(st, in.Addr), tr.val(st, in.Val)
		// `*p = T{f: x}` is compiled as a store of the zero T followed by the named field stores: the zero
		// store is the zero store of every field (so that it reads the same as field-by-field assignment)
		if r := addr.root(); r != nil && r.Kind != KAlloc && v.Kind == KConst && v.Const == nil {
			if tr.storeZeroFields(st, in, addr, in.Val.Type(), 0) {
				break
			}
		}
		old := tr.loadCell(st, addr, in.Val.Type())
		st.emit(&Event{Kind: EvStore, Instr: in, Addr: addr, Val: v, Old: old})
		tr.storeCell(st, addr, v)
	case *ssa.MapUpdate:
		m, k, v := tr.val(st, in.Map), tr.val(st, in.Key), tr.val(st, in.Value)
		st.emit(&Event{Kind: EvMapUpdate, Instr: in, Addr: m, Args: []*Sym{k}, Val: v})
		if m.root().Kind != KAlloc || st.escaped[m.root().ID] {
			tr.escape(st, v)
		}
	case *ssa.Send:
		ch, v := tr.val(st, in.Chan), tr.val(st, in.X)
		st.emit(&Event{Kind: EvSend, Instr: in, Addr: ch, Val: v})
		tr.escape(st, v)
	case *ssa.DebugRef:
	case *ssa.Go:
		ev := &Event{Kind: EvGo, Instr: in, Args: tr.vals(st, in.Call.Args)}
		ev.Callee = in.Call.StaticCallee()
		if in.Call.IsInvoke() {
			ev.Method = in.Call.Method
			ev.Args = append([]*Sym{tr.val(st, in.Call.Value)}, ev.Args...)
		} else if ev.Callee == nil {
			ev.Val = tr.val(st, in.Call.Value)
			if ev.Val.Kind == KClosure {
				ev.Callee = ev.Val.Ref.(*ssa.Function)
			}
		}
		st.emit(ev)
		for _, a := range ev.Args {
			tr.escape(st, a)
		}
		tr.escape(st, ev.Val)
	case *ssa.Defer:
		d := deferred{instr: in, args: tr.vals(st, in.Call.Args)}
		if in.Call.IsInvoke() {
			d.args = append([]*Sym{tr.val(st, in.Call.Value)}, d.args...)
		} else if in.Call.StaticCallee() == nil {
			d.fnSym = tr.val(st, in.Call.Value)
		} else if mc, ok := in.Call.Value.(*ssa.MakeClosure); ok {
			d.fnSym = tr.val(st, mc)
		}
		f.defers = append(f.defers, d)
		st.emit(&Event{Kind: EvDefer, Instr: in, Callee: in.Call.StaticCallee(), Args: d.args, Val: d.fnSym})
	case *ssa.RunDefers:
		if len(f.defers) > 0 {
			d := f.defers[len(f.defers)-1]
			f.defers = f.defers[:len(f.defers)-1]
			// pc stays on RunDefers: we come back here after the deferred call returned
			return tr.invoke(st, d.instr, &d.instr.Call, d.fnSym, d.args, true)
		}
	case *ssa.Jump:
		return tr.gotoBlock(st, f.block.Succs[0])
	case *ssa.If:
		cond := tr.val(st, in.Cond)
		if v, ok := tr.decide(st, cond); ok {
			if !cond.isConst() {
				st.emit(&Event{Kind: EvBranch, Instr: in, Cond: cond, Taken: v, Pos: condPos(in)})
			}
			return tr.gotoBlock(st, f.block.Succs[b2i(!v)])
		}
		other := st.clone()
		tr.assume(st, cond, true)
		st.emit(&Event{Kind: EvBranch, Instr: in, Cond: cond, Taken: true, Pos: condPos(in)})
		tr.assume(other, cond, false)
		other.emit(&Event{Kind: EvBranch, Instr: in, Cond: cond, Taken: false, Pos: condPos(in)})
		s1, f1 := tr.gotoBlock(st, f.block.Succs[0])
		s2, f2 := tr.gotoBlock(other, other.top().block.Succs[1])
		forks := append(f1, f2...)
		if s2 != nil {
			forks = append(forks, s2)
		}
		return s1, forks
	case *ssa.Return:
		return tr.doReturn(st, tr.vals(st, in.Results))
	case *ssa.Panic:
		v := tr.val(st, in.X)
		st.emit(&Event{Kind: EvPanic, Instr: in, Args: []*Sym{v}})
		return tr.startPanic(st, v)
	case *ssa.Select:
		return tr.doSelect(st, in)
	case *ssa.Call:
		var fnSym *Sym
		args := tr.vals(st, in.Call.Args)
		if in.Call.IsInvoke() {
			args = append([]*Sym{tr.val(st, in.Call.Value)}, args...)
		} else if in.Call.StaticCallee() == nil {
			if _, isB := in.Call.Value.(*ssa.Builtin); !isB {
				fnSym = tr.val(st, in.Call.Value)
			}
		} else if _, ok := in.Call.Value.(*ssa.MakeClosure); ok {
			fnSym = tr.val(st, in.Call.Value)
		}
		return tr.invoke(st, in, &in.Call, fnSym, args, false)
	default:
		if v, ok := in.(ssa.Value); ok {
			f.regs[v] = st.fresh("instr", v.Type(), in)
		}
	}
	f.pc++
	return st, nil
}

func condPos(in *ssa.If) token.Pos {
	if p := in.Cond.Pos(); p.IsValid() {
		return p
	}
	return in.Pos()
}

func b2i(b bool) int {
	if b {
		return 1
	}
	return 0
}

func fieldVar(t types.Type, idx int) *types.Var {
	if p, ok := t.Underlying().(*types.Pointer); ok {
		t = p.Elem()
	}
	if st, ok := t.Underlying().(*types.Struct); ok && idx < st.NumFields() {
		return st.Field(idx)
	}
	return nil
}

// gotoBlock moves the top frame to block b, generalising the state when b is re-entered over a back edge.
func (tr *Tracer) gotoBlock(st *state, b *ssa.BasicBlock) (*state, []*state) {
	f := st.top()
	from := f.block
	back := b.Dominates(from)
	if back {
		if g := f.loopGen[b]; g <= 0 && g > -4 && (smallConstLoop(b) || tr.smallBoundLoop(st, b)) && tr.phisConstOver(st, f, b, from) {
			// a loop over a literal table of at most four elements (range over an array literal, i < 2):
			// the iterations are walked one by one with their concrete index instead of being generalised
			f.loopGen[b] = g - 1
			f.prev, f.block, f.pc = from, b, 0
			return st, nil
		}
		switch g := f.loopGen[b]; {
		case g <= 0:
			f.loopGen[b] = 1
			f.genDepth++
			st.gen++
			st.emit(&Event{Kind: EvLoopGen, Instr: from.Instrs[len(from.Instrs)-1]})
			tr.generalise(st, f, b, from)
			f.prev, f.block, f.pc = nil, b, 0 // prev=nil: phis become fresh
			// phis: fresh with loop-variable hint
			tr.freshPhis(st, f, b, from)
			return st, nil
		default:
			// verify the candidate invariants assumed for the generalised iteration
			for _, inv := range f.loopInv[b] {
				if inv.phi != nil {
					for i, p := range b.Preds {
						if p != from {
							continue
						}
						if k := tr.knownConst(st, tr.val(st, inv.phi.Edges[i])); k == nil || k.Key() != inv.c.Key() {
							tr.badInv[blockID(b)+"phi:"+inv.phi.Name()] = true
							tr.restart = true
						}
					}
					continue
				}
				cur := tr.loadCellQuiet(st, inv.addr)
				if k := tr.knownConst(st, cur); k == nil || k.Key() != inv.c.Key() {
					tr.badInv[blockID(b)+inv.addr.Key()] = true
					tr.restart = true
				}
			}
			// summarise the transition of the loop-carried variables over the generalised iteration
			backIdx := -1
			for i, p := range b.Preds {
				if p == from {
					backIdx = i
				}
			}
			if backIdx >= 0 && len(st.frames) == 1 {
				for _, in := range b.Instrs {
					ph, ok := in.(*ssa.Phi)
					if !ok {
						break
					}
					if cur, ok := f.regs[ph]; ok {
						name := ph.Comment
						st.cut = append(st.cut, PhiStep{Phi: ph, Name: name, Cur: cur, Next: tr.val(st, ph.Edges[backIdx])})
					}
				}
			}
			tr.finish(st, EndCut, nil)
			return nil, nil
		}
	}
	if f.loopGen[b] != 0 {
		// entering a loop header again from outside the loop (nested loop re-entry)
		f.loopGen[b] = 0
	}
	if isLoopHeader(b) {
		// a scalar local of this function that was never written before the loop (a named result, `var err error`)
		// holds its zero value on entry: materialise the cell so that it can be an invariant candidate like any other
		for v, sv := range f.regs {
			a, isAlloc := v.(*ssa.Alloc)
			if !isAlloc || sv == nil || sv.Kind != KAlloc {
				continue
			}
			pt, isPtr := a.Type().Underlying().(*types.Pointer)
			if !isPtr {
				continue
			}
			switch pt.Elem().Underlying().(type) {
			case *types.Basic, *types.Pointer, *types.Interface:
				if _, has := st.store[sv.Key()]; !has {
					tr.loadCell(st, sv, pt.Elem())
				}
			}
		}
		// remember which cells hold known constants on first entry (candidates for loop invariants)
		snap := map[string]*Sym{}
		for k, c := range st.store {
			if kc := tr.knownConst(st, c.val); kc != nil {
				snap[k] = kc
			}
		}
		if f.loopSnap == nil {
			f.loopSnap = map[*ssa.BasicBlock]map[string]*Sym{}
		}
		f.loopSnap[b] = snap
	}
	f.prev, f.block, f.pc = from, b, 0
	return st, nil
}

// freshPhis gives each phi of a generalised loop header a fresh value, remembering the initial and
// the back-edge value so that the range evaluator can recognise induction variables.
func (tr *Tracer) freshPhis(st *state, f *frame, h, from *ssa.BasicBlock) {
	backIdx := -1
	for i, p := range h.Preds {
		if p == from {
			backIdx = i
		}
	}
	pc := 0
	type pv struct {
		ph *ssa.Phi
		s  *Sym
	}
	var news []pv
	for pc < len(h.Instrs) {
		ph, ok := h.Instrs[pc].(*ssa.Phi)
		if !ok {
			break
		}
		s := st.fresh("loop", ph.Type(), ph)
		// hint for the range evaluator: Args[0] = value on first entry, Args[1] = constant step of an
		// induction variable (back-edge value is phi +/- const), nil otherwise
		if old, ok := f.regs[ph]; ok && backIdx >= 0 {
			var step *Sym
			if bo, ok := ph.Edges[backIdx].(*ssa.BinOp); ok && (bo.Op == token.ADD || bo.Op == token.SUB) && bo.X == ssa.Value(ph) {
				if cst, ok := bo.Y.(*ssa.Const); ok && cst.Value != nil {
					if v, ok := constant.Int64Val(cst.Value); ok {
						if bo.Op == token.SUB {
							v = -v
						}
						step = symInt(v, ph.Type())
					}
				}
			}
			s.Args = []*Sym{old, step}
			// candidate invariant: the variable held the same constant on first entry and now at the back edge
			// (`err` in `for ... { if err = f(); err != nil { return } }`)
			if step == nil && !tr.badInv[blockID(h)+"phi:"+ph.Name()] {
				if c0 := tr.knownConst(st, old); c0 != nil {
					if c1 := tr.knownConst(st, tr.val(st, ph.Edges[backIdx])); c1 != nil && c1.Key() == c0.Key() {
						st.eqc[s.Key()] = c0
						if f.loopInv == nil {
							f.loopInv = map[*ssa.BasicBlock][]loopInvariant{}
						}
						f.loopInv[h] = append(append([]loopInvariant(nil), f.loopInv[h]...), loopInvariant{phi: ph, c: c0})
					}
				}
			}
		}
		news = append(news, pv{ph, s})
		pc++
	}
	for _, n := range news {
		f.regs[n.ph] = n.s
	}
	f.pc = pc
}

func blockID(b *ssa.BasicBlock) string {
	return b.Parent().String() + "#" + b.String() + "|"
}

// smallConstLoop: the header ends in `if x < c` with a constant 0 <= c <= 4.
func smallConstLoop(b *ssa.BasicBlock) bool {
	if len(b.Instrs) == 0 {
		return false
	}
	br, ok := b.Instrs[len(b.Instrs)-1].(*ssa.If)
	if !ok {
		return false
	}
	cmp, ok := br.Cond.(*ssa.BinOp)
	if !ok || cmp.Op != token.LSS {
		return false
	}
	k, ok := cmp.Y.(*ssa.Const)
	if !ok || k.Value == nil || k.Value.Kind() != constant.Int {
		return false
	}
	n, exact := constant.Int64Val(k.Value)
	return exact && n >= 0 && n <= 4
}

// smallBoundLoop: the header ends in `if x < n` where n is, on this path, a known constant 0 <= n <= 4 (the length
// of a slice literal handed to a multi-element form: Locks([]T{key})).
func (tr *Tracer) smallBoundLoop(st *state, b *ssa.BasicBlock) bool {
	if len(b.Instrs) == 0 {
		return false
	}
	br, ok := b.Instrs[len(b.Instrs)-1].(*ssa.If)
	if !ok {
		return false
	}
	cmp, ok := br.Cond.(*ssa.BinOp)
	if !ok || cmp.Op != token.LSS {
		return false
	}
	if _, isConst := cmp.Y.(*ssa.Const); isConst {
		return false
	}
	// the bound must already have a value in this frame (computed before the loop)
	if _, has := st.top().regs[cmp.Y]; !has {
		return false
	}
	n, isC := tr.val(st, cmp.Y).intConst()
	return isC && n >= 0 && n <= 4
}

// phisConstOver: every phi of header h takes a constant over the edge from -> h.
func (tr *Tracer) phisConstOver(st *state, f *frame, h, from *ssa.BasicBlock) bool {
	backIdx := -1
	for i, p := range h.Preds {
		if p == from {
			backIdx = i
		}
	}
	if backIdx < 0 {
		return false
	}
	n := 0
	for _, in := range h.Instrs {
		ph, ok := in.(*ssa.Phi)
		if !ok {
			break
		}
		n++
		if v := tr.val(st, ph.Edges[backIdx]); v == nil || !v.isConst() || v.Const == nil {
			return false
		}
	}
	return n > 0
}

func isLoopHeader(b *ssa.BasicBlock) bool {
	for _, p := range b.Preds {
		if b.Dominates(p) {
			return true
		}
	}
	return false
}

// knownConst: the constant that the path knows v to be equal to (nil if none).
func (tr *Tracer) knownConst(st *state, v *Sym) *Sym {
	if v == nil {
		return nil
	}
	if v.isConst() {
		return v
	}
	if c, ok := st.eqc[v.Key()]; ok {
		return c
	}
	return nil
}

// loadCellQuiet reads a cell without materialising it.
func (tr *Tracer) loadCellQuiet(st *state, addr *Sym) *Sym {
	if c, ok := st.store[addr.Key()]; ok {
		return c.val
	}
	return nil
}

// generalise forgets memory that the loop body may change.
func (tr *Tracer) generalise(st *state, f *frame, h, from *ssa.BasicBlock) {
	body := loopBody(h, from)
	touched := map[*ssa.Alloc]bool{}
	anyCall := false
	for b := range body {
		for _, in := range b.Instrs {
			switch in := in.(type) {
			case *ssa.Store:
				if a := rootAlloc(in.Addr); a != nil {
					touched[a] = true
				}
			case ssa.CallInstruction:
				anyCall = true
				for _, a := range in.Common().Args {
					if al := rootAlloc(a); al != nil {
						touched[al] = true
					}
				}
				if al := rootAlloc(in.Common().Value); al != nil {
					touched[al] = true
				}
			case *ssa.MakeClosure:
				for _, bnd := range in.Bindings {
					if al := rootAlloc(bnd); al != nil {
						touched[al] = true
					}
				}
			}
		}
	}
	_ = anyCall
	// a loop whose body provably writes only named fields and local variables (no opaque effects) leaves
	// every other field cell alone
	quiet, fieldsStored := tr.loopModSet(body)
	if !quiet {
		for id := range st.escaped {
			st.dirty[id] = true
		}
	}
	for k, c := range st.store {
		r := c.addr.root()
		if r.Kind == KAlloc {
			if a, ok := r.Ref.(*ssa.Alloc); ok && a.Parent() == f.fn && !touched[a] && !st.escaped[r.ID] {
				continue
			}
		}
		if quiet && r.Kind != KAlloc {
			stored := false
			for a := c.addr; a != nil && (a.Kind == KFieldAddr || a.Kind == KIndexAddr); a = a.Args[0] {
				if a.Kind == KIndexAddr {
					stored = true // element cells: be conservative
					break
				}
				if fieldsStored[a.Field.Origin()] {
					stored = true
					break
				}
			}
			if !stored && (c.addr.Kind == KFieldAddr) {
				continue
			}
		}
		if r.Kind != KAlloc && tr.keepOnHavoc(st, c.addr) {
			continue
		}
		nv := st.later(c.addr, symValType(c.val))
		// candidate invariant: the cell held the same constant on first entry and now at the back edge
		if snap := f.loopSnap[h]; snap != nil {
			if c0, ok := snap[k]; ok && !tr.badInv[blockID(h)+k] {
				if c1 := tr.knownConst(st, c.val); c1 != nil && c1.Key() == c0.Key() {
					st.eqc[nv.Key()] = c0
					if f.loopInv == nil {
						f.loopInv = map[*ssa.BasicBlock][]loopInvariant{}
					}
					f.loopInv[h] = append(append([]loopInvariant(nil), f.loopInv[h]...), loopInvariant{addr: c.addr, c: c0})
				}
			}
		}
		st.store[k] = &cell{addr: c.addr, val: nv}
	}
}

// loopModSet inspects the blocks of a loop: quiet = no instruction with unknown effects on memory
// (only stores to locals and to named fields, calls of effect-free functions); fieldsStored = the
// struct fields stored to in the body.
func (tr *Tracer) loopModSet(body map[*ssa.BasicBlock]bool) (bool, map[*types.Var]bool) {
	fields := map[*types.Var]bool{}
	quiet := true
	for b := range body {
		for _, in := range b.Instrs {
			switch in := in.(type) {
			case *ssa.Store:
				if rootAlloc(in.Addr) != nil {
					continue
				}
				if fa, ok := in.Addr.(*ssa.FieldAddr); ok {
					if fv := fieldVar(fa.X.Type(), fa.Field); fv != nil {
						fields[fv.Origin()] = true
						continue
					}
				}
				quiet = false
			case *ssa.MapUpdate, *ssa.Send, *ssa.Go, *ssa.Defer, *ssa.Select, *ssa.RunDefers:
				quiet = false
			case *ssa.UnOp:
				if in.Op == token.ARROW {
					quiet = false
				}
			case *ssa.Call:
				cc := in.Common()
				if bi, ok := cc.Value.(*ssa.Builtin); ok {
					switch bi.Name() {
					case "copy", "delete", "close", "recover", "clear":
						quiet = false
					}
					continue
				}
				if cc.IsInvoke() {
					if cc.Method.Pkg() != nil && tr.c.inModule(cc.Method.Pkg()) {
						quiet = false
					}
					continue
				}
				callee := cc.StaticCallee()
				if callee == nil {
					quiet = false
					continue
				}
				if tr.c.fnInModule(callee) {
					if !tr.c.pureModuleFn(callee) {
						quiet = false
					}
					continue
				}
				n := callee.String()
				if strings.HasPrefix(n, "(*sync.") || strings.HasPrefix(n, "(*container/") || strings.HasPrefix(n, "container/heap.") || strings.HasPrefix(n, "sort.") || n == "time.Sleep" || n == "runtime.Gosched" {
					quiet = false
				}
				for _, a := range cc.Args {
					if _, isSig := a.Type().Underlying().(*types.Signature); isSig {
						quiet = false
					}
				}
			}
		}
	}
	return quiet, fields
}

func rootAlloc(v ssa.Value) *ssa.Alloc {
	for v != nil {
		switch x := v.(type) {
		case *ssa.Alloc:
			return x
		case *ssa.FieldAddr:
			v = x.X
		case *ssa.IndexAddr:
			v = x.X
		case *ssa.Slice:
			v = x.X
		case *ssa.ChangeType:
			v = x.X
		default:
			return nil
		}
	}
	return nil
}

// loopBody returns the natural loop of back edge from->h.
func loopBody(h, from *ssa.BasicBlock) map[*ssa.BasicBlock]bool {
	body := map[*ssa.BasicBlock]bool{h: true}
	var stack []*ssa.BasicBlock
	if !body[from] {
		body[from] = true
		stack = append(stack, from)
	}
	for len(stack) > 0 {
		b := stack[len(stack)-1]
		stack = stack[:len(stack)-1]
		for _, p := range b.Preds {
			if !body[p] {
				body[p] = true
				stack = append(stack, p)
			}
		}
	}
	return body
}

func (tr *Tracer) doSelect(st *state, in *ssa.Select) (*state, []*state) {
	f := st.top()
	n := len(in.States)
	var outs []*state
	mk := func(s *state, k int) {
		fr := s.top()
		ev := &Event{Kind: EvSelect, Instr: in, Case: k}
		args := []*Sym{symInt(int64(k), types.Typ[types.Int]), symBool(true)}
		if k >= 0 {
			sc := in.States[k]
			ev.Addr = tr.val(s, sc.Chan)
			ev.Pos = sc.Pos
			if sc.Dir == types.SendOnly {
				ev.Val = tr.val(s, sc.Send)
				tr.escape(s, ev.Val)
			}
		}
		args[1] = s.fresh("recvok", types.Typ[types.Bool], in)
		for _, sc := range in.States {
			if sc.Dir == types.RecvOnly {
				args = append(args, s.fresh("selrecv", nil, in))
			}
		}
		s.emit(ev)
		if in.Blocking || k >= 0 {
			tr.havoc(s, "select")
		}
		fr.regs[in] = &Sym{Kind: KTuple, Args: args}
		fr.pc++
	}
	for k := 0; k < n; k++ {
		s := st.clone()
		mk(s, k)
		outs = append(outs, s)
	}
	if !in.Blocking {
		s := st.clone()
		mk(s, -1)
		outs = append(outs, s)
	}
	_ = f
	if len(outs) == 0 {
		tr.finish(st, EndBlock, nil)
		return nil, nil
	}
	return outs[0], outs[1:]
}

// storeZeroFields writes the zero value of struct type t at addr field by field.
func (tr *Tracer) storeZeroFields(st *state, in *ssa.Store, addr *Sym, t types.Type, depth int) bool {
	stt, ok := t.Underlying().(*types.Struct)
	if !ok || stt.NumFields() == 0 || depth > 2 {
		return false
	}
	for i := 0; i < stt.NumFields(); i++ {
		fld := stt.Field(i)
		fa := &Sym{Kind: KFieldAddr, Args: []*Sym{addr}, Field: fld, FIdx: i, Typ: types.NewPointer(fld.Type())}
		if _, isStruct := fld.Type().Underlying().(*types.Struct); isStruct && tr.storeZeroFields(st, in, fa, fld.Type(), depth+1) {
			continue
		}
		z := zeroSym(fld.Type())
		old := tr.loadCell(st, fa, fld.Type())
		st.emit(&Event{Kind: EvStore, Instr: in, Addr: fa, Val: z, Old: old})
		tr.storeCell(st, fa, z)
	}
	return true
}
