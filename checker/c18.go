package main

import (
	"fmt"
	"go/token"

	"golang.org/x/tools/go/ssa"
)

func init() {
	register(&Property{
		ID:       "C18",
		Patterns: []string{"./store/gormx"},
		Explanation: "Decides on every path of Transact (each step is an opaque call that may return nil, return an error or panic; loops: first + generalised iteration): (1) with no steps nothing is begun; a failed begin runs no step and neither commits nor rolls back; " +
			"(2) after a successful begin every exit finishes the transaction exactly once; Commit happens only when every step on the path returned nil and nothing panicked, Rollback only when a step failed or panicked; a panic never escapes; " +
			"(3) the caller gets the commit's own error on the commit path and a non-nil error on every rollback path (the failing step's error or the error built from the panic); (4) after a step returned non-nil (or panicked) no later step runs — in Transact and in Combine. " +
			"NOT decided: gorm's own behaviour (Begin/Commit/Rollback are opaque), panics inside Rollback/Commit themselves.",
		Assumptions: []string{"gorm.DB.Begin/Commit/Rollback are opaque; their .Error fields are read as given", "fmt.Errorf never returns nil"},
		Floors:      map[string]int{"C18.begin": 1, "C18.finish-once": 1, "C18.result": 1, "C18.stop-at-failure": 2},
		Run:         runC18,
	})
}

func runC18(c *Ctx) {
	const rel = "store/gormx"
	fn := c.mustFn(rel, "Transact")
	if fn == nil {
		return
	}
	cons := "gormx.Transact"
	isStep := func(e *Event) bool { return e.Kind == EvCall && e.Val != nil && e.Method == nil && e.Callee == nil }
	noHavoc := func(e *Event) bool {
		return e.Callee != nil && c.fnInModule(e.Callee)
	}
	inl := func(callee *ssa.Function, depth int) bool {
		return depth <= 4 && c.fnInModule(callee) && callee.Pkg != nil && callee.Pkg == fn.Pkg
	}
	cfg := TraceConfig{MayPanic: isStep, Inline: inl, NoHavoc: noHavoc}
	traces, complete := c.Trace(fn, cfg)
	if !complete {
		c.undecided("C18.paths", cons, fn.Pos(), "path budget exceeded")
		return
	}
	gormCall := func(e *Event, m string) bool {
		return e.Kind == EvCall && e.callName() == "(*gorm.io/gorm.DB)."+m
	}
	okBegin, okFinish, okResult, okStop := true, true, true, true
	n := 0
	for _, t := range traces {
		if t.End == EndCut {
			// a path cut at the loop head has not finished; its prefix is covered by the completed paths
			continue
		}
		n++
		facts := t.factsBefore(len(t.Events))
		var begins, commits, rollbacks, steps, panics []int
		for i, e := range t.Events {
			switch {
			case gormCall(e, "Begin"):
				begins = append(begins, i)
			case gormCall(e, "Commit"):
				commits = append(commits, i)
			case gormCall(e, "Rollback"):
				rollbacks = append(rollbacks, i)
			case isStep(e):
				steps = append(steps, i)
			case e.Kind == EvPanic:
				panics = append(panics, i)
			}
		}
		fail := func(ok *bool, rule string, i int, msg string) {
			if *ok {
				*ok = false
				if i < 0 {
					i = len(t.Events) - 1
				}
				c.violated(rule, cons, t.Events[i].Pos, msg, c.witness(t, i)...)
			}
		}
		// a step is run by Transact itself, inside its own begin / recover / finish protocol — never handed to
		// another function (a library helper neither recovers the step's panic into an error nor finishes once)
		for i, e := range t.Events {
			if e.Kind != EvCall || isStep(e) {
				continue
			}
			for _, a := range e.Args {
				if a.Kind == KInit && a.Args[0].Kind == KIndexAddr && a.Args[0].Args[0].Key() == t.Params[1].Key() {
					fail(&okBegin, "C18.begin", i, "a step is handed to "+e.callName()+" instead of being run inside Transact's own transaction: on that path a panicking step escapes without an error value, and the transaction is finished by rules other than Transact's (e.g. rolled back after a failed commit)")
				}
			}
		}
		if t.End == EndPanic {
			fail(&okFinish, "C18.finish-once", -1, "a panic in a step escapes Transact: the caller gets no error value and, unless the rollback ran, the transaction stays open")
		}
		// (1) begin
		// len(steps) found zero / positive, in any spelling (== 0, <= 0, < 1; != 0, > 0, >= 1)
		lenSteps := &Sym{Kind: KOp, Name: "len", Args: []*Sym{t.Params[1]}}
		someSteps, noSteps := factsSign(facts, lf(lenSteps))
		if noSteps && someSteps {
			n--
			continue // infeasible: len != 0 and len <= 0
		}
		if noSteps && len(begins) > 0 {
			fail(&okBegin, "C18.begin", begins[0], "a transaction is begun although there are no steps")
		}
		if !noSteps && len(begins) == 0 && (len(steps) > 0 || len(commits) > 0) {
			fail(&okBegin, "C18.begin", -1, "steps run without a transaction having been begun")
		}
		if len(begins) > 1 {
			fail(&okBegin, "C18.begin", begins[1], "more than one transaction is begun")
		}
		if len(begins) == 0 {
			if len(steps)+len(commits)+len(rollbacks) > 0 {
				fail(&okBegin, "C18.begin", -1, "steps/commit/rollback without begin")
			}
			if noSteps && t.End == EndReturn && !t.Ret[0].isNilConst() {
				fail(&okResult, "C18.result", -1, "with no steps Transact must return nil")
			}
			continue
		}
		// begin failed?
		beginErrNonNil := false
		b := t.Events[begins[0]]
		for _, f := range facts {
			if f.Op == token.NEQ && f.Y.isNilConst() && f.X.Kind == KInit && f.X.Args[0].Kind == KFieldAddr && f.X.Args[0].Field.Name() == "Error" && f.X.Args[0].Args[0].Key() == b.Res.Key() {
				beginErrNonNil = true
			}
		}
		beginErrNil := false
		for _, f := range facts {
			if f.Op == token.EQL && f.Y.isNilConst() && f.X.Kind == KInit && f.X.Args[0].Kind == KFieldAddr && f.X.Args[0].Field.Name() == "Error" && f.X.Args[0].Args[0].Key() == b.Res.Key() {
				beginErrNil = true
			}
		}
		if !beginErrNonNil && !beginErrNil && len(steps)+len(commits) > 0 {
			fail(&okBegin, "C18.begin", begins[0], "steps run (or the transaction is committed) without the begin error having been examined: a failure to begin must run no step")
		}
		if beginErrNonNil {
			if len(steps)+len(commits)+len(rollbacks) > 0 {
				fail(&okBegin, "C18.begin", -1, "after a failed begin a step, commit or rollback still runs")
			}
			if t.End == EndReturn && t.Ret[0].isNilConst() {
				fail(&okResult, "C18.result", -1, "a failed begin is reported as success")
			}
			continue
		}
		// (2) exactly one finish
		if len(commits)+len(rollbacks) != 1 {
			fail(&okFinish, "C18.finish-once", -1, fmt.Sprintf("the transaction is finished %d times on this path (commit=%d rollback=%d): it must be committed or rolled back exactly once on every exit, including panics", len(commits)+len(rollbacks), len(commits), len(rollbacks)))
			continue
		}
		// outcome of the steps
		anyFailed, allOK := false, true
		for _, si := range steps {
			r := t.Events[si].Res
			switch {
			case hasFact(facts, func(f Fact) bool { return f.X.Key() == r.Key() && f.Op == token.NEQ && f.Y.isNilConst() }):
				anyFailed = true
				allOK = false
			case hasFact(facts, func(f Fact) bool { return f.X.Key() == r.Key() && f.Op == token.EQL && f.Y.isNilConst() }):
			default:
				// the step panicked (no result observed) or its result was never tested
				allOK = false
			}
		}
		panicked := len(panics) > 0
		if len(commits) == 1 {
			if panicked || anyFailed || !allOK {
				why := "a step failed"
				if panicked {
					why = "a step panicked"
				} else if !anyFailed {
					why = "a step's result was not tested"
				}
				fail(&okFinish, "C18.finish-once", commits[0], "the transaction is committed although "+why+": partial work becomes durable")
			}
			// deferred commit must be after all steps
			for _, si := range steps {
				if si > commits[0] {
					fail(&okStop, "C18.stop-at-failure", si, "a step runs after the commit")
				}
			}
			if t.End == EndReturn {
				r := t.Ret[0]
				ce := t.Events[commits[0]]
				good := r.Kind == KInit && r.Args[0].Kind == KFieldAddr && r.Args[0].Field.Name() == "Error" && r.Args[0].Args[0].Key() == ce.Res.Key()
				if !good {
					fail(&okResult, "C18.result", commits[0], "on the commit path the caller does not get the commit's own error ("+c.short(r.Key())+"): a failed commit is reported as success")
				}
			}
		} else {
			if !panicked && !anyFailed {
				fail(&okFinish, "C18.finish-once", rollbacks[0], "the transaction is rolled back although every step succeeded")
			}
			if t.End == EndReturn {
				r := t.Ret[0]
				nonNil := nonNilSym(r) || hasFact(facts, func(f Fact) bool { return f.X.Key() == r.Key() && f.Op == token.NEQ && f.Y.isNilConst() })
				if !nonNil {
					fail(&okResult, "C18.result", rollbacks[0], "a rolled-back transaction is reported with a result that is not known to be non-nil ("+c.short(r.Key())+"): the caller can take it for committed")
				}
				if anyFailed && !panicked {
					// the first failing step's error
					var first *Sym
					for _, si := range steps {
						rr := t.Events[si].Res
						if hasFact(facts, func(f Fact) bool { return f.X.Key() == rr.Key() && f.Op == token.NEQ && f.Y.isNilConst() }) {
							first = rr
							break
						}
					}
					if first != nil && r.Key() != first.Key() {
						fail(&okResult, "C18.result", rollbacks[0], "the error returned is not the first failing step's error")
					}
				}
			}
		}
		// (4) no step after a failure or panic
		failedAt := -1
		for _, si := range steps {
			r := t.Events[si].Res
			if failedAt >= 0 {
				fail(&okStop, "C18.stop-at-failure", si, "a later step runs after an earlier step failed")
				break
			}
			if hasFact(facts, func(f Fact) bool { return f.X.Key() == r.Key() && f.Op == token.NEQ && f.Y.isNilConst() }) {
				failedAt = si
			}
		}
		for _, pi := range panics {
			for _, si := range steps {
				if si > pi {
					fail(&okStop, "C18.stop-at-failure", si, "a step runs after an earlier step panicked")
				}
			}
		}
		// results must be tested before the next step
		for k, si := range steps {
			if k+1 < len(steps) {
				r := t.Events[si].Res
				tested := false
				for _, f := range t.factsBefore(steps[k+1]) {
					if f.X.Key() == r.Key() && f.Y.isNilConst() {
						tested = true
					}
				}
				if !tested {
					fail(&okStop, "C18.stop-at-failure", steps[k+1], "the next step runs before the previous step's error was examined")
				}
			}
		}
	}
	if n == 0 {
		c.undecided("C18.paths", cons, fn.Pos(), "no complete path")
		return
	}
	if okBegin {
		c.holds("C18.begin", cons, fn.Pos(), fmt.Sprintf("%d paths", n))
	}
	if okFinish {
		c.holds("C18.finish-once", cons, fn.Pos(), "exactly one of Commit/Rollback on every exit incl. panics; Commit only when all steps returned nil")
	}
	if okResult {
		c.holds("C18.result", cons, fn.Pos(), "")
	}
	if okStop {
		c.holds("C18.stop-at-failure", cons, fn.Pos(), "")
	}

	// Combine: the returned closure stops at the first failing step and returns its error
	var combFn *ssa.Function
	if comb := c.mustFn(rel, "Combine"); comb != nil {
		if len(comb.AnonFuncs) == 1 {
			combFn = comb.AnonFuncs[0]
		} else {
			// the function Combine returns may also be a method value over the step list (procChain(fns).run)
			ts, _ := c.Trace(comb, TraceConfig{})
			for _, t := range ts {
				if t.End == EndReturn && len(t.Ret) == 1 && t.Ret[0].Kind == KClosure {
					if f, isF := t.Ret[0].Ref.(*ssa.Function); isF {
						combFn = f
					}
				}
			}
		}
	}
	if combFn != nil {
		cl := combFn
		cons := "gormx.Combine"
		ts, complete := c.Trace(cl, TraceConfig{})
		if !complete {
			c.undecided("C18.stop-at-failure", cons, cl.Pos(), "path budget exceeded")
			return
		}
		ok, n := true, 0
		for _, t := range ts {
			if t.End != EndReturn {
				continue
			}
			n++
			facts := t.factsBefore(len(t.Events))
			var steps []int
			for i, e := range t.Events {
				if isStep(e) {
					steps = append(steps, i)
				}
			}
			var firstFail *Sym
			for k, si := range steps {
				r := t.Events[si].Res
				failed := hasFact(facts, func(f Fact) bool { return f.X.Key() == r.Key() && f.Op == token.NEQ && f.Y.isNilConst() })
				if firstFail != nil && ok {
					ok = false
					c.violated("C18.stop-at-failure", cons, t.Events[si].Pos, "Combine runs a later step after an earlier one failed", c.witness(t, si)...)
				}
				if failed && firstFail == nil {
					firstFail = r
				}
				if k+1 < len(steps) {
					tested := false
					for _, f := range t.factsBefore(steps[k+1]) {
						if f.X.Key() == r.Key() && f.Y.isNilConst() {
							tested = true
						}
					}
					if !tested && ok {
						ok = false
						c.violated("C18.stop-at-failure", cons, t.Events[steps[k+1]].Pos, "Combine runs the next step before examining the previous step's error", c.witness(t, steps[k+1])...)
					}
				}
			}
			r := t.Ret[0]
			if firstFail != nil && r.Key() != firstFail.Key() && ok {
				ok = false
				c.violated("C18.stop-at-failure", cons, cl.Pos(), "Combine does not return the first failing step's error", c.witness(t, len(t.Events)-1)...)
			}
			if firstFail == nil && !r.isNilConst() {
				// all tested steps succeeded: nil expected (the last step's untested result is also acceptable)
				last := len(steps) > 0 && r.Key() == t.Events[steps[len(steps)-1]].Res.Key()
				if !last && ok {
					ok = false
					c.violated("C18.stop-at-failure", cons, cl.Pos(), "Combine reports an error although every step succeeded", c.witness(t, len(t.Events)-1)...)
				}
			}
		}
		if ok && n > 0 {
			c.holds("C18.stop-at-failure", cons, cl.Pos(), fmt.Sprintf("%d paths", n))
		}
	} else {
		c.undecided("C18.stop-at-failure", "gormx.Combine", 0, "Combine's closure not found")
	}
}
