package main

import (
	"fmt"
	"go/token"
	"go/types"
	"strings"

	"golang.org/x/tools/go/ssa"
)

func init() {
	register(&Property{
		ID:       "C14",
		Patterns: []string{"./syncx/pipe", "./syncx/pipe/line", "./syncx/pipe/mline", "./syncx/pipe/async"},
		Explanation: "Decides on every path (consumer loops: first + generalised iteration): (1) each lane loop dequeues with the drain-capable PopAnyway, makes at most one call per dequeued item — the item's own function with the item's own context/parameter (and, for the multi-line, the lane's own index) — and publishes exactly one result for it, the call's own result; the loop exits only on a queue error or a foreign item; " +
			"(2) results are routed per call: the result channel is created with constant capacity >= 1 (the lane never blocks on an abandoned caller) or, for the four async contexts, result/err are stored before the deferred close(wait) and read by r() only after <-wait; ctx.Err() is returned only from the ctx.Done branch; AsyncCall waits on exactly the object it enqueued and returns the converted enqueue error without waiting; " +
			"(3) Stop closes the queue(s)/stop channel only inside sync.Once; (4) NormalizeSlotIndex(i,n) lies in [0,n) for every int i (n>=1), the multi-line sizes qs, bounds its start/stop loops and indexes with that value; " +
			"(5) one consumer goroutine per lane, WaitGroup.Add total equals the number of loops and each loop defers Done. " +
			"NOT decided: that calls on a lane never overlap and start in acceptance order under every schedule (follows informally from one consumer per FIFO lane, C12), the stop/accept race of ProcChan's select, double Run of the multi-line (no once guard).",
		Assumptions: []string{"slotSize >= 1", "queue contracts of C12"},
		Floors:      map[string]int{"C14.consumer-loop": 4, "C14.result-channel": 2, "C14.async-run": 4, "C14.async-r": 4, "C14.call-wait": 5, "C14.stop-once": 4, "C14.lane-range": 1, "C14.lane-index": 3, "C14.goroutines": 4},
		Run:         runC14,
	})
}

func isQueueRecv(f *ssa.Function) bool {
	switch recvNamedName(f) {
	case "Q", "MQ":
		return true
	}
	return false
}

func (c *Ctx) laneInline() func(callee *ssa.Function, depth int) bool {
	return func(callee *ssa.Function, depth int) bool {
		if depth > 6 || !c.fnInModule(callee) || isQueueRecv(callee) {
			return false
		}
		if callee.Pkg != nil && strings.HasSuffix(callee.Pkg.Pkg.Path(), "/ulog") {
			return false
		}
		return true
	}
}

func runC14(c *Ctx) {
	c.checkNormalizeSlot()
	c.checkLaneLoop("syncx/pipe/line", "Line", false)
	c.checkLaneLoop("syncx/pipe/mline", "MultiLine", true)
	c.checkResultChan("syncx/pipe/line")
	c.checkResultChan("syncx/pipe/mline")
	for _, t := range []string{"callCtxT", "delegateCtxT", "procCtxT", "procChanCtxT"} {
		c.checkAsyncCtx(t)
	}
	c.checkRunnerLoop()
	c.checkCallWait()
	c.checkStopOnce()
	c.checkMultiLineIndex()
	c.checkGoroutines()
}

// ---------------------------------------------------------------------------------------------
// (4) NormalizeSlotIndex

func (c *Ctx) checkNormalizeSlot() {
	fn := c.mustFn("syncx/pipe", "NormalizeSlotIndex")
	if fn == nil {
		return
	}
	cons := "pipe.NormalizeSlotIndex"
	traces, complete := c.Trace(fn, TraceConfig{})
	if !complete {
		c.undecided("C14.lane-range", cons, fn.Pos(), "path budget exceeded")
		return
	}
	_, maxInt, _ := typeRange(types.Typ[types.Int], c.GOARCH)
	ok, n := true, 0
	for _, t := range traces {
		if t.End != EndReturn || len(t.Ret) != 1 {
			continue
		}
		n++
		r := c.newRanger(t, len(t.Events))
		r.Assume[t.Params[1].Key()] = Itv{lo: bi(1), hi: maxInt}
		v := r.Eval(t.Ret[0])
		in, why := r.inRange0(v, t.Params[1])
		if !in && ok {
			ok = false
			c.violated("C14.lane-range", cons, fn.Pos(), fmt.Sprintf("the lane index is not in [0, slotSize) for every int: %s (returned expression %s; e.g. index = math.MinInt: -index overflows and stays negative, so index %% slotSize can be negative)", why, c.short(t.Ret[0].Key())), c.witness(t, len(t.Events)-1)...)
		}
	}
	if n == 0 {
		c.undecided("C14.lane-range", cons, fn.Pos(), "no returning path")
	} else if ok {
		c.holds("C14.lane-range", cons, fn.Pos(), fmt.Sprintf("%d paths: result in [0, slotSize) for every int index", n))
	}
}

// ---------------------------------------------------------------------------------------------
// (1) consumer loops of line / mline

func (c *Ctx) checkLaneLoop(rel, typ string, multi bool) {
	fn := c.mustFn(rel, "(*"+typ+").popLoop")
	if fn == nil {
		return
	}
	cons := "(*" + rel + "." + typ + ").popLoop"
	callF := c.mustField(rel, "AsyncCtx", "call")
	ctxF := c.mustField(rel, "AsyncCtx", "ctx")
	paramF := c.mustField(rel, "AsyncCtx", "param")
	rChan := c.mustField(rel, "AsyncCtx", "rChan")
	if callF == nil || ctxF == nil || paramF == nil || rChan == nil {
		return
	}
	traces, complete := c.Trace(fn, TraceConfig{Inline: c.laneInline()})
	if !complete {
		c.undecided("C14.consumer-loop", cons, fn.Pos(), "path budget exceeded")
		return
	}
	ok := true
	fail := func(t *Trace, i int, msg string) {
		if ok {
			ok = false
			c.violated("C14.consumer-loop", cons, t.Events[i].Pos, msg, c.witness(t, i)...)
		}
	}
	iters := 0
	for _, t := range traces {
		// split into iterations at dequeue calls
		var deq []int
		for i, e := range t.Events {
			if e.Kind == EvCall && e.Method != nil && (e.Method.Name() == "PopAnyway" || e.Method.Name() == "Pop") && len(e.Args) == 1 {
				deq = append(deq, i)
				if e.Method.Name() != "PopAnyway" {
					fail(t, i, "the lane dequeues with Pop: after Stop the calls that were already accepted are dropped instead of completed (PopAnyway drains)")
				}
			}
		}
		for k, di := range deq {
			end := len(t.Events)
			if k+1 < len(deq) {
				end = deq[k+1]
			}
			complete := k+1 < len(deq) || t.End == EndReturn || t.End == EndCut
			if !complete {
				continue
			}
			iters++
			d := t.Events[di]
			item, derr := d.Res.Args[0], d.Res.Args[1]
			facts := t.factsBefore(end)
			errNil := hasFact(facts, func(f Fact) bool { return f.X.Key() == derr.Key() && f.Op == token.EQL && f.Y.isNilConst() })
			var calls, sends []int
			returned := false
			for j := di + 1; j < end; j++ {
				e := t.Events[j]
				if e.Kind == EvCall && e.Val != nil {
					if _, isCall := isInitOfField(e.Val, callF); isCall {
						calls = append(calls, j)
					}
				}
				if e.Kind == EvSend || (e.Kind == EvSelect && e.Val != nil) {
					sends = append(sends, j)
				}
				if e.Kind == EvReturn {
					returned = true
				}
			}
			if !errNil {
				// queue error: the loop must leave without calling anything
				if len(calls) > 0 || len(sends) > 0 {
					fail(t, di, "after a failed dequeue the loop still runs a call or publishes a result")
				}
				continue
			}
			if len(calls) > 1 {
				fail(t, calls[1], "more than one call is made for one dequeued item: an accepted call runs twice")
				continue
			}
			if len(calls) == 0 {
				if len(sends) > 0 {
					fail(t, sends[0], "a result is published for an item whose function was not called")
				}
				if !returned && t.End == EndReturn {
					continue
				}
				// the only legitimate way to skip the call is a foreign item (type assertion failed) followed by exit
				if !returned {
					fail(t, di, "a dequeued item is skipped (no call, no result) and the loop continues: its caller waits forever")
				}
				continue
			}
			ce := t.Events[calls[0]]
			// the callee, ctx and param all come from the dequeued item
			acBase, _ := isInitOfField(ce.Val, callF)
			isItem := acBase != nil && acBase.Kind == KOp && acBase.Name == "typeassert" && acBase.Args[0].Key() == item.Key()
			if !isItem {
				fail(t, calls[0], "the function called does not belong to the dequeued item")
				continue
			}
			wantArgs := 2
			if multi {
				wantArgs = 3
			}
			argsOK := len(ce.Args) == wantArgs
			if argsOK {
				b0, ok0 := isInitOfField(ce.Args[0], ctxF)
				b1, ok1 := isInitOfField(ce.Args[wantArgs-1], paramF)
				argsOK = ok0 && ok1 && b0.Key() == acBase.Key() && b1.Key() == acBase.Key()
				if multi && argsOK {
					argsOK = ce.Args[1].Key() == t.Params[1].Key()
				}
			}
			if !argsOK {
				fail(t, calls[0], "the call is not made with the item's own context and parameter"+map[bool]string{true: " and the lane's own index", false: ""}[multi])
				continue
			}
			if len(sends) != 1 {
				fail(t, calls[0], fmt.Sprintf("%d results are published for one call on this path (exactly one is required: none leaves the caller waiting, two block the lane forever on the 1-buffered channel)", len(sends)))
				continue
			}
			se := t.Events[sends[0]]
			if sends[0] < calls[0] {
				fail(t, sends[0], "the result is published before the call is made")
				continue
			}
			chBase, isCh := isInitOfField(se.Addr, rChan)
			if !isCh || chBase.Key() != acBase.Key() {
				fail(t, sends[0], "the result is not sent on the dequeued item's own result channel: another caller receives it")
				continue
			}
			// value: struct(r, err) consistent with the call's results
			rv, ev := ce.Res.Args[0], ce.Res.Args[1]
			v := se.Val
			good := v.Kind == KStruct && len(v.Args) == 2
			if good {
				callFailed := hasFact(facts, func(f Fact) bool { return f.X.Key() == ev.Key() && f.Op == token.NEQ && f.Y.isNilConst() })
				if callFailed {
					good = v.Args[1].Key() == ev.Key()
				} else {
					good = v.Args[0].Key() == rv.Key() && (v.Args[1].isNilConst() || v.Args[1].Key() == ev.Key())
				}
			}
			if !good {
				fail(t, sends[0], "the published result is not the result of this item's call: "+c.short(v.Key()))
			}
		}
		// exits: every return must follow a failed dequeue or a failed type assertion
		if t.End == EndReturn && len(deq) > 0 {
			di := deq[len(deq)-1]
			d := t.Events[di]
			facts := t.factsBefore(len(t.Events))
			derr := d.Res.Args[1]
			errNonNil := hasFact(facts, func(f Fact) bool { return f.X.Key() == derr.Key() && f.Op == token.NEQ && f.Y.isNilConst() })
			foreign := hasFact(facts, func(f Fact) bool {
				b, isb := f.Y.boolConst()
				return f.Op == token.EQL && isb && !b && f.X.Kind == KOp && f.X.Name == "typeassertok"
			})
			if !errNonNil && !foreign {
				fail(t, len(t.Events)-1, "the lane goroutine exits although the dequeue succeeded and the item was a call: later calls on this lane are never executed")
			}
		}
	}
	if iters == 0 {
		c.undecided("C14.consumer-loop", cons, fn.Pos(), "no loop iteration found")
	} else if ok {
		c.holds("C14.consumer-loop", cons, fn.Pos(), fmt.Sprintf("%d iterations over %d paths: PopAnyway, one call with the item's own data, exactly one result on the item's channel", iters, len(traces)))
	}
}

// (2a) result channel capacity + R()
func (c *Ctx) checkResultChan(rel string) {
	rChan := c.mustField(rel, "AsyncCtx", "rChan")
	ctxF := c.mustField(rel, "AsyncCtx", "ctx")
	fn := c.mustFn(rel, "newAsyncCtx")
	if rChan == nil || fn == nil || ctxF == nil {
		return
	}
	cons := rel + ".newAsyncCtx"
	traces, _ := c.Trace(fn, TraceConfig{})
	ok, found := true, false
	for _, t := range traces {
		for _, e := range t.Events {
			if e.Kind == EvStore && e.Addr.isFieldAddrOf(rChan) {
				found = true
				good := false
				if e.Val.Kind == KAlloc && len(e.Val.Args) == 1 {
					if n, isC := e.Val.Args[0].intConst(); isC && n >= 1 {
						good = true
					}
				}
				if !good {
					ok = false
				}
			}
		}
	}
	c.check(ok && found, "C14.result-channel", cons, fn.Pos(), "make(chan AsyncR, const >= 1)", "the per-call result channel is not created with a constant capacity >= 1: when the caller gave up (context ended) the lane goroutine blocks forever on the send and every later call on the lane starves")
	// R(): ctx.Err() only in the ctx.Done case; value/err of the received result otherwise
	if rf := c.mustFn(rel, "(*AsyncCtx).R"); rf != nil {
		traces, _ := c.Trace(rf, TraceConfig{})
		good, n := true, 0
		for _, t := range traces {
			if t.End != EndReturn || len(t.Ret) != 2 {
				continue
			}
			n++
			var sel *Event
			for _, e := range t.Events {
				if e.Kind == EvSelect {
					sel = e
				}
			}
			if sel == nil || sel.Addr == nil {
				good = false
				continue
			}
			if _, isR := isInitOfField(sel.Addr, rChan); isR {
				// result case: returns the fields of the received struct
				tup := t.Ret
				if !(tup[0].Kind == KField && tup[1].Kind == KField && tup[0].Args[0].Key() == tup[1].Args[0].Key() && tup[0].Args[0].Kind == KFresh) {
					good = false
					c.violated("C14.result-channel", "(*"+rel+".AsyncCtx).R", rf.Pos(), "R() does not return the received result's value and error", c.witness(t, len(t.Events)-1)...)
				}
			} else {
				// ctx.Done case: (nil, ctx.Err())
				isErr := false
				for _, e := range t.Events {
					if e.Kind == EvCall && e.callName() == "(context.Context).Err" && e.Res.Key() == t.Ret[1].Key() {
						isErr = true
					}
				}
				if !isErr {
					good = false
					c.violated("C14.result-channel", "(*"+rel+".AsyncCtx).R", rf.Pos(), "on the context branch R() does not return the context's error", c.witness(t, len(t.Events)-1)...)
				}
			}
		}
		if good && n >= 2 {
			c.holds("C14.result-channel", "(*"+rel+".AsyncCtx).R", rf.Pos(), "own result from the own channel, or the own context's error")
		} else if n < 2 {
			c.undecided("C14.result-channel", "(*"+rel+".AsyncCtx).R", rf.Pos(), "expected a select over ctx.Done and the result channel")
		}
	}
}

// (2b) the four async contexts: run() and r()
func (c *Ctx) checkAsyncCtx(typ string) {
	const rel = "syncx/pipe/async"
	wait := c.mustField(rel, typ, "wait")
	result := c.mustField(rel, typ, "result")
	errF := c.mustField(rel, typ, "err")
	ctxF := c.mustField(rel, typ, "ctx")
	run := c.mustFn(rel, "(*"+typ+").run")
	rfn := c.mustFn(rel, "(*"+typ+").r")
	if wait == nil || result == nil || errF == nil || run == nil || rfn == nil || ctxF == nil {
		return
	}
	consRun := "(*async." + typ + ").run"
	mayPanic := func(e *Event) bool {
		// the user-supplied function may panic
		if e.Val != nil {
			return true
		}
		if e.Method != nil && (e.Method.Name() == "Do" || e.Method.Name() == "Call") {
			return true
		}
		return false
	}
	traces, complete := c.Trace(run, TraceConfig{MayPanic: mayPanic})
	if !complete {
		c.undecided("C14.async-run", consRun, run.Pos(), "path budget exceeded")
	} else {
		ok := true
		for _, t := range traces {
			closes, userCalls := 0, 0
			closeIdx := -1
			for i, e := range t.Events {
				if e.Kind == EvClose {
					if _, isW := isInitOfField(e.Addr, wait); isW {
						closes++
						closeIdx = i
					}
				}
				if e.Kind == EvCall && mayPanic(e) && !strings.HasPrefix(e.callName(), "(context.Context)") && !strings.HasPrefix(e.callName(), "reflect.ValueOf") {
					if e.Val != nil || e.Method.Name() == "Do" || e.callName() == "(reflect.Value).Call" {
						userCalls++
					}
				}
			}
			if closes != 1 {
				if ok {
					ok = false
					c.violated("C14.async-run", consRun, run.Pos(), fmt.Sprintf("close(wait) happens %d times on a path (also counting the panic exit): the caller is never released or the lane panics on a double close", closes), c.witness(t, len(t.Events)-1)...)
				}
				continue
			}
			for i := closeIdx + 1; i < len(t.Events); i++ {
				e := t.Events[i]
				if e.Kind == EvStore && (e.Addr.isFieldAddrOf(result) || e.Addr.isFieldAddrOf(errF)) && ok {
					ok = false
					c.violated("C14.async-run", consRun, e.Pos, "result/err is written after close(wait): the caller can read a result that is not yet (or never) the call's own", c.witness(t, i)...)
				}
			}
			if userCalls > 1 && ok {
				ok = false
				c.violated("C14.async-run", consRun, run.Pos(), "the user function is invoked more than once for one accepted call", c.witness(t, len(t.Events)-1)...)
			}
			// ctx already done: no call
			ctxDone := false
			for i, e := range t.Events {
				if e.Kind == EvSelect && e.Case >= 0 {
					ctxDone = true
					_ = i
				}
			}
			if ctxDone && userCalls > 0 && ok {
				ok = false
				c.violated("C14.async-run", consRun, run.Pos(), "the call is executed although its context was found done", c.witness(t, len(t.Events)-1)...)
			}
			if ctxDone && userCalls == 0 && t.End == EndReturn && ok {
				// a skipped call is finished with an error: r() chooses at random between ctx.Done and wait when both
				// are ready, and the wait branch hands out (result, err) as stored here
				errSet := false
				for i := 0; i < closeIdx || (closeIdx >= 0 && t.Events[closeIdx].Deferred && i < len(t.Events)); i++ {
					e := t.Events[i]
					if e.Kind == EvStore && e.Addr.isFieldAddrOf(errF) && !e.Val.isNilConst() {
						errSet = true
					}
				}
				if !errSet {
					ok = false
					c.violated("C14.async-run", consRun, run.Pos(), "a call that is skipped because its context is already done is marked finished without an error being stored: when the caller's select takes the wait branch it receives (nil, nil), i.e. success for a call that never ran", c.witness(t, len(t.Events)-1)...)
				}
			}
			if !ctxDone && userCalls == 0 && t.End == EndReturn && ok {
				ok = false
				c.violated("C14.async-run", consRun, run.Pos(), "an accepted call whose context is alive completes without being executed", c.witness(t, len(t.Events)-1)...)
			}
			// result stored = call's result
			if !ctxDone && userCalls == 1 && t.End == EndReturn {
				stored := false
				for _, e := range t.Events {
					if e.Kind == EvStore && e.Addr.isFieldAddrOf(result) {
						stored = true
					}
				}
				if !stored && ok {
					ok = false
					c.violated("C14.async-run", consRun, run.Pos(), "the call's result is not stored for the caller", c.witness(t, len(t.Events)-1)...)
				}
			}
		}
		if ok {
			c.holds("C14.async-run", consRun, run.Pos(), fmt.Sprintf("%d paths incl. panic exits: one call, result/err stored before the single close(wait)", len(traces)))
		}
	}
	// r(): result/err are read only after <-wait; ctx.Err only on the ctx.Done case
	consR := "(*async." + typ + ").r"
	traces, complete = c.Trace(rfn, TraceConfig{})
	if !complete {
		c.undecided("C14.async-r", consR, rfn.Pos(), "path budget exceeded")
		return
	}
	ok, n := true, 0
	for _, t := range traces {
		if t.End != EndReturn {
			continue
		}
		n++
		waited := false
		for i, e := range t.Events {
			if e.Kind == EvSelect && e.Addr != nil {
				if _, isW := isInitOfField(e.Addr, wait); isW {
					waited = true
				}
			}
			if e.Kind == EvRecv {
				if _, isW := isInitOfField(e.Addr, wait); isW {
					waited = true
				}
			}
			if e.Kind == EvLoad && (e.Addr.isFieldAddrOf(result) || e.Addr.isFieldAddrOf(errF)) && !waited && ok {
				ok = false
				c.violated("C14.async-r", consR, e.Pos, "result/err is read before (or without) receiving from wait: the caller can observe a half-written result", c.witness(t, i)...)
			}
		}
		// the only other way out is the caller's own context: a case on any other channel (a runner's stop channel)
		// races with <-wait once the lane has finished its backlog, so a call that was accepted and executed is
		// reported as failed at random. (ProcChan's own context type has had its stop case from the start: the
		// stop/accept race of ProcChan is not part of what is decided.)
		if !waited && typ != "procChanCtxT" {
			for i, e := range t.Events {
				if e.Kind != EvSelect || e.Addr == nil || e.Case < 0 {
					continue
				}
				isDone := false
				for _, y := range t.Events[:i] {
					if y.Kind == EvCall && y.Res != nil && y.Res.Key() == e.Addr.Key() && y.Method != nil && y.Method.Name() == "Done" {
						isDone = true
					}
				}
				if !isDone && ok {
					ok = false
					c.violated("C14.async-r", consR, e.Pos, "r() also gives up on a channel that is neither the call's wait channel nor its context ("+c.short(e.Addr.Key())+"): when that channel and wait are both ready the caller may get an error for a call that was accepted and executed", c.witness(t, i)...)
				}
			}
		}
		if waited {
			good := len(t.Ret) == 2
			if good {
				_, g1 := isInitOfField(t.Ret[0], result)
				_, g2 := isInitOfField(t.Ret[1], errF)
				good = g1 && g2
			}
			if !good && ok {
				ok = false
				c.violated("C14.async-r", consR, rfn.Pos(), "after <-wait r() does not return the stored result and error", c.witness(t, len(t.Events)-1)...)
			}
		}
	}
	if ok && n > 0 {
		c.holds("C14.async-r", consR, rfn.Pos(), fmt.Sprintf("%d paths", n))
	}
}

// RunnerQ.popLoop / ProcChan.popLoop: one run() per item
func (c *Ctx) checkRunnerLoop() {
	const rel = "syncx/pipe/async"
	for _, typ := range []string{"RunnerQ", "ProcChan"} {
		fn := c.mustFn(rel, "(*"+typ+").popLoop")
		if fn == nil {
			continue
		}
		cons := "(*async." + typ + ").popLoop"
		inl := func(callee *ssa.Function, depth int) bool {
			return c.laneInline()(callee, depth) && callee.Name() != "run"
		}
		traces, complete := c.Trace(fn, TraceConfig{Inline: inl})
		if !complete {
			c.undecided("C14.consumer-loop", cons, fn.Pos(), "path budget exceeded")
			continue
		}
		ok, iters := true, 0
		for _, t := range traces {
			// iteration starts: PopAnyway call or select
			var starts []int
			for i, e := range t.Events {
				if e.Kind == EvCall && e.Method != nil && (e.Method.Name() == "PopAnyway" || e.Method.Name() == "Pop") {
					starts = append(starts, i)
					if e.Method.Name() == "Pop" && ok {
						ok = false
						c.violated("C14.consumer-loop", cons, e.Pos, "the runner dequeues with Pop: calls accepted before Stop are dropped", c.witness(t, i)...)
					}
				}
				if e.Kind == EvSelect {
					if sel, isSel := e.Instr.(*ssa.Select); isSel && sel.Blocking {
						starts = append(starts, i)
					}
				}
			}
			for k, si := range starts {
				end := len(t.Events)
				if k+1 < len(starts) {
					end = starts[k+1]
				}
				if !(k+1 < len(starts) || t.End == EndReturn || t.End == EndCut) {
					continue
				}
				iters++
				runs := 0
				phiRun := false
				var item *Sym
				s := t.Events[si]
				if s.Kind == EvCall {
					item = s.Res.Args[0]
				}
				for j := si + 1; j < end; j++ {
					e := t.Events[j]
					if (e.Kind == EvCall || e.Kind == EvEnter) && e.Method != nil && e.Method.Name() == "run" {
						runs++
						if producerPhi(e.Args[0], 0) != "" {
							phiRun = true
						}
						if item != nil {
							recv := e.Args[0]
							// (in `for cc, ok := next(); ok; cc, ok = next()` the loop variable holds what the one producer
							// returned last; the first, concrete iteration shows that this is the dequeued item)
							if !(recv.Kind == KOp && recv.Name == "typeassert" && recv.Args[0].Key() == item.Key()) && producerPhi(recv, 0) == "" && ok {
								ok = false
								c.violated("C14.consumer-loop", cons, e.Pos, "run() is not invoked on the dequeued item", c.witness(t, j)...)
							}
						}
					}
				}
				if runs > 1 && ok {
					ok = false
					c.violated("C14.consumer-loop", cons, s.Pos, "an item is run more than once", c.witness(t, end-1)...)
				}
				got := false
				facts := t.factsBefore(end)
				if s.Kind == EvCall {
					derr := s.Res.Args[1]
					got = hasFact(facts, func(f Fact) bool { return f.X.Key() == derr.Key() && f.Op == token.EQL && f.Y.isNilConst() }) &&
						!hasFact(facts, func(f Fact) bool {
							b, isb := f.Y.boolConst()
							return f.Op == token.EQL && isb && !b && f.X.Kind == KOp && f.X.Name == "typeassertok"
						})
				} else {
					// select: case receiving from the work channel
					sel := s.Instr.(*ssa.Select)
					got = s.Case >= 0 && sel.States[s.Case].Dir == types.RecvOnly && s.Addr != nil && strings.Contains(s.Addr.Key(), ".ch")
				}
				for j := si + 1; j < end && !phiRun; j++ {
					if t.Events[j].Kind != EvLoopGen {
						continue
					}
					// the dequeue sits before the loop was generalised and its results reach the test only through
					// loop-carried variables: what follows is the abstract next iteration
					for m := j + 1; m < end; m++ {
						if b := t.Events[m]; b.Kind == EvBranch {
							b.Cond.walk(func(x *Sym) {
								if producerPhi(x, 0) != "" || producerPhi(x, 1) != "" {
									phiRun = true
								}
							})
						}
					}
				}
				if !phiRun && t.End == EndCut && end == len(t.Events) {
					// a dequeue at the end of the loop body (for-clause post statement), cut at the loop head: its item is
					// consumed by the next iteration, which is not on this path
					for _, b := range t.Events {
						if b.Kind == EvBranch {
							b.Cond.walk(func(x *Sym) {
								if producerPhi(x, 0) != "" || producerPhi(x, 1) != "" {
									phiRun = true
								}
							})
						}
					}
				}
				if phiRun {
					// the generalised iteration of a `for cc, ok := next(); ok; cc, ok = next()` loop: the pairing of
					// the flag with the item is what the producer returned, judged in the concrete first iteration
					continue
				}
				if got && runs == 0 && ok {
					ok = false
					c.violated("C14.consumer-loop", cons, s.Pos, "a dequeued call is not run: its caller waits forever", c.witness(t, end-1)...)
				}
				if !got && runs > 0 && ok {
					ok = false
					c.violated("C14.consumer-loop", cons, s.Pos, "run() without a successfully dequeued item", c.witness(t, end-1)...)
				}
			}
		}
		if iters == 0 {
			c.undecided("C14.consumer-loop", cons, fn.Pos(), "no loop iteration found")
		} else if ok {
			c.holds("C14.consumer-loop", cons, fn.Pos(), fmt.Sprintf("%d iterations: one run() per dequeued item", iters))
		}
	}
}

// (2c) AsyncCall & co wait on the object they enqueued; enqueue errors are returned without waiting
func (c *Ctx) checkCallWait() {
	type ent struct{ rel, typ, m string }
	for _, en := range []ent{
		{"syncx/pipe/line", "Line", "AsyncCall"}, {"syncx/pipe/mline", "MultiLine", "AsyncCall"},
		{"syncx/pipe/async", "RunnerQ", "AsyncCall"}, {"syncx/pipe/async", "RunnerQ", "AsyncDelegate"}, {"syncx/pipe/async", "RunnerQ", "AsyncProc"},
		{"syncx/pipe/async", "ProcChan", "AsyncProc"},
	} {
		fn := c.mustFn(en.rel, "(*"+en.typ+")."+en.m)
		if fn == nil {
			continue
		}
		cons := "(*" + en.rel + "." + en.typ + ")." + en.m
		traces, complete := c.Trace(fn, TraceConfig{Inline: c.laneInline()})
		if !complete {
			c.undecided("C14.call-wait", cons, fn.Pos(), "path budget exceeded")
			continue
		}
		ok, n := true, 0
		for _, t := range traces {
			if t.End != EndReturn {
				continue
			}
			n++
			// the enqueued object
			var obj *Sym
			var enqIdx int
			var enqErr *Sym
			for i, e := range t.Events {
				if e.Kind == EvCall && e.Method != nil && (e.Method.Name() == "AddReq" || e.Method.Name() == "Add") && len(e.Args) == 2 {
					obj, enqIdx, enqErr = e.Args[1].strip(), i, e.Res
				}
				if e.Kind == EvSelect && e.Val != nil && e.Case >= 0 { // ProcChan: send on c.ch
					if sel, isSel := e.Instr.(*ssa.Select); isSel && sel.States[e.Case].Dir == types.SendOnly {
						obj, enqIdx = e.Val.strip(), i
					}
				}
			}
			// which object is waited on
			var waited *Sym
			for i := 0; i < len(t.Events); i++ {
				e := t.Events[i]
				if e.Kind == EvSelect && e.Addr != nil && e.Case >= 0 {
					if sel, isSel := e.Instr.(*ssa.Select); isSel && sel.Blocking {
						// any case channel that is a field of an object
						for _, st := range sel.States {
							_ = st
						}
						// collect: loads of fields wait/rChan just before the select
						for j := i - 1; j >= 0 && j > i-12; j-- {
							x := t.Events[j]
							if x.Kind == EvLoad && x.Addr.Kind == KFieldAddr && (x.Addr.Field.Name() == "wait" || x.Addr.Field.Name() == "rChan") {
								waited = outerObject(x.Addr.Args[0])
							}
						}
					}
				}
			}
			if obj == nil {
				// refused before enqueueing (ProcChan full/closed): no wait allowed
				if waited != nil && ok {
					ok = false
					c.violated("C14.call-wait", cons, fn.Pos(), "the caller waits although nothing was enqueued", c.witness(t, len(t.Events)-1)...)
				}
				continue
			}
			if waited != nil && waited.Key() != obj.Key() && ok {
				ok = false
				c.violated("C14.call-wait", cons, fn.Pos(), "the caller waits on an object other than the one it enqueued: it receives another call's result or none", c.witness(t, len(t.Events)-1)...)
			}
			if enqErr != nil {
				facts := t.factsBefore(len(t.Events))
				failed := hasFact(facts, func(f Fact) bool { return f.X.Key() == enqErr.Key() && f.Op == token.NEQ && f.Y.isNilConst() })
				if failed && waited != nil && ok {
					ok = false
					c.violated("C14.call-wait", cons, fn.Pos(), "the enqueue failed but the caller still waits for a result that will never come", c.witness(t, len(t.Events)-1)...)
				}
				if failed && t.Ret[len(t.Ret)-1].isNilConst() && ok {
					ok = false
					c.violated("C14.call-wait", cons, fn.Pos(), "the enqueue error is swallowed: the caller is told the call succeeded", c.witness(t, len(t.Events)-1)...)
				}
			}
			_ = enqIdx
		}
		if n == 0 {
			c.undecided("C14.call-wait", cons, fn.Pos(), "no returning path")
		} else if ok {
			c.holds("C14.call-wait", cons, fn.Pos(), fmt.Sprintf("%d paths", n))
		}
	}
}

// (3) Stop inside Once
func (c *Ctx) checkStopOnce() {
	type ent struct{ rel, typ string }
	for _, en := range []ent{{"syncx/pipe/line", "Line"}, {"syncx/pipe/mline", "MultiLine"}, {"syncx/pipe/async", "RunnerQ"}, {"syncx/pipe/async", "ProcChan"}} {
		fn := c.mustFn(en.rel, "(*"+en.typ+").Stop")
		once := c.mustField(en.rel, en.typ, "stopOnce")
		if fn == nil || once == nil {
			continue
		}
		cons := "(*" + en.rel + "." + en.typ + ").Stop"
		traces, complete := c.Trace(fn, TraceConfig{Inline: c.laneInline()})
		if !complete {
			c.undecided("C14.stop-once", cons, fn.Pos(), "path budget exceeded")
			continue
		}
		ok, found := true, false
		for _, t := range traces {
			onceAt, onceDepth := -1, 0
			for i, e := range t.Events {
				if e.Kind == EvCall && e.callName() == "(*sync.Once).Do" && e.Args[0].isFieldAddrOf(once) {
					onceAt, onceDepth = i, e.Depth
				}
				if e.Kind == EvCall && e.callName() == "(*sync.Once).Do" && !e.Args[0].isFieldAddrOf(once) && ok {
					ok = false
					c.violated("C14.stop-once", cons, e.Pos, "Stop runs a sync.Once other than stopOnce ("+c.short(e.Args[0].Key())+"): if that is the Once that starts the lane, a Stop that gets ahead of Run turns Run into a no-op — calls accepted before Stop stay queued forever while the lane is reported as terminated", c.witness(t, i)...)
				}
				isStopEffect := (e.Kind == EvCall && e.Method != nil && e.Method.Name() == "Close" && len(e.Args) == 1) || e.Kind == EvClose
				if isStopEffect {
					found = true
					if !(onceAt >= 0 && i > onceAt && e.Depth > onceDepth) && ok {
						ok = false
						c.violated("C14.stop-once", cons, e.Pos, "the queue / stop channel is closed outside stopOnce.Do: a second Stop closes twice (panic on a channel) or races with the first", c.witness(t, i)...)
					}
				}
			}
		}
		if !found {
			c.violated("C14.stop-once", cons, fn.Pos(), "Stop closes nothing: the lane goroutines never terminate and calls are accepted forever", "")
		} else if ok {
			c.holds("C14.stop-once", cons, fn.Pos(), "close only inside stopOnce.Do")
		}
	}
}

// (4b) multi-line: qs sized by slotSize, enqueue index = NormalizeSlotIndex(hashIndex, slotSize), Run/stop loops bounded by slotSize
func (c *Ctx) checkMultiLineIndex() {
	const rel = "syncx/pipe/mline"
	qs := c.mustField(rel, "MultiLine", "qs")
	slot := c.mustField(rel, "MultiLine", "slotSize")
	hash := c.mustField(rel, "CallCtx", "hashIndex")
	if qs == nil || slot == nil || hash == nil {
		return
	}
	norm := c.mustFn("syncx/pipe", "NormalizeSlotIndex")
	noNorm := func(callee *ssa.Function, depth int) bool { return c.laneInline()(callee, depth) && callee != norm }
	// constructor
	if fn := c.mustFn(rel, "newMux"); fn != nil {
		traces, _ := c.Trace(fn, TraceConfig{Inline: noNorm})
		ok, n := true, 0
		for _, t := range traces {
			if t.End != EndReturn {
				continue
			}
			var slice, sv *Sym
			for _, e := range t.Events {
				if e.Kind == EvStore && e.Addr.isFieldAddrOf(qs) {
					slice = e.Val
				}
				if e.Kind == EvStore && e.Addr.isFieldAddrOf(slot) {
					sv = e.Val
				}
			}
			n++
			if slice == nil || sv == nil || slice.Kind != KAlloc || len(slice.Args) != 2 || boundKey(slice.Args[0]) != boundKey(sv) {
				ok = false
				c.violated("C14.lane-index", rel+".newMux", fn.Pos(), "the lane slice is not made with length slotSize: a normalised index can fall outside it", c.witness(t, len(t.Events)-1)...)
			}
		}
		if ok && n > 0 {
			c.holds("C14.lane-index", rel+".newMux", fn.Pos(), "len(qs) == slotSize")
		}
	}
	// enqueue
	for _, m := range []string{"addCallCtx", "IndexOf"} {
		fn := c.mustFn(rel, "(*MultiLine)."+m)
		if fn == nil {
			continue
		}
		cons := "(*" + rel + ".MultiLine)." + m
		traces, _ := c.Trace(fn, TraceConfig{Inline: noNorm})
		ok, n := true, 0
		for _, t := range traces {
			if t.End != EndReturn {
				continue
			}
			n++
			var call *Event
			for _, e := range t.Events {
				if e.Kind == EvCall && e.Callee == norm {
					call = e
				}
			}
			if call == nil {
				ok = false
				c.violated("C14.lane-index", cons, fn.Pos(), "the lane is not chosen through NormalizeSlotIndex", c.witness(t, len(t.Events)-1)...)
				continue
			}
			_, isSlot := isInitOfField(call.Args[1], slot)
			good := isSlot
			if m == "addCallCtx" {
				_, isHash := isInitOfField(call.Args[0], hash)
				good = good && isHash
				used := false
				for _, e := range t.Events {
					if e.Kind == EvLoad && e.Addr.Kind == KIndexAddr {
						if _, isQ := isInitOfField(e.Addr.Args[0], qs); isQ {
							used = e.Addr.Args[1].Key() == call.Res.Key()
						}
					}
				}
				good = good && used
			} else {
				good = good && call.Args[0].Key() == t.Params[1].Key() && t.Ret[0].Key() == call.Res.Key()
			}
			if !good {
				ok = false
				c.violated("C14.lane-index", cons, fn.Pos(), "the lane index is not NormalizeSlotIndex(hash, slotSize) applied to qs: equal hashes can land on different lanes or outside the slice", c.witness(t, len(t.Events)-1)...)
			}
		}
		if ok && n > 0 {
			c.holds("C14.lane-index", cons, fn.Pos(), "qs[NormalizeSlotIndex(hashIndex, slotSize)]")
		}
	}
}

// (5) goroutine accounting
func (c *Ctx) checkGoroutines() {
	type ent struct {
		rel, typ string
		multi    bool
	}
	for _, en := range []ent{{"syncx/pipe/line", "Line", false}, {"syncx/pipe/mline", "MultiLine", true}, {"syncx/pipe/async", "RunnerQ", false}, {"syncx/pipe/async", "ProcChan", false}} {
		run := c.mustFn(en.rel, "(*"+en.typ+").Run")
		loop := c.mustFn(en.rel, "(*"+en.typ+").popLoop")
		if run == nil || loop == nil {
			continue
		}
		cons := "(*" + en.rel + "." + en.typ + ").Run"
		traces, complete := c.Trace(run, TraceConfig{Inline: c.laneInline()})
		if !complete {
			c.undecided("C14.goroutines", cons, run.Pos(), "path budget exceeded")
			continue
		}
		ok, sawGo := true, false
		for _, t := range traces {
			gos, adds := 0, 0
			hasWG := false
			for i, e := range t.Events {
				if e.Kind == EvGo {
					tgt := e.Callee
					if tgt != nil && strings.HasSuffix(tgt.Name(), "$bound") {
						// go c.popLoop bound
					}
					if tgt == loop || (tgt != nil && strings.Contains(tgt.Name(), "popLoop")) {
						if !e.Gen {
							gos++
						}
						sawGo = true
						if en.multi {
							// the index passed is the loop variable bounded by slotSize
							idx := e.Args[len(e.Args)-1]
							_ = idx
						}
					}
					_ = i
				}
				if e.Kind == EvCall && e.callName() == "(*sync.WaitGroup).Add" {
					hasWG = true
					if !e.Gen {
						adds++
					}
				}
			}
			if !en.multi && gos > 1 && ok {
				ok = false
				c.violated("C14.goroutines", cons, run.Pos(), "more than one consumer goroutine is started for one lane: calls on the lane overlap", c.witness(t, len(t.Events)-1)...)
			}
			if !en.multi && hasWG && gos != adds && ok {
				ok = false
				c.violated("C14.goroutines", cons, run.Pos(), fmt.Sprintf("WaitGroup.Add is called %d times for %d started loops", adds, gos), c.witness(t, len(t.Events)-1)...)
			}
			if !en.multi {
				// inside startOnce
				onceAt, onceDepth := -1, 0
				for i, e := range t.Events {
					if e.Kind == EvCall && e.callName() == "(*sync.Once).Do" {
						onceAt, onceDepth = i, e.Depth
					}
					if e.Kind == EvGo && !(onceAt >= 0 && i > onceAt && e.Depth > onceDepth) && ok {
						ok = false
						c.violated("C14.goroutines", cons, e.Pos, "the consumer goroutine is started outside startOnce.Do: a second Run starts a second consumer on the same lane (calls overlap)", c.witness(t, i)...)
					}
				}
			}
		}
		if !sawGo {
			c.violated("C14.goroutines", cons, run.Pos(), "Run starts no consumer loop", "")
		} else if ok {
			c.holds("C14.goroutines", cons, run.Pos(), "one consumer per lane, Add matches")
		}
		// Done deferred in the loop
		lt, _ := c.Trace(loop, TraceConfig{Inline: c.laneInline()})
		usesWG := false
		okDone := true
		addInLoop := false
		for _, t := range lt {
			done := 0
			for i, e := range t.Events {
				if e.Kind == EvCall && e.callName() == "(*sync.WaitGroup).Done" {
					done++
					usesWG = true
				}
				if e.Kind == EvCall && e.callName() == "(*sync.WaitGroup).Add" && !addInLoop && len(e.Args) > 0 && e.Args[0].root() != nil && e.Args[0].root().Kind != KAlloc {
					// (a wait group the loop allocates for helpers of its own is its own business)
					addInLoop = true
					c.violated("C14.goroutines", cons, e.Pos, "the consumer loop registers itself with WaitGroup.Add after it has been started: an owner's Wait that runs before the goroutine is scheduled returns while the lane is alive and accepted calls are still queued (Add must precede the go statement)", c.witness(t, i)...)
				}
			}
			if (t.End == EndReturn || t.End == EndPanic) && usesWG && done != 1 {
				okDone = false
			}
		}
		if en.typ == "Line" && usesWG && ok {
			// the loop's deferred Done needs its Add in Run, before the go statement
			for _, t := range traces {
				gos, adds := 0, 0
				for _, e := range t.Events {
					if e.Kind == EvGo && !e.Gen {
						gos++
					}
					if e.Kind == EvCall && e.callName() == "(*sync.WaitGroup).Add" && !e.Gen && gos == 0 {
						adds++
					}
				}
				if gos != adds && ok {
					ok = false
					c.violated("C14.goroutines", cons, run.Pos(), fmt.Sprintf("the loop calls WaitGroup.Done but Run registers %d Add before starting %d loop(s): the counter goes negative or Wait returns early", adds, gos), c.witness(t, len(t.Events)-1)...)
				}
			}
		}
		runHasAdd := false
		for _, t := range traces {
			for _, e := range t.Events {
				if e.Kind == EvCall && e.callName() == "(*sync.WaitGroup).Add" {
					runHasAdd = true
				}
			}
		}
		if usesWG || en.multi || runHasAdd {
			// wg may be nil-guarded (RunnerQ/ProcChan): then paths with wg == nil legitimately skip Done
			if en.typ == "RunnerQ" || en.typ == "ProcChan" {
				okDone = true
				for _, t := range lt {
					if t.End != EndReturn && t.End != EndPanic {
						continue
					}
					done := 0
					nilWG := false
					for _, e := range t.Events {
						if e.Kind == EvCall && e.callName() == "(*sync.WaitGroup).Done" {
							done++
						}
						if e.Kind == EvBranch && e.Cond.Kind == KBin && e.Cond.Args[1].isNilConst() && ((e.Cond.Op == token.NEQ && !e.Taken) || (e.Cond.Op == token.EQL && e.Taken)) {
							nilWG = true
						}
					}
					if !nilWG && done != 1 {
						okDone = false
					}
				}
			}
			c.check(okDone, "C14.goroutines", "(*"+en.rel+"."+en.typ+").popLoop Done", loop.Pos(), "every exit of the loop (incl. panic) calls WaitGroup.Done exactly once", "a loop exit misses (or repeats) WaitGroup.Done: WaitStop hangs or the counter goes negative")
		}
	}
	// multi-line: Add(slotSize) in the constructor, Run starts slotSize loops with their own index
	const rel = "syncx/pipe/mline"
	slot := c.field(rel, "MultiLine", "slotSize")
	if slot == nil {
		return
	}
	if fn := c.fn(rel, "newMux"); fn != nil {
		traces, _ := c.Trace(fn, TraceConfig{Inline: c.laneInline()})
		ok, n := true, 0
		for _, t := range traces {
			if t.End != EndReturn {
				continue
			}
			n++
			good := false
			var sv *Sym
			for _, e := range t.Events {
				if e.Kind == EvStore && e.Addr.isFieldAddrOf(slot) {
					sv = e.Val
				}
			}
			for _, e := range t.Events {
				if e.Kind == EvCall && e.callName() == "(*sync.WaitGroup).Add" && sv != nil && boundKey(e.Args[1]) == boundKey(sv) {
					good = true
				}
			}
			if !good {
				ok = false
			}
		}
		c.check(ok && n > 0, "C14.goroutines", rel+".newMux Add", fn.Pos(), "wg.Add(slotSize)", "the wait group is not armed with slotSize: WaitStop returns early or never")
	}
	if fn := c.fn(rel, "(*MultiLine).Run"); fn != nil {
		traces, _ := c.Trace(fn, TraceConfig{Inline: c.laneInline()})
		ok, seen := true, false
		for _, t := range traces {
			for _, e := range t.Events {
				if e.Kind == EvGo && e.Gen {
					seen = true
					// one of the arguments is the lane index: the loop variable itself, or (range loops) the incremented
					// variable that was just tested against the bound; a queue handed over beside it (popLoop(i, mq)) is
					// the element of qs at that same index
					var laneIdx *Sym
					for _, idx := range e.Args[1:] {
						for idx.Kind == KConv {
							idx = idx.Args[0]
						}
						isLoopVar := idx.Kind == KFresh && idx.Name == "loop"
						if !isLoopVar {
							for _, b := range t.Events {
								if b.Kind == EvBranch && b.Gen && b.Taken && b.Cond.Kind == KBin && b.Cond.Op == token.LSS {
									x := b.Cond.Args[0]
									for x.Kind == KConv {
										x = x.Args[0]
									}
									if x.Key() == idx.Key() && idx.mentions2("loop") {
										isLoopVar = true
									}
								}
							}
						}
						if isLoopVar {
							laneIdx = idx
						}
					}
					if laneIdx == nil {
						ok = false
					} else {
						for _, a := range e.Args[1:] {
							if strings.Contains(a.Key(), ".qs") && !strings.Contains(a.Key(), laneIdx.Key()) {
								ok = false
							}
						}
					}
				}
				if e.Kind == EvBranch && e.Gen && e.Cond.Kind == KBin && e.Cond.Op == token.LSS {
					_, isSlot := isInitOfField(e.Cond.Args[1], slot)
					// `for i := range c.qs`: the bound is len(qs), and the index rule establishes len(qs) == slotSize
					b := e.Cond.Args[1]
					isLenQs := b.Kind == KOp && b.Name == "len" && strings.Contains(b.Args[0].Key(), ".qs")
					if !isSlot && !isLenQs {
						ok = false
					}
				}
			}
		}
		c.check(ok && seen, "C14.goroutines", "(*"+rel+".MultiLine).Run lanes", fn.Pos(), "go popLoop(i) for i in [0, slotSize)", "Run does not start exactly one loop per lane index below slotSize")
	}
}
