package main

import (
	"fmt"
	"go/token"
	"go/types"
	"math/big"
	"regexp"
	"strings"

	"golang.org/x/tools/go/ssa"
)

func init() {
	register(&Property{
		ID:       "C08",
		Patterns: []string{"./bitmap1024", "./bitmap1024/internal"},
		Explanation: "Applies one semantic rule set to every member of the iterator families (5 widths x 2 directions on 64 bits, 4+4 on 1024 bits — so a member that drifts from its siblings fails its own obligations), on every path (loops: first iteration, a generalised iteration and the transition of the loop-carried variables across it): " +
			"(1) index safety: every index into the 64-entry bit table lies in [0,63] (interval evaluation: loop variable bounds, TrailingZeros64 / Len64-1 of a non-zero word), every 1024-bit block index in [0,16), Set/Unset reach a write only under i <= 63 and a block index in [0,16); " +
			"(2) every write s[cursor] = v happens under c < n and c < Len, v = (index of the bit being tested) + add, and across an iteration that writes, cursor and c each grow by exactly one and exactly that bit is cleared from the working word; an iteration that does not write leaves them alone; the function returns c; " +
			"(3) direction: ascending iterators count the dense loop up from 0 and use TrailingZeros64, descending ones count down from 63 and use Len64-1; an R-prefixed name is descending and vice versa; the 1024-bit loop runs the same way as the same-named 64-bit leaf it calls, passes 64*i+add with its own i, the running cursor and the remaining count, and accumulates iterN += e, cursor += e, left = n - iterN, stopping at iterN >= n; " +
			"(4) operator table: And=&, Or=|, Reverse=^x, Full= ==^0, Len=OnesCount64 (64 when full), NLen=64-Len / 1024-Len, Equal compares all 16 words, the 1024-bit operators apply the same-named 64-bit one at every index below 16, the bit table is 1<<i. " +
			"NOT decided: the emitted values for each of the 2^1024 bitmaps beyond these invariants (follow by induction from 2 and 3, informally); that the dense and sparse branches are extensionally equal (only that both satisfy the same obligations); GetN* with negative n (make panics: outside the iterator clause).",
		Assumptions: []string{"math/bits contracts", "len(Bit1024) == 16 (all constructors make L16 words; checked)"},
		Floors:      map[string]int{"C08.index-safety": 14, "C08.write-guard": 10, "C08.iteration-step": 10, "C08.direction": 18, "C08.block-iteration": 8, "C08.operators": 12, "C08.dispatch": 7, "C08.dense-coverage": 10},
		Run:         runC08,
	})
}

var iterNameRe = regexp.MustCompile(`^(R?)IterAs(I64|I32|U32|I16|I8)$`)

func runC08(c *Ctx) {
	const relI = "bitmap1024/internal"
	const rel = "bitmap1024"
	b64 := c.namedType(relI, "Bit64")
	b1024 := c.namedType(rel, "Bit1024")
	if b64 == nil || b1024 == nil {
		c.undecided("anchor", "Bit64/Bit1024", 0, "types not found")
		return
	}
	pkgI := c.ssaPkg(relI)
	tab, _ := pkgI.Members["u64Tab"].(*ssa.Global)
	if tab == nil {
		c.undecided("anchor", relI+".u64Tab", 0, "bit table not found")
		return
	}
	x := &bitCtx{c: c, tab: tab, pfx: "C08"}
	for i := 0; i < b64.NumMethods(); i++ {
		m := b64.Method(i)
		if mm := iterNameRe.FindStringSubmatch(m.Name()); mm != nil {
			x.checkLeafIter(c.Prog.FuncValue(m), mm[1] == "R")
		}
	}
	for i := 0; i < b1024.NumMethods(); i++ {
		m := b1024.Method(i)
		if mm := iterNameRe.FindStringSubmatch(m.Name()); mm != nil {
			x.checkBlockIter(c.Prog.FuncValue(m), mm[1] == "R")
		}
	}
	x.checkSetUnset()
	x.checkOperators()
	c.checkDirectionDispatch("C08.dispatch", []dispatchSpec{
		{relI, "Bit64", "getNAsI64"}, {relI, "Bit64", "getNAsI32"}, {relI, "Bit64", "getNAsI16"}, {relI, "Bit64", "getNAsI8"},
		{rel, "Bit1024", "getNAsI64"}, {rel, "Bit1024", "getNAsI32"}, {rel, "Bit1024", "getNAsI16"},
	})
}

type bitCtx struct {
	c   *Ctx
	tab *ssa.Global
	pfx string // rule prefix of the block-iteration rule (C08; C09 re-runs it for the block bitmaps)
}

func (x *bitCtx) isTabCell(a *Sym) (*Sym, bool) {
	if a.Kind == KIndexAddr && a.Args[0].Kind == KGlobal && a.Args[0].Ref.(*ssa.Global) == x.tab {
		return a.Args[1], true
	}
	return nil, false
}

// checkLeafIter: rules 1-3 for one 64-bit iterator.
func (x *bitCtx) checkLeafIter(fn *ssa.Function, reverse bool) {
	c := x.c
	name := "Bit64." + fn.Name()
	traces, complete := c.Trace(fn, TraceConfig{})
	if !complete {
		c.undecided("C08.index-safety", name, fn.Pos(), "path budget exceeded")
		return
	}
	s, add, n := fn.Params[1], fn.Params[3], fn.Params[4]
	sK, addK, nK := "$"+s.Name(), "$"+add.Name(), "$"+n.Name()
	okIdx, okGuard, okStep, okDir, okRet := true, true, true, true, true
	okCover, sawCover := true, false
	nIdx, nStores, nCuts := 0, 0, 0
	// the loop-carried count variable(s): phis compared with n
	cPhis := map[interface{}]bool{}
	for _, t := range traces {
		for _, e := range t.Events {
			if e.Kind == EvBranch && e.Cond.Kind == KBin && e.Cond.Args[1].Key() == nK {
				if v := e.Cond.Args[0]; v.Kind == KFresh && v.Name == "loop" {
					cPhis[v.Ref] = true
				}
			}
		}
	}
	sawDenseDir, sawSparseDir := false, false
	for _, t := range traces {
		facts := t.factsBefore(len(t.Events))
		_ = facts
		var lastIdx *Sym // index of the most recent bit-table load (the bit under test)
		var lenVal *Sym
		for _, e := range t.Events {
			if e.Kind == EvExit && e.Callee != nil && e.Callee.Name() == "Len" && lenVal == nil {
				lenVal = e.Res
			}
		}
		for i, e := range t.Events {
			if e.Kind == EvLoad {
				if idx, ok := x.isTabCell(e.Addr); ok {
					nIdx++
					lastIdx = idx
					r := c.newRanger(t, i)
					v := r.Eval(idx)
					if !(v.lo != nil && v.hi != nil && v.lo.Sign() >= 0 && v.hi.Cmp(bi(63)) <= 0) && okIdx {
						okIdx = false
						c.violated("C08.index-safety", name, e.Pos, fmt.Sprintf("an index into the 64-entry bit table is not provably in [0,63]: %s = %s", c.short(idx.Key()), v), c.witness(t, i)...)
					}
					// direction of the sparse primitive
					idx.walk(func(z *Sym) {
						if z.Kind == KFresh && z.Name == "ret" {
							for _, y := range t.Events[:i] {
								if y.Kind == EvCall && y.Res != nil && y.Res.Key() == z.Key() {
									switch y.callName() {
									case "math/bits.TrailingZeros64":
										sawSparseDir = true
										if reverse && okDir {
											okDir = false
											c.violated("C08.direction", name+" sparse", e.Pos, "a descending iterator picks the lowest set bit (TrailingZeros64): members come out in ascending order", c.witness(t, i)...)
										}
									case "math/bits.Len64":
										sawSparseDir = true
										if !reverse && okDir {
											okDir = false
											c.violated("C08.direction", name+" sparse", e.Pos, "an ascending iterator picks the highest set bit (Len64-1): members come out in descending order", c.witness(t, i)...)
										}
									}
								}
							}
						}
					})
				}
			}
			if e.Kind == EvStore && e.Addr.Kind == KIndexAddr && e.Addr.Args[0].Key() == sK {
				nStores++
				// guard: c < n and c < len on the current c
				fb := t.factsBefore(i)
				var cSym *Sym
				for j := i - 1; j >= 0 && cSym == nil; j-- {
					y := t.Events[j]
					if y.Kind == EvBranch && y.Cond.Kind == KBin && y.Cond.Args[1].Key() == nK {
						cSym = y.Cond.Args[0]
					}
				}
				guardN := cSym != nil && hasFact(fb, func(f Fact) bool { return f.X.Key() == cSym.Key() && f.Y.Key() == nK && f.Op == token.LSS })
				guardL := false
				if cSym != nil && lenVal != nil {
					if cv, isC := cSym.intConst(); isC {
						if lv, isL := lenVal.intConst(); isL {
							guardL = cv < lv
						}
					}
					if !guardL {
						guardL = hasFact(fb, func(f Fact) bool { return f.X.Key() == cSym.Key() && f.Y.Key() == lenVal.Key() && f.Op == token.LSS })
					}
				}
				if !(guardN && guardL) && okGuard {
					okGuard = false
					c.violated("C08.write-guard", name, e.Pos, fmt.Sprintf("a member is written without `c < n` (%v) and `c < Len` (%v) established for the current count: more than min(n, Len) members are written (past the caller's slice)", guardN, guardL), c.witness(t, i)...)
				}
				// value = bit index + add (the bit under test: the table access before the write in the dense
				// branch, the one that clears the bit right after it in the sparse branch)
				addForm := lf(&Sym{Kind: KParam, Ref: add, Typ: add.Type()})
				var nextIdx *Sym
				for _, y := range t.Events[i+1:] {
					if y.Kind == EvLoad {
						if idx2, ok2 := x.isTabCell(y.Addr); ok2 {
							nextIdx = idx2
							break
						}
					}
					if y.Kind == EvStore || y.Kind == EvLoopGen {
						break
					}
				}
				valOK := (lastIdx != nil && lf(e.Val).equal(lf(lastIdx).add(addForm, 1))) || (nextIdx != nil && lf(e.Val).equal(lf(nextIdx).add(addForm, 1)))
				// sparse form without the mask table: the member is TrailingZeros64(w) of the current working word and the
				// step drops the lowest set bit (w &= w-1, checked with the loop transition below)
				if !valOK {
					for _, y := range t.Events[:i] {
						if y.Kind == EvCall && y.callName() == "math/bits.TrailingZeros64" && y.Res != nil && lf(e.Val).equal(lf(y.Res).add(addForm, 1)) {
							valOK = true
							sawSparseDir = true
							nIdx++
							if reverse && okDir {
								okDir = false
								c.violated("C08.direction", name+" sparse", e.Pos, "a descending iterator picks the lowest set bit (TrailingZeros64): members come out in ascending order", c.witness(t, i)...)
							}
						}
					}
				}
				if !valOK {
					if okGuard {
						okGuard = false
						c.violated("C08.write-guard", name+" value", e.Pos, "the value written is not (index of the bit under test) + add: "+c.short(e.Val.Key()), c.witness(t, i)...)
					}
				}
				_ = addK
			}
		}
		// dense loop direction from the loop variable hints
		for _, e := range t.Events {
			if e.Kind != EvLoad {
				continue
			}
			if idx, ok := x.isTabCell(e.Addr); ok {
				v := idx
				for v.Kind == KConv {
					v = v.Args[0]
				}
				if v.Kind == KFresh && v.Name == "loop" && len(v.Args) == 2 && v.Args[1] != nil {
					sawDenseDir = true
					st, _ := v.Args[1].intConst()
					init, isC := v.Args[0].intConst()
					good := isC && ((!reverse && st == 1 && init == 0) || (reverse && st == -1 && init == 63))
					if !good && okDir {
						okDir = false
						c.violated("C08.direction", name+" dense", e.Pos, fmt.Sprintf("the dense loop of %s iterator runs from %d with step %+d (ascending: 0,+1; descending: 63,-1)", map[bool]string{true: "a descending", false: "an ascending"}[reverse], init, st), "")
					}
				}
			}
		}
		// dense loop coverage: the loop's own continue-condition on the bit variable admits exactly 0..63
		{
			var denseVar *Sym
			for _, e := range t.Events {
				if e.Kind == EvLoad {
					if idx, ok := x.isTabCell(e.Addr); ok {
						v := idx
						for v.Kind == KConv {
							v = v.Args[0]
						}
						if v.Kind == KFresh && v.Name == "loop" && len(v.Args) == 2 {
							denseVar = v
						}
					}
				}
			}
			if denseVar != nil {
				init, isC := denseVar.Args[0].intConst()
				for _, e := range t.Events {
					if e.Kind != EvBranch || e.Cond.Kind != KBin || !isC {
						continue
					}
					v := e.Cond.Args[0]
					for v.Kind == KConv {
						v = v.Args[0]
					}
					k, isK := e.Cond.Args[1].intConst()
					if v.Key() != denseVar.Key() || !isK {
						continue
					}
					// continue-condition as written: the start value satisfies it
					lo, hi := int64(-1<<62), int64(1<<62)
					switch e.Cond.Op {
					case token.LSS:
						hi = k - 1
					case token.LEQ:
						hi = k
					case token.GTR:
						lo = k + 1
					case token.GEQ:
						lo = k
					case token.NEQ:
						if init < k {
							hi = k - 1
						} else {
							lo = k + 1
						}
					default:
						continue
					}
					if init < lo || init > hi {
						continue
					}
					sawCover = true
					good := (!reverse && hi == 63) || (reverse && lo == 0)
					if !good && okCover {
						okCover = false
						c.violated("C08.dense-coverage", name, e.Pos, fmt.Sprintf("the dense loop continues while `%s`: it does not visit every bit position 0..63 (a member at the excluded position is never reported and the count is short)", c.short(e.Cond.Key())), c.witness(t, len(t.Events)-1)...)
					}
				}
			}
		}
		// transitions across the generalised iteration
		if t.End == EndCut && len(t.Cut) > 0 {
			nCuts++
			// events of the generalised iteration
			genStart := 0
			for i, e := range t.Events {
				if e.Kind == EvLoopGen {
					genStart = i
				}
			}
			var store *Event
			var testIdx *Sym
			for _, e := range t.Events[genStart:] {
				if e.Kind == EvStore && e.Addr.Kind == KIndexAddr && e.Addr.Args[0].Key() == sK {
					store = e
				}
				if e.Kind == EvLoad {
					if idx, ok := x.isTabCell(e.Addr); ok {
						testIdx = idx
					}
				}
			}
			if store != nil {
				isPhi := false
				for _, ps := range t.Cut {
					if store.Addr.Args[1].Key() == ps.Cur.Key() {
						isPhi = true
					}
				}
				if !isPhi && okStep {
					okStep = false
					c.violated("C08.iteration-step", name, store.Pos, "the write position is not a loop-carried variable: every member is written to the same slot ("+c.short(store.Addr.Args[1].Key())+")", c.witness(t, len(t.Events)-1)...)
				}
			}
			for _, ps := range t.Cut {
				role := ""
				switch {
				case store != nil && store.Addr.Args[1].Key() == ps.Cur.Key():
					role = "cursor"
				case ps.Cur.Typ != nil && types.Identical(ps.Cur.Typ.Underlying(), types.Typ[types.Uint64]) || (ps.Cur.Typ != nil && strings.HasSuffix(ps.Cur.Typ.String(), "Bit64")):
					role = "w"
				}
				if role == "" {
					// c: compared with n in this iteration
					for _, e := range t.Events[genStart:] {
						if e.Kind == EvBranch && e.Cond.Kind == KBin && e.Cond.Args[1].Key() == nK && e.Cond.Args[0].Key() == ps.Cur.Key() {
							role = "c"
						}
					}
				}
				fail := func(msg string) {
					if okStep {
						okStep = false
						c.violated("C08.iteration-step", name, fn.Pos(), msg+fmt.Sprintf(" (%s: %s -> %s)", role, c.short(ps.Cur.Key()), c.short(ps.Next.Key())), c.witness(t, len(t.Events)-1)...)
					}
				}
				plus1 := lf(ps.Next).equal(lf(ps.Cur).add(lfConst(1), 1))
				same := ps.Next.Key() == ps.Cur.Key()
				switch role {
				case "cursor":
					if store != nil && !plus1 {
						fail("an iteration that writes a member does not advance the write position by exactly one")
					}
				case "c":
					if store != nil && !plus1 {
						fail("an iteration that writes a member does not increase the count by exactly one")
					}
					if store == nil && !same {
						fail("an iteration that writes nothing changes the count")
					}
				case "w":
					if store != nil {
						good := ps.Next.Kind == KBin && ps.Next.Op == token.AND
						if good {
							a, b := ps.Next.Args[0], ps.Next.Args[1]
							if a.Key() != ps.Cur.Key() {
								a, b = b, a
							}
							good = a.Key() == ps.Cur.Key() && b.Kind == KUn && b.Op == token.XOR && b.Args[0].Kind == KInit
							if good {
								idx, isTab := x.isTabCell(b.Args[0].Args[0])
								good = isTab && testIdx != nil && idx.Key() == testIdx.Key()
							}
						} else if ps.Next.Kind == KBin && ps.Next.Op == token.AND_NOT {
							good = ps.Next.Args[0].Key() == ps.Cur.Key()
						}
						// w & (w-1) drops the lowest set bit: exactly the member written when that member is
						// TrailingZeros64 of the same w (ascending iterators only)
						if !good && !reverse && ps.Next.Kind == KBin && ps.Next.Op == token.AND {
							a, b := ps.Next.Args[0], ps.Next.Args[1]
							if a.Key() != ps.Cur.Key() {
								a, b = b, a
							}
							if a.Key() == ps.Cur.Key() && b.Kind == KBin && b.Op == token.SUB && b.Args[0].Key() == ps.Cur.Key() && isIntConst(b.Args[1], 1) {
								for _, y := range t.Events[genStart:] {
									if y.Kind == EvCall && y.callName() == "math/bits.TrailingZeros64" && len(y.Args) == 1 && stripWidening(y.Args[0]).strip().Key() == ps.Cur.Key() && store != nil {
										if lf(store.Val).equal(lf(y.Res).add(lf(&Sym{Kind: KParam, Ref: add, Typ: add.Type()}), 1)) {
											good = true
										}
									}
								}
							}
						}
						if !good {
							fail("an iteration that writes a member does not clear exactly that member's bit from the working word (the same member is written again, or others are lost)")
						}
					} else if !same {
						fail("an iteration that writes nothing changes the working word")
					}
				}
			}
		}
		// return value = count
		if t.End == EndReturn && len(t.Ret) == 1 {
			// number of stores after the last comparison with n
			var lastC *Sym
			storesAfter := 0
			stores := 0
			for _, e := range t.Events {
				if e.Kind == EvBranch && e.Cond.Kind == KBin && e.Cond.Args[1].Key() == nK {
					lastC = e.Cond.Args[0]
					storesAfter = 0
				}
				if e.Kind == EvStore && e.Addr.Kind == KIndexAddr && e.Addr.Args[0].Key() == sK {
					storesAfter++
					stores++
				}
			}
			want := lfConst(0)
			if lastC != nil {
				want = lf(lastC).add(lfConst(int64(storesAfter)), 1)
			}
			isCount := t.Ret[0].Kind == KFresh && t.Ret[0].Name == "loop" && cPhis[t.Ret[0].Ref]
			if !lf(t.Ret[0]).equal(want) && !isCount && okRet {
				okRet = false
				c.violated("C08.iteration-step", name+" result", fn.Pos(), fmt.Sprintf("the value returned (%s) is not the number of members written (%s)", c.short(t.Ret[0].Key()), want), c.witness(t, len(t.Events)-1)...)
			}
		}
	}
	if nIdx == 0 || nStores == 0 || nCuts == 0 {
		c.undecided("C08.index-safety", name, fn.Pos(), fmt.Sprintf("the iterator's shape was not recognised (table loads=%d, writes=%d, loop summaries=%d)", nIdx, nStores, nCuts))
		return
	}
	if okIdx {
		c.holds("C08.index-safety", name, fn.Pos(), fmt.Sprintf("%d table accesses in [0,63]", nIdx))
	}
	if okGuard {
		c.holds("C08.write-guard", name, fn.Pos(), fmt.Sprintf("%d writes under c<n and c<Len, value = bit index + add", nStores))
	}
	if okStep && okRet {
		c.holds("C08.iteration-step", name, fn.Pos(), fmt.Sprintf("%d loop summaries", nCuts))
	}
	if okCover && sawCover {
		c.holds("C08.dense-coverage", name, fn.Pos(), "dense loop visits 0..63")
	}
	if okDir {
		if sawDenseDir {
			c.holds("C08.direction", name+" dense", fn.Pos(), "")
		} else {
			c.violated("C08.direction", name+" dense", fn.Pos(), "no dense loop over the bit table with a recognisable direction", "")
		}
		if sawSparseDir {
			c.holds("C08.direction", name+" sparse", fn.Pos(), "")
		} else {
			c.violated("C08.direction", name+" sparse", fn.Pos(), "no sparse step (TrailingZeros64 / Len64) found", "")
		}
	}
}

// checkBlockIter: rule 3 for one 1024-bit iterator.
func (x *bitCtx) checkBlockIter(fn *ssa.Function, reverse bool) {
	c := x.c
	name := "Bit1024." + fn.Name()
	noInl := func(callee *ssa.Function, depth int) bool { return false }
	traces, complete := c.Trace(fn, TraceConfig{Inline: noInl})
	if !complete {
		c.undecided(x.pfx+".block-iteration", name, fn.Pos(), "path budget exceeded")
		return
	}
	b, s, pos, add, n := "$"+fn.Params[0].Name(), "$"+fn.Params[1].Name(), "$"+fn.Params[2].Name(), fn.Params[3], "$"+fn.Params[4].Name()
	_ = pos
	ok := true
	calls, cuts := 0, 0
	cPhis := map[interface{}]bool{}
	for _, t := range traces {
		for _, e := range t.Events {
			if e.Kind == EvBranch && e.Cond.Kind == KBin && e.Cond.Args[1].Key() == n {
				if v := e.Cond.Args[0]; v.Kind == KFresh && v.Name == "loop" {
					cPhis[v.Ref] = true
				}
			}
		}
	}
	fail := func(t *Trace, i int, msg string) {
		if ok {
			ok = false
			if i < 0 {
				i = len(t.Events) - 1
			}
			c.violated(x.pfx+".block-iteration", name, t.Events[i].Pos, msg, c.witness(t, i)...)
		}
	}
	addSym := &Sym{Kind: KParam, Ref: add, Typ: add.Type()}
	for _, t := range traces {
		var lastCall *Event
		var lastIdx *Sym
		for i, e := range t.Events {
			if e.Kind == EvLoad && e.Addr.Kind == KIndexAddr && e.Addr.Args[0].Key() == b {
				lastIdx = e.Addr.Args[1]
				r := c.newRanger(t, i)
				v := r.Eval(lastIdx)
				if !(v.lo != nil && v.hi != nil && v.lo.Sign() >= 0 && v.hi.Cmp(bi(15)) <= 0) {
					fail(t, i, fmt.Sprintf("a block index is not provably in [0,16): %s = %s", c.short(lastIdx.Key()), v))
				}
				// direction of the block loop
				lv := lastIdx
				for lv.Kind == KConv {
					lv = lv.Args[0]
				}
				if lv.Kind == KFresh && lv.Name == "loop" && len(lv.Args) == 2 && lv.Args[1] != nil {
					st, _ := lv.Args[1].intConst()
					init, _ := lv.Args[0].intConst()
					if !((!reverse && st == 1 && init == 0) || (reverse && st == -1 && init == 15)) {
						fail(t, i, fmt.Sprintf("the block loop runs from %d with step %+d: blocks are visited in the wrong order for %s iterator", init, st, map[bool]string{true: "a descending", false: "an ascending"}[reverse]))
					}
				}
			}
			// members are produced by the 64-bit iterators only: a block iterator that writes into the caller's slice
			// itself (a fast path for full or empty words) is a second implementation of the order and the limit
			if e.Kind == EvStore && e.Addr.Kind == KIndexAddr && e.Addr.Args[0].root().Key() == s {
				fail(t, i, "the block iterator stores members into the caller's slice itself instead of leaving every word to the 64-bit iterator of the same direction and width")
			}
			if e.Kind == EvCall && e.Method != nil && iterNameRe.MatchString(e.Method.Name()) {
				calls++
				lastCall = e
				if e.Method.Name() != fn.Name() {
					fail(t, i, "the block iterator "+fn.Name()+" calls the 64-bit "+e.Method.Name()+": direction or width differs from its own")
				}
				// args: (word, s, cursor, 64*i+add, left)
				if len(e.Args) != 5 || e.Args[1].Key() != s {
					fail(t, i, "the 64-bit iterator is not given the caller's slice")
					continue
				}
				if lastIdx == nil || !lf(e.Args[3]).equal(lf(lastIdx).scale(bi(64)).add(lf(addSym), 1)) {
					fail(t, i, "the offset passed to the 64-bit iterator is not 64*(own block index)+add: "+c.short(e.Args[3].Key()))
				}
				// receiver is b[i] with that i
				recv := e.Args[0]
				if !(recv.Kind == KInit && recv.Args[0].Kind == KIndexAddr && recv.Args[0].Args[0].Key() == b && lastIdx != nil && recv.Args[0].Args[1].Key() == lastIdx.Key()) {
					fail(t, i, "the word iterated is not the block at the loop index")
				}
				// guarded by iterN < n
				fb := t.factsBefore(i)
				if !hasFact(fb, func(f Fact) bool { return f.Y.Key() == n && f.Op == token.LSS }) {
					fail(t, i, "a block is iterated without `iterN < n` established: blocks keep being visited after n members were produced")
				}
			}
		}
		_ = lastCall
		if t.End == EndCut && len(t.Cut) > 0 {
			cuts++
			genStart := 0
			for i, e := range t.Events {
				if e.Kind == EvLoopGen {
					genStart = i
				}
			}
			var call *Event
			for _, e := range t.Events[genStart:] {
				if e.Kind == EvCall && e.Method != nil && iterNameRe.MatchString(e.Method.Name()) {
					call = e
				}
			}
			if call == nil {
				continue
			}
			eRes := call.Res
			var iterCur, iterNext *Sym
			for _, ps := range t.Cut {
				// iterN: compared with n
				for _, e := range t.Events[genStart:] {
					if e.Kind == EvBranch && e.Cond.Kind == KBin && e.Cond.Args[1].Key() == n && e.Cond.Args[0].Key() == ps.Cur.Key() {
						iterCur, iterNext = ps.Cur, ps.Next
					}
				}
			}
			if iterCur == nil || !lf(iterNext).equal(lf(iterCur).add(lf(eRes), 1)) {
				fail(t, -1, "across a block the running count does not grow by exactly the number of members the 64-bit iterator reported")
			}
			// the position and the remaining count handed to the 64-bit iterator are linear in the loop-carried
			// variables (a cursor and a left-over variable of their own, or pos+done and n-done over the one
			// running count): evaluated over the next iteration's values they must be the position advanced by
			// what this block wrote, and n less everything produced so far
			subst := func(e linForm) linForm {
				out := e
				for _, ps := range t.Cut {
					k := boundKey(ps.Cur)
					if co, has := e.coef[k]; has {
						cur := linForm{coef: map[string]*big.Int{k: big.NewInt(1)}, c: new(big.Int)}
						out = out.add(cur.scale(co), -1).add(lf(ps.Next).scale(co), 1)
					}
				}
				return out
			}
			posE, leftE := lf(call.Args[2]), lf(call.Args[4])
			posN, leftN := subst(posE), subst(leftE)
			if posN.equal(posE) {
				fail(t, -1, "the write position handed to the 64-bit iterator is not advanced from block to block: blocks overwrite each other")
			} else if !posN.equal(posE.add(lf(eRes), 1)) {
				fail(t, -1, "across a block the write position does not advance by the number of members written: blocks overwrite each other or leave gaps")
			}
			if leftN.equal(leftE) {
				fail(t, -1, "the remaining count handed to the 64-bit iterator is not recomputed from block to block: later blocks may write more than n members in total")
			} else {
				nSym := &Sym{Kind: KParam, Ref: fn.Params[4], Typ: fn.Params[4].Type()}
				if iterNext != nil && !leftN.equal(lf(nSym).add(lf(iterNext), -1)) {
					fail(t, -1, "the remaining count handed to the next block is not n - (members produced so far)")
				}
			}
		}
		if t.End == EndReturn && len(t.Ret) == 1 {
			// returns iterN: the value last compared with n, plus what the last block reported afterwards
			var lastC *Sym
			var after *Sym
			for _, e := range t.Events {
				if e.Kind == EvBranch && e.Cond.Kind == KBin && e.Cond.Args[1].Key() == n {
					lastC = e.Cond.Args[0]
					after = nil
				}
				if e.Kind == EvCall && e.Method != nil && iterNameRe.MatchString(e.Method.Name()) {
					after = e.Res
				}
			}
			want := lfConst(0)
			if lastC != nil {
				want = lf(lastC)
				if after != nil {
					want = want.add(lf(after), 1)
				}
			}
			isCount := t.Ret[0].Kind == KFresh && t.Ret[0].Name == "loop" && cPhis[t.Ret[0].Ref]
			if !lf(t.Ret[0]).equal(want) && !isCount {
				fail(t, -1, "the value returned is not the number of members produced: "+c.short(t.Ret[0].Key()))
			}
		}
	}
	if calls == 0 || cuts == 0 {
		c.undecided(x.pfx+".block-iteration", name, fn.Pos(), "the block iterator's shape was not recognised")
	} else if ok {
		c.holds(x.pfx+".block-iteration", name, fn.Pos(), fmt.Sprintf("%d leaf calls, %d loop summaries", calls, cuts))
	}
}

// checkSetUnset: rule 1b.
func (x *bitCtx) checkSetUnset() {
	c := x.c
	for _, m := range []string{"Set", "Unset"} {
		fn := c.mustFn("bitmap1024/internal", "(*Bit64)."+m)
		if fn == nil {
			continue
		}
		name := "Bit64." + m
		traces, _ := c.Trace(fn, TraceConfig{})
		ok, n := true, 0
		for _, t := range traces {
			for i, e := range t.Events {
				if e.Kind == EvLoad {
					if idx, isTab := x.isTabCell(e.Addr); isTab {
						n++
						r := c.newRanger(t, i)
						v := r.Eval(idx)
						if !(v.lo != nil && v.hi != nil && v.lo.Sign() >= 0 && v.hi.Cmp(bi(63)) <= 0) && ok {
							ok = false
							c.violated("C08.index-safety", name, e.Pos, fmt.Sprintf("the bit table is indexed with a value not provably in [0,63] (%s): an out-of-range index panics instead of being ignored", v), c.witness(t, i)...)
						}
					}
				}
				if e.Kind == EvStore && e.Addr.Key() == t.Params[0].Key() {
					// *b |= tab[i]  /  *b &= ^tab[i]
					v := e.Val
					good := false
					if m == "Set" {
						good = v.Kind == KBin && v.Op == token.OR
					} else {
						good = v.Kind == KBin && (v.Op == token.AND || v.Op == token.AND_NOT)
					}
					if !good && ok {
						ok = false
						c.violated("C08.operators", name, e.Pos, m+" does not "+map[string]string{"Set": "or the bit into", "Unset": "mask the bit out of"}[m]+" the word: "+c.short(v.Key()), c.witness(t, i)...)
					}
				}
			}
		}
		if ok && n > 0 {
			c.holds("C08.index-safety", name, fn.Pos(), "table access only under i <= 63")
			c.holds("C08.operators", name, fn.Pos(), "")
		}
	}
	// Bit1024.Set*/Unset*: block index guarded, leaf given i % 64
	for _, m := range []string{"SetI32", "UnsetI32", "SetI16", "UnsetI16"} {
		fn := c.mustFn("bitmap1024", "Bit1024."+m)
		if fn == nil {
			continue
		}
		name := "Bit1024." + m
		noInl := func(callee *ssa.Function, depth int) bool { return false }
		traces, _ := c.Trace(fn, TraceConfig{Inline: noInl})
		ok, n := true, 0
		for _, t := range traces {
			for i, e := range t.Events {
				if e.Kind == EvCall && e.Method != nil && (e.Method.Name() == "Set" || e.Method.Name() == "Unset") {
					n++
					wantLeaf := "Set"
					if strings.HasPrefix(m, "Unset") {
						wantLeaf = "Unset"
					}
					recv := e.Args[0]
					good := e.Method.Name() == wantLeaf && recv.Kind == KIndexAddr
					if good {
						idx := recv.Args[1]
						r := c.newRanger(t, i)
						v := r.Eval(idx)
						good = v.lo != nil && v.hi != nil && v.lo.Sign() >= 0 && v.hi.Cmp(bi(15)) <= 0
						// idx = i / 64, arg = byte(i % 64)
						p := t.Params[1]
						iv := idx
						for iv.Kind == KConv {
							iv = iv.Args[0]
						}
						good = good && iv.Kind == KBin && iv.Op == token.QUO && stripWidening(iv.Args[0]).Key() == p.Key()
						if good {
							d, isC := iv.Args[1].intConst()
							good = isC && d == 64
						}
						a := e.Args[1]
						for a.Kind == KConv {
							a = a.Args[0]
						}
						if good {
							good = a.Kind == KBin && a.Op == token.REM && stripWidening(a.Args[0]).Key() == p.Key()
							if good {
								d, isC := a.Args[1].intConst()
								good = isC && d == 64
							}
						}
					}
					if !good && ok {
						ok = false
						c.violated("C08.index-safety", name, e.Pos, "the 1024-bit operation does not address word i/64 (guarded to [0,16)) and bit i%64 with the matching 64-bit "+wantLeaf, c.witness(t, i)...)
					}
				}
			}
		}
		if ok && n > 0 {
			c.holds("C08.index-safety", name, fn.Pos(), "word i/64 in [0,16), bit i%64")
		} else if n == 0 {
			c.undecided("C08.index-safety", name, fn.Pos(), "no 64-bit Set/Unset call found")
		}
	}
}

// checkOperators: rule 4.
func (x *bitCtx) checkOperators() {
	c := x.c
	const relI = "bitmap1024/internal"
	retForm := func(fnName string, pred func(t *Trace, r *Sym) bool, what string) {
		fn := c.mustFn(relI, "Bit64."+fnName)
		if fn == nil {
			return
		}
		traces, _ := c.Trace(fn, TraceConfig{})
		ok, n := true, 0
		for _, t := range traces {
			if t.End != EndReturn || len(t.Ret) != 1 {
				continue
			}
			n++
			if !pred(t, t.Ret[0]) {
				ok = false
			}
		}
		c.check(ok && n > 0, "C08.operators", "Bit64."+fnName, fn.Pos(), what, "Bit64."+fnName+" is not "+what)
	}
	bin := func(op token.Token) func(t *Trace, r *Sym) bool {
		return func(t *Trace, r *Sym) bool {
			return r.Kind == KBin && r.Op == op && ((r.Args[0].Key() == t.Params[0].Key() && r.Args[1].Key() == t.Params[1].Key()) || (r.Args[1].Key() == t.Params[0].Key() && r.Args[0].Key() == t.Params[1].Key()))
		}
	}
	retForm("And", bin(token.AND), "b & c")
	retForm("Or", bin(token.OR), "b | c")
	retForm("Reverse", func(t *Trace, r *Sym) bool {
		return r.Kind == KUn && r.Op == token.XOR && r.Args[0].Key() == t.Params[0].Key()
	}, "^b")
	retForm("Full", func(t *Trace, r *Sym) bool {
		if r.Kind != KBin || r.Op != token.EQL || r.Args[0].Key() != t.Params[0].Key() {
			return false
		}
		return r.Args[1].isConst() && r.Args[1].Const != nil && r.Args[1].Const.ExactString() == "18446744073709551615"
	}, "b == ^0")
	retForm("Len", func(t *Trace, r *Sym) bool {
		if v, isC := r.intConst(); isC {
			// only on the full path
			return v == 64 && hasFact(t.factsBefore(len(t.Events)), func(f Fact) bool { return f.X.Key() == t.Params[0].Key() && f.Op == token.EQL })
		}
		for _, e := range t.Events {
			if e.Kind == EvCall && e.callName() == "math/bits.OnesCount64" && e.Res.Key() == r.Key() && e.Args[0].Key() == t.Params[0].Key() {
				return true
			}
		}
		return false
	}, "OnesCount64(b) (64 when full)")
	retForm("NLen", func(t *Trace, r *Sym) bool {
		if r.Kind == KBin && r.Op == token.SUB {
			v, isC := r.Args[0].intConst()
			return isC && v == 64
		}
		v, isC := r.intConst()
		return isC && v == 0
	}, "64 - Len()")

	// bit table: u64Tab[i] = 1 << i for i in [0,64)
	if pkg := c.ssaPkg(relI); pkg != nil {
		okTab := false
		for _, f := range c.funcsOf(relI) {
			if !strings.HasPrefix(f.Name(), "init") && !c.isNewHelper(f) {
				continue
			}
			traces, _ := c.Trace(f, TraceConfig{})
			for _, t := range traces {
				for _, e := range t.Events {
					if e.Kind == EvStore && e.Gen {
						idx, isTab := x.isTabCell(e.Addr)
						if !isTab && e.Addr.Kind == KIndexAddr && e.Addr.Args[0].Kind == KAlloc && e.Addr.Args[0].Typ != nil && x.tab.Type() != nil {
							// the table built in a local of the table's type by a function introduced for the purpose
							// (`var u64Tab = newMaskTab()`)
							if pt, isP := e.Addr.Args[0].Typ.(*types.Pointer); isP && types.Identical(pt.Elem(), x.tab.Type().(*types.Pointer).Elem()) {
								idx, isTab = e.Addr.Args[1], true
							}
						}
						if isTab {
							v := e.Val
							if v.Kind == KBin && v.Op == token.SHL {
								one, isC := v.Args[0].intConst()
								sh := v.Args[1]
								for sh.Kind == KConv {
									sh = sh.Args[0]
								}
								ix := idx
								for ix.Kind == KConv {
									ix = ix.Args[0]
								}
								if isC && one == 1 && sh.Key() == ix.Key() {
									okTab = true
								}
							}
						}
					}
				}
			}
		}
		c.check(okTab, "C08.operators", "u64Tab", x.tab.Pos(), "u64Tab[i] = 1 << i", "the bit table is not initialised as 1 << i: every membership test and update addresses the wrong bit")
	}

	// 1024-bit operators apply the 64-bit one at every index below 16
	for _, op := range []struct{ name, leaf string }{{"And", "And"}, {"Or", "Or"}, {"Reverse", "Reverse"}, {"OrThenReverse", "Or+Reverse"}, {"Len", "Len"}, {"Equal", "=="}} {
		fn := c.mustFn("bitmap1024", "Bit1024."+op.name)
		if fn == nil {
			continue
		}
		// the word methods stay calls (they are the events looked for); plain functions (NewBit1024) are walked, so
		// that `for i := range NewBit1024()` has its constant bound
		noInl := func(callee *ssa.Function, depth int) bool {
			return callee.Signature.Recv() == nil && callee.Pkg == fn.Pkg && depth < 3
		}
		traces, _ := c.Trace(fn, TraceConfig{Inline: noInl})
		ok, seen := true, false
		bound := false
		seenLeaf := map[string]bool{}
		for _, t := range traces {
			for _, e := range t.Events {
				if e.Kind == EvBranch && e.Gen && e.Cond.Kind == KBin && e.Cond.Op == token.LSS {
					if v, isC := e.Cond.Args[1].intConst(); isC && v == 16 {
						bound = true
					} else {
						ok = false
					}
				}
				if e.Kind == EvCall && e.Method != nil && e.Gen && e.callName() != "math/bits.OnesCount64" {
					seen = true
					want := strings.Split(op.leaf, "+")
					good := false
					for _, w := range want {
						if e.Method.Name() == w {
							good = true
							seenLeaf[w] = true
						}
					}
					if !good {
						ok = false
					}
				}
				if op.name == "Equal" && e.Kind == EvBranch && e.Gen && e.Cond.Kind == KBin && (e.Cond.Op == token.NEQ || e.Cond.Op == token.EQL) {
					seen = true
				}
				// the word operation written out instead of the one-line Bit64 method: x & y, x | y, ^x, OnesCount64(x)
				if e.Kind == EvCall && e.Gen && e.callName() == "math/bits.OnesCount64" {
					if op.leaf == "Len" {
						seen = true
						seenLeaf["Len"] = true
					} else {
						ok = false
					}
				}
				if e.Kind == EvStore && e.Gen && e.Val != nil && op.name != "Len" && op.name != "Equal" {
					var visit func(x *Sym)
					visit = func(x *Sym) {
						if x == nil || (x.Kind != KBin && x.Kind != KUn && x.Kind != KConv) {
							return // a loaded word, a constant
						}
						for _, a := range x.Args {
							visit(a)
						}
						w := ""
						switch {
						case x.Kind == KBin && x.Op == token.AND:
							w = "And"
						case x.Kind == KBin && x.Op == token.OR:
							w = "Or"
						case x.Kind == KUn && x.Op == token.XOR:
							w = "Reverse"
						case x.Kind == KBin && (x.Op == token.XOR || x.Op == token.AND_NOT || x.Op == token.SHL || x.Op == token.SHR || x.Op == token.ADD || x.Op == token.SUB):
							ok = false // some other word arithmetic
							return
						default:
							return
						}
						seen = true
						good := false
						for _, want := range strings.Split(op.leaf, "+") {
							if want == w {
								good = true
								seenLeaf[w] = true
							}
						}
						if !good {
							ok = false
						}
					}
					visit(e.Val)
				}
			}
			if op.name == "Equal" {
				// the comparison kept in a flag that the loop condition tests (`for i := 0; same && i < 16; i++`)
				for _, ps := range t.Cut {
					if ps.Next != nil && ps.Next.Kind == KBin && (ps.Next.Op == token.NEQ || ps.Next.Op == token.EQL) {
						seen = true
					}
				}
			}
		}
		if op.name != "Equal" && op.name != "Len" {
			// the result is the caller's own bitmap: never a package-level value or one of the operands (a shared
			// "empty" result would be changed for everybody by whoever sets a member in it)
			for _, t := range traces {
				if t.End != EndReturn || len(t.Ret) != 1 || !ok {
					continue
				}
				r := t.Ret[0]
				for r != nil && ((r.Kind == KOp && r.Name == "slice") || r.Kind == KInit || r.Kind == KConv) && len(r.Args) > 0 {
					r = r.Args[0]
				}
				if r != nil && (r.Kind == KGlobal || r.Kind == KParam) {
					ok = false
					c.violated("C08.operators", "Bit1024."+op.name, fn.Pos(), "Bit1024."+op.name+" returns a bitmap that is not its own fresh allocation ("+c.short(t.Ret[0].Key())+"): results share storage, setting a member in one changes the others", c.witness(t, len(t.Events)-1)...)
				}
			}
		}
		if op.name != "Equal" {
			for _, w := range strings.Split(op.leaf, "+") {
				if !seenLeaf[w] {
					ok = false
				}
			}
		}
		c.check(ok && seen && bound, "C08.operators", "Bit1024."+op.name, fn.Pos(), "applies Bit64."+op.leaf+" at every index < 16", "Bit1024."+op.name+" does not apply the 64-bit "+op.leaf+" at every word index below 16")
	}
	if fn := c.mustFn("bitmap1024", "Bit1024.NLen"); fn != nil {
		noInl := func(callee *ssa.Function, depth int) bool { return false }
		traces, _ := c.Trace(fn, TraceConfig{Inline: noInl})
		ok := len(traces) > 0
		for _, t := range traces {
			r := t.Ret[0]
			if !(r.Kind == KBin && r.Op == token.SUB) {
				ok = false
				continue
			}
			v, isC := r.Args[0].intConst()
			if !isC || v != 1024 {
				ok = false
			}
		}
		c.check(ok, "C08.operators", "Bit1024.NLen", fn.Pos(), "1024 - Len()", "Bit1024.NLen is not 1024 - Len()")
	}
	// constructors make 16 words
	if fn := c.mustFn("bitmap1024", "NewBit1024"); fn != nil {
		traces, _ := c.Trace(fn, TraceConfig{})
		ok := len(traces) > 0
		for _, t := range traces {
			r := t.Ret[0]
			if r.Kind == KAlloc && len(r.Args) == 2 {
				v, isC := r.Args[0].intConst()
				if !isC || v != 16 {
					ok = false
				}
				continue
			}
			// make with a constant size: a slice of a fresh [16]Bit64
			good := false
			if r.Kind == KOp && r.Name == "slice" && r.Args[0].Kind == KAlloc && r.Args[0].Typ != nil {
				if p, isP := r.Args[0].Typ.(*types.Pointer); isP {
					if arr, isA := p.Elem().Underlying().(*types.Array); isA && arr.Len() == 16 {
						hi, isC := r.Args[2].intConst()
						good = r.Args[2].Name == "none" || (isC && hi == 16)
					}
				}
			}
			if !good {
				ok = false
			}
		}
		c.check(ok, "C08.operators", "NewBit1024", fn.Pos(), "16 words", "NewBit1024 does not allocate 16 words: block indices below 16 can be out of range")
	}
}

// ---------------------------------------------------------------------------------------------
// direction dispatch of the getNAs* helpers (shared with C09)

type dispatchSpec struct{ rel, typ, fn string }

func (c *Ctx) checkDirectionDispatch(rule string, specs []dispatchSpec) {
	for _, sp := range specs {
		fn := c.fn(sp.rel, sp.typ+"."+sp.fn)
		if fn == nil {
			fn = c.fn(sp.rel, "(*"+sp.typ+")."+sp.fn)
		}
		if fn == nil {
			c.undecided("anchor", sp.rel+"."+sp.typ+"."+sp.fn, 0, "helper not found")
			continue
		}
		name := sp.typ + "." + sp.fn
		noInl := func(callee *ssa.Function, depth int) bool { return false }
		traces, _ := c.Trace(fn, TraceConfig{Inline: noInl})
		ok, n := true, 0
		revParam := fn.Params[len(fn.Params)-1]
		boolFlag := false
		if bt, isB := revParam.Type().Underlying().(*types.Basic); isB && bt.Kind() == types.Bool {
			boolFlag = true
		}
		if !boolFlag {
			// the direction is a named option (ascending / descending) rather than a positional bool: the pairing is
			// judged end to end below, from each exported wrapper to the iterator it reaches
			traces = nil
			n = -1
		}
		for _, t := range traces {
			facts := t.factsBefore(len(t.Events))
			rev, known := boolFact(facts, &Sym{Kind: KParam, Ref: revParam, Typ: revParam.Type()})
			for i, e := range t.Events {
				if e.Kind == EvCall && e.Method != nil && strings.Contains(e.Method.Name(), "IterAs") {
					n++
					isR := strings.HasPrefix(e.Method.Name(), "R")
					if (!known || isR != rev) && ok {
						ok = false
						c.violated(rule, name, e.Pos, fmt.Sprintf("with reverse=%v the helper calls %s: forward requests are answered in descending order and reverse requests in ascending order", rev, e.Method.Name()), c.witness(t, i)...)
					}
				}
			}
		}
		if n < 0 {
			c.holds(rule, name, fn.Pos(), "direction option: judged from the exported wrappers")
		} else if ok && n > 0 {
			c.holds(rule, name, fn.Pos(), "reverse=true -> R-iterator, reverse=false -> forward iterator")
		} else if n == 0 {
			c.undecided(rule, name, fn.Pos(), "no iterator call found")
		}
		// the exported wrappers pass the matching constant
		named := c.namedType(sp.rel, sp.typ)
		if named == nil {
			continue
		}
		suffix := strings.TrimPrefix(sp.fn, "getN")
		for _, w := range []struct {
			name string
			rev  bool
		}{{"GetN" + suffix, false}, {"RGetN" + suffix, true}} {
			wf := c.fn(sp.rel, sp.typ+"."+w.name)
			if wf == nil {
				wf = c.fn(sp.rel, "(*"+sp.typ+")."+w.name)
			}
			if wf == nil {
				continue
			}
			var ts []*Trace
			good := true
			if boolFlag {
				ts, _ = c.Trace(wf, TraceConfig{Inline: noInl})
				good = len(ts) > 0
				for _, t := range ts {
					found := false
					for _, e := range t.Events {
						if e.Kind == EvCall && e.Callee == fn {
							found = true
							b, isB := e.Args[len(e.Args)-1].boolConst()
							if !isB || b != w.rev {
								good = false
							}
						}
					}
					if !found {
						good = false
					}
				}
			} else {
				// end to end: with the helper expanded, GetN* reaches only forward iterators and RGetN* only R-iterators
				onlyHelper := func(callee *ssa.Function, depth int) bool { return callee == fn }
				ts, _ = c.Trace(wf, TraceConfig{Inline: onlyHelper})
				reached := 0
				for _, t := range ts {
					for _, e := range t.Events {
						if e.Kind == EvCall && e.Method != nil && strings.Contains(e.Method.Name(), "IterAs") {
							reached++
							if strings.HasPrefix(e.Method.Name(), "R") != w.rev {
								good = false
							}
						}
					}
				}
				if reached == 0 {
					good = false
				}
			}
			c.check(good, rule, sp.typ+"."+w.name, wf.Pos(), "", fmt.Sprintf("%s does not call %s with reverse=%v", w.name, sp.fn, w.rev))
		}
	}
}

// stripWidening looks through value-preserving integer conversions (int16 -> int32, uint8 -> int, ...).
func stripWidening(s *Sym) *Sym {
	for s.Kind == KConv && s.Name == "convert" && len(s.Args) == 1 && s.Typ != nil && s.Args[0].Typ != nil {
		dst, ok1 := s.Typ.Underlying().(*types.Basic)
		src, ok2 := s.Args[0].Typ.Underlying().(*types.Basic)
		if !ok1 || !ok2 || dst.Info()&types.IsInteger == 0 || src.Info()&types.IsInteger == 0 {
			break
		}
		size := func(b *types.Basic) int {
			switch b.Kind() {
			case types.Int8, types.Uint8:
				return 8
			case types.Int16, types.Uint16:
				return 16
			case types.Int32, types.Uint32:
				return 32
			case types.Int64, types.Uint64:
				return 64
			}
			return 0 // int, uint, uintptr: platform dependent, not looked through
		}
		ds, ss := size(dst), size(src)
		du, su := dst.Info()&types.IsUnsigned != 0, src.Info()&types.IsUnsigned != 0
		if ds == 0 || ss == 0 {
			break
		}
		if (du == su && ds >= ss) || (su && !du && ds > ss) {
			s = s.Args[0]
			continue
		}
		break
	}
	return s
}
