package main

import (
	"fmt"
	"go/token"
	"go/types"
	"sort"
	"strings"

	"golang.org/x/tools/go/ssa"
)

func init() {
	register(&Property{
		ID:       "C10",
		Patterns: []string{"./bytex"},
		Explanation: "Decides on every path of the typed stream codec: (1) codec pairs — every WriteX/ReadX pair of BufferX uses the matching encoding/binary primitive on the same byte order with the same width (array length), matching signed<->unsigned conversions, Float64bits<->Float64frombits, bool 0/1 <-> !=0, strings as u32 length + exactly that many bytes, varints through the matching binary functions; " +
			"(2) sibling agreement — each ReaderX decoder uses the same primitives, widths and rejecting guards as the BufferX decoder of the same name; (3) short-read discipline — the stream reader must not treat a short count of a single io.Reader.Read as end of data (io.ReadFull / ReadAtLeast / a retry loop are accepted); " +
			"(4) length-prefix acceptance — a decoded string length may be rejected only against the caller's limit or the delivered byte count, never against a constant that excludes 0 (the empty string is a legal value); (5) errors of the underlying read are never swallowed: on the path where the read failed the decoder returns that error (fixed-width decoders with the zero value); (6) ReWrite copies with the builtin copy into the existing unread region (cannot grow or shift it). " +
			"NOT decided: panics for an invalid ReWrite position, int(uint32) on 32-bit platforms, allocation size for hostile lengths, full round-trip equality over all value sequences (follows from encoding/binary's own round trip plus these pairings).",
		Assumptions: []string{"encoding/binary and math.Float64bits round-trip", "io.ReadFull's contract"},
		Floors:      map[string]int{"C10.codec-pair": 25, "C10.sibling": 10, "C10.short-read": 3, "C10.length-prefix": 4, "C10.error-not-swallowed": 20, "C10.rewrite": 1},
		Run:         runC10,
	})
}

func runC10(c *Ctx) {
	const rel = "bytex"
	inl := func(callee *ssa.Function, depth int) bool {
		return depth <= 6 && c.fnInModule(callee) && callee.Pkg != nil && strings.HasSuffix(callee.Pkg.Pkg.Path(), "/bytex")
	}
	cfg := TraceConfig{Inline: inl}
	// signature of a function: the set of encoding primitives it (transitively) uses, with widths
	// sliceLen: number of bytes of a slice expression over a local array (buf[:], buf[:2], buf[1:3]); -1 if unknown
	sliceLen := func(a *Sym) int64 {
		if a == nil || a.Kind != KOp || a.Name != "slice" || len(a.Args) < 3 {
			return -1
		}
		r := a.Args[0].root()
		if r == nil || r.Kind != KAlloc || r.Typ == nil {
			return -1
		}
		p, ok := r.Typ.(*types.Pointer)
		if !ok {
			return -1
		}
		arr, ok := p.Elem().Underlying().(*types.Array)
		if !ok {
			return -1
		}
		lo, hi := int64(0), arr.Len()
		if a.Args[1].Name != "none" {
			v, isC := a.Args[1].intConst()
			if !isC {
				return -1
			}
			lo = v
		}
		if a.Args[2].Name != "none" {
			v, isC := a.Args[2].intConst()
			if !isC {
				return -1
			}
			hi = v
		}
		return hi - lo
	}
	isTransfer := func(n string) bool {
		switch n {
		case "(*bytes.Buffer).Write", "(*bytes.Buffer).Read", "io.ReadFull", "io.ReadAtLeast", "(io.Reader).Read", "(io.Writer).Write":
			return true
		}
		return false
	}
	prim := func(t *Trace, e *Event) string {
		if e.Kind != EvCall {
			return ""
		}
		n := e.callName()
		short := ""
		switch {
		case strings.HasPrefix(n, "(encoding/binary."):
			short = strings.TrimPrefix(n, "(encoding/binary.")
			short = strings.Replace(short, ")", "", 1)
			// width tag: the number of bytes of the scratch array that travel to / from the buffer on this path
			// (the slice handed to Write / Read / io.ReadFull); the slice handed to the binary call if none does
			for _, a := range e.Args {
				r := a.root()
				if r == nil || r.Kind != KAlloc || sliceLen(a) < 0 {
					continue
				}
				w := int64(-1)
				for _, y := range t.Events {
					if y.Kind != EvCall || !isTransfer(y.callName()) {
						continue
					}
					for _, ya := range y.Args {
						if yr := ya.root(); yr != nil && yr.Key() == r.Key() && sliceLen(ya) >= 0 {
							w = sliceLen(ya)
						}
					}
				}
				if w < 0 {
					w = sliceLen(a)
				}
				short += fmt.Sprintf("[%d]", w)
			}
		case strings.HasPrefix(n, "encoding/binary."):
			short = strings.TrimPrefix(n, "encoding/binary.")
		case n == "math.Float64bits" || n == "math.Float64frombits":
			short = n
		case n == "(*bytes.Buffer).Next", n == "(*bytes.Buffer).WriteString", n == "(*bytes.Buffer).WriteByte", n == "(*bytes.Buffer).ReadByte", n == "io.ReadFull", n == "io.ReadAtLeast":
			short = n
		}
		return short
	}
	type sig struct {
		prims []string
		convs []string // integer conversions applied to values (signed<->unsigned)
	}
	sigOf := func(fn *ssa.Function) sig {
		traces, _ := c.Trace(fn, cfg)
		ps, cs := map[string]bool{}, map[string]bool{}
		for _, t := range traces {
			for _, e := range t.Events {
				if s := prim(t, e); s != "" {
					ps[s] = true
				}
				for _, a := range e.Args {
					if a == nil {
						continue
					}
					a.walk(func(x *Sym) {
						if x.Kind == KConv && x.Name == "convert" && x.Typ != nil && x.Args[0].Typ != nil {
							cs[typeStr(x.Args[0].Typ)+"->"+typeStr(x.Typ)] = true
						}
					})
				}
			}
			for _, r := range t.Ret {
				r.walk(func(x *Sym) {
					if x.Kind == KConv && x.Name == "convert" && x.Typ != nil && x.Args[0].Typ != nil {
						cs[typeStr(x.Args[0].Typ)+"->"+typeStr(x.Typ)] = true
					}
				})
			}
		}
		var s sig
		for k := range ps {
			s.prims = append(s.prims, k)
		}
		for k := range cs {
			s.convs = append(s.convs, k)
		}
		sort.Strings(s.prims)
		sort.Strings(s.convs)
		return s
	}
	hasAll := func(have []string, want ...string) (bool, string) {
		for _, w := range want {
			found := false
			for _, h := range have {
				if h == w {
					found = true
				}
			}
			if !found {
				return false, w
			}
		}
		return true, ""
	}

	// (1) codec pairs of BufferX
	type pair struct {
		name         string
		wPrims       []string
		rPrims       []string
		wConv, rConv string
	}
	pairs := []pair{
		{"U16", []string{"littleEndian.PutUint16[2]"}, []string{"littleEndian.Uint16[2]"}, "", ""},
		{"I16", []string{"littleEndian.PutUint16[2]"}, []string{"littleEndian.Uint16[2]"}, "int16->uint16", "uint16->int16"},
		{"U32", []string{"littleEndian.PutUint32[4]"}, []string{"littleEndian.Uint32[4]"}, "", ""},
		{"I32", []string{"littleEndian.PutUint32[4]"}, []string{"littleEndian.Uint32[4]"}, "int32->uint32", "uint32->int32"},
		{"U64", []string{"littleEndian.PutUint64[8]"}, []string{"littleEndian.Uint64[8]"}, "", ""},
		{"I64", []string{"littleEndian.PutUint64[8]"}, []string{"littleEndian.Uint64[8]"}, "int64->uint64", "uint64->int64"},
		{"F64", []string{"littleEndian.PutUint64[8]", "math.Float64bits"}, []string{"littleEndian.Uint64[8]", "math.Float64frombits"}, "", ""},
		{"VarU64", []string{"PutUvarint"}, []string{"ReadUvarint"}, "", ""},
		{"VarI64", []string{"PutVarint"}, []string{"ReadVarint"}, "", ""},
		{"VarU32", []string{"PutUvarint"}, []string{"ReadUvarint"}, "uint32->uint64", "uint64->uint32"},
		{"VarI32", []string{"PutVarint"}, []string{"ReadVarint"}, "int32->int64", "int64->int32"},
		{"U8", []string{"(*bytes.Buffer).WriteByte"}, []string{"(*bytes.Buffer).ReadByte"}, "", ""},
		{"Bool", []string{"(*bytes.Buffer).WriteByte"}, []string{"(*bytes.Buffer).ReadByte"}, "", ""},
		{"String", []string{"littleEndian.PutUint32[4]", "(*bytes.Buffer).WriteString"}, []string{"littleEndian.Uint32[4]", "(*bytes.Buffer).Next"}, "", ""},
		{"LimitString", []string{"littleEndian.PutUint32[4]", "(*bytes.Buffer).WriteString"}, []string{"littleEndian.Uint32[4]", "(*bytes.Buffer).Next"}, "", ""},
	}
	bufSigs := map[string]sig{}
	for _, p := range pairs {
		w, r := c.mustFn(rel, "(*BufferX).Write"+p.name), c.mustFn(rel, "(*BufferX).Read"+p.name)
		if w == nil || r == nil {
			continue
		}
		ws, rs := sigOf(w), sigOf(r)
		bufSigs["Read"+p.name] = rs
		var problems []string
		if ok, miss := hasAll(ws.prims, p.wPrims...); !ok {
			problems = append(problems, "writer lacks "+miss+" (has "+strings.Join(ws.prims, ",")+")")
		}
		if ok, miss := hasAll(rs.prims, p.rPrims...); !ok {
			problems = append(problems, "reader lacks "+miss+" (has "+strings.Join(rs.prims, ",")+")")
		}
		// no foreign binary primitive (other width / byte order)
		for _, h := range ws.prims {
			if (strings.Contains(h, "Endian.") || strings.Contains(h, "varint")) && !contains(p.wPrims, h) {
				problems = append(problems, "writer also uses "+h)
			}
		}
		for _, h := range rs.prims {
			if (strings.Contains(h, "Endian.") || strings.Contains(h, "varint")) && !contains(p.rPrims, h) {
				problems = append(problems, "reader also uses "+h)
			}
		}
		if p.wConv != "" && !contains(ws.convs, p.wConv) {
			problems = append(problems, "writer lacks conversion "+p.wConv)
		}
		if p.rConv != "" && !contains(rs.convs, p.rConv) {
			problems = append(problems, "reader lacks conversion "+p.rConv)
		}
		c.check(len(problems) == 0, "C10.codec-pair", "BufferX "+p.name, r.Pos(), strings.Join(ws.prims, ",")+" <-> "+strings.Join(rs.prims, ","), "Write"+p.name+" and Read"+p.name+" do not agree on width / byte order / conversion: "+strings.Join(problems, "; "))
	}
	// the in-place rewrite of a 32-bit value uses the encoding ReadU32 decodes
	if rw := c.mustFn(rel, "(*BufferX).ReWriteU32"); rw != nil {
		ws := sigOf(rw)
		var problems []string
		if ok, miss := hasAll(ws.prims, "littleEndian.PutUint32[4]"); !ok {
			problems = append(problems, "lacks "+miss+" (has "+strings.Join(ws.prims, ",")+")")
		}
		for _, h := range ws.prims {
			if strings.Contains(h, "Endian.") && h != "littleEndian.PutUint32[4]" {
				problems = append(problems, "also uses "+h)
			}
		}
		c.check(len(problems) == 0, "C10.codec-pair", "BufferX ReWriteU32", rw.Pos(), "PutUint32 little-endian, 4 bytes", "ReWriteU32 does not write the 4-byte little-endian form that WriteU32 writes and ReadU32 reads: a length or checksum patched in place decodes as another number: "+strings.Join(problems, "; "))
	}
	// a new write buffer is empty: bytes pre-allocated for capacity must not be readable content
	for _, ctor := range []string{"NewBufferX", "NewSizedBufferX"} {
		fn := c.mustFn(rel, ctor)
		if fn == nil {
			continue
		}
		traces, _ := c.Trace(fn, TraceConfig{Inline: func(*ssa.Function, int) bool { return false }})
		good, n := true, 0
		for _, t := range traces {
			if t.End != EndReturn {
				continue
			}
			n++
			var nb *Event
			reset := false
			for _, e := range t.Events {
				if e.Kind == EvCall && e.callName() == "bytes.NewBuffer" {
					nb = e
				}
				if e.Kind == EvCall && e.callName() == "(*bytes.Buffer).Reset" && nb != nil && e.Args[0].Key() == nb.Res.Key() {
					reset = true
				}
			}
			if nb == nil {
				continue // built some other way (e.g. new(bytes.Buffer)): empty by construction
			}
			empty := false
			if a := nb.Args[0]; a.isNilConst() {
				empty = true
			} else if r := a.root(); r != nil && r.Kind == KAlloc && len(r.Args) == 2 {
				if k, isK := r.Args[0].intConst(); isK && k == 0 && a.Kind == KAlloc {
					empty = true // make([]byte, 0, n)
				}
			}
			if !(empty || reset) {
				good = false
			}
		}
		c.check(good && n > 0, "C10.codec-pair", "bytex."+ctor+" empty", fn.Pos(), "the new buffer has no readable content", ctor+" hands out a buffer whose pre-allocated bytes are readable content: the first reads return those zero bytes instead of the values written")
	}
	// bool: writer writes 1/0, reader tests != 0 ; string: length = len(val), exactly that many bytes
	c.checkBoolString(cfg)
	// varint writers: the scratch slice handed to PutUvarint / PutVarint holds the longest encoding of the value's
	// type (10 bytes for 64-bit values, 5 for values widened from 32 bits) — PutVarint panics beyond the slice
	for _, name := range []string{"WriteVarU64", "WriteVarI64", "WriteVarU32", "WriteVarI32"} {
		fn := c.mustFn(rel, "(*BufferX)."+name)
		if fn == nil {
			continue
		}
		traces, _ := c.Trace(fn, cfg)
		ok, n := true, 0
		for _, t := range traces {
			for i, e := range t.Events {
				if e.Kind != EvCall || (e.callName() != "encoding/binary.PutUvarint" && e.callName() != "encoding/binary.PutVarint") || len(e.Args) < 2 {
					continue
				}
				n++
				need := int64(10)
				if v := e.Args[1]; v.Kind == KConv && v.Name == "convert" && v.Args[0].Typ != nil {
					if b, isB := v.Args[0].Typ.Underlying().(*types.Basic); isB && (b.Kind() == types.Uint32 || b.Kind() == types.Int32) {
						need = 5
					}
				}
				have := sliceLen(e.Args[0])
				if (have < 0 || have < need) && ok {
					ok = false
					c.violated("C10.codec-pair", "BufferX "+name+" scratch", e.Pos, fmt.Sprintf("the scratch slice handed to %s has %d bytes but the longest encoding of the value needs %d: the writer panics for large values (index out of range) and nothing is written", e.callName(), have, need), c.witness(t, i)...)
				}
			}
		}
		if ok {
			c.check(n > 0, "C10.codec-pair", "BufferX "+name+" scratch", fn.Pos(), "scratch >= longest encoding", name+" does not encode through binary.PutUvarint/PutVarint")
		}
	}

	// (2) siblings: ReaderX decoders vs BufferX decoders
	for _, name := range []string{"ReadU16", "ReadI16", "ReadU32", "ReadI32", "ReadU64", "ReadI64", "ReadF64", "ReadBool", "ReadString", "ReadLimitString"} {
		rf := c.mustFn(rel, "(*ReaderX)."+name)
		if rf == nil {
			continue
		}
		rs := sigOf(rf)
		bs, ok := bufSigs[name]
		if !ok {
			if bf := c.fn(rel, "(*BufferX)."+name); bf != nil {
				bs = sigOf(bf)
			}
		}
		var problems []string
		for _, h := range bs.prims {
			if (strings.Contains(h, "Endian.") || strings.HasPrefix(h, "math.")) && !contains(rs.prims, h) {
				problems = append(problems, "stream reader lacks "+h)
			}
		}
		for _, h := range rs.prims {
			if (strings.Contains(h, "Endian.") || strings.HasPrefix(h, "math.")) && !contains(bs.prims, h) {
				problems = append(problems, "stream reader uses "+h)
			}
		}
		for _, cv := range bs.convs {
			if strings.Contains(cv, "int") && !strings.Contains(cv, "->int") || strings.HasPrefix(cv, "uint16->int16") || strings.HasPrefix(cv, "uint32->int32") || strings.HasPrefix(cv, "uint64->int64") {
				if (cv == "uint16->int16" || cv == "uint32->int32" || cv == "uint64->int64") && !contains(rs.convs, cv) {
					problems = append(problems, "stream reader lacks conversion "+cv)
				}
			}
		}
		c.check(len(problems) == 0, "C10.sibling", name, rf.Pos(), "same primitives as BufferX."+name, "the stream reader's "+name+" decodes differently from the buffer reader's: "+strings.Join(problems, "; "))
	}
	c.checkLimitGuards(cfg)

	// (3) short read
	c.checkShortRead(cfg)
	c.checkFullRead(cfg)
	// (4) length prefix
	c.checkLengthPrefix(cfg)
	// (5) errors not swallowed
	c.checkReadErrors(cfg)
	// (6) ReWrite
	if fn := c.mustFn(rel, "(*BufferX).ReWrite"); fn != nil {
		traces, _ := c.Trace(fn, cfg)
		ok, n := true, 0
		for _, t := range traces {
			copies, others := 0, 0
			for _, e := range t.Events {
				if e.Kind == EvCall && e.Val != nil && e.Val.Name == "builtin:copy" {
					copies++
					// destination: slice(Bytes(), pos, ...)
					d := e.Args[0]
					good := d.Kind == KOp && d.Name == "slice" && d.Args[1].Key() == t.Params[1].Key()
					if good {
						src := d.Args[0]
						isBytes := false
						for _, y := range t.Events {
							if y.Kind == EvCall && y.callName() == "(*bytes.Buffer).Bytes" && y.Res.Key() == src.Key() {
								isBytes = true
							}
						}
						good = isBytes && e.Args[1].Key() == t.Params[2].Key()
					}
					if !good {
						ok = false
					}
				}
				if e.Kind == EvCall && strings.HasPrefix(e.callName(), "(*bytes.Buffer).") && e.callName() != "(*bytes.Buffer).Bytes" {
					others++
				}
			}
			n++
			if copies != 1 || others != 0 {
				ok = false
			}
		}
		c.check(ok && n > 0, "C10.rewrite", "(*BufferX).ReWrite", fn.Pos(), "copy(buffer.Bytes()[pos:], p)", "ReWrite is not a plain copy into the unread region at the given position: it can change bytes other than the addressed ones or move the read position")
	}
}

func contains(l []string, s string) bool {
	for _, x := range l {
		if x == s {
			return true
		}
	}
	return false
}

func (c *Ctx) checkBoolString(cfg TraceConfig) {
	const rel = "bytex"
	if fn := c.mustFn(rel, "(*BufferX).WriteBool"); fn != nil {
		traces, _ := c.Trace(fn, cfg)
		ok := true
		for _, t := range traces {
			facts := t.factsBefore(len(t.Events))
			v, known := boolFact(facts, t.Params[1])
			for _, e := range t.Events {
				if e.Kind == EvCall && e.callName() == "(*bytes.Buffer).WriteByte" {
					b, isC := e.Args[1].intConst()
					if !isC || !known || (v && b == 0) || (!v && b != 0) {
						ok = false
					}
				}
			}
		}
		c.check(ok, "C10.codec-pair", "BufferX Bool values", fn.Pos(), "true->non-zero byte, false->0", "WriteBool does not write a non-zero byte for true and 0 for false (the reader tests != 0)")
	}
	for _, typ := range []string{"BufferX", "ReaderX"} {
		if fn := c.mustFn(rel, "(*"+typ+").ReadBool"); fn != nil {
			traces, _ := c.Trace(fn, cfg)
			ok, n := true, 0
			for _, t := range traces {
				if t.End != EndReturn || !t.Ret[1].isNilConst() {
					continue
				}
				n++
				r := t.Ret[0]
				if !(r.Kind == KBin && r.Op == token.NEQ) {
					ok = false
					continue
				}
				z, isC := r.Args[1].intConst()
				if !isC || z != 0 {
					ok = false
				}
			}
			c.check(ok && n > 0, "C10.codec-pair", typ+" ReadBool value", fn.Pos(), "byte != 0", "ReadBool does not decode the byte as `!= 0`")
		}
	}
	for _, name := range []string{"WriteString", "WriteLimitString"} {
		if fn := c.mustFn(rel, "(*BufferX)."+name); fn != nil {
			traces, _ := c.Trace(fn, cfg)
			ok, n := true, 0
			for _, t := range traces {
				val := t.Params[len(t.Params)-1]
				var lenWritten *Sym
				wrote := false
				for _, e := range t.Events {
					if e.Kind == EvCall && strings.HasSuffix(e.callName(), "littleEndian).PutUint32") {
						lenWritten = e.Args[len(e.Args)-1]
					}
					if e.Kind == EvCall && e.callName() == "(*bytes.Buffer).WriteString" && e.Args[1].Key() == val.Key() {
						wrote = true
					}
				}
				if lenWritten == nil && !wrote {
					continue // refused by the limit
				}
				n++
				want := lf(&Sym{Kind: KOp, Name: "len", Args: []*Sym{val}})
				if lenWritten == nil || !wrote || !lf(lenWritten).equal(want) {
					ok = false
				}
			}
			c.check(ok && n > 0, "C10.codec-pair", "BufferX "+name+" framing", fn.Pos(), "u32(len(val)) then val", name+" does not write the string as its exact length followed by its bytes")
		}
	}
}

// checkLimitGuards: ReadLimitString rejects exactly under n > limit in both readers; the bytes taken are n.
func (c *Ctx) checkLimitGuards(cfg TraceConfig) {
	const rel = "bytex"
	for _, typ := range []string{"BufferX", "ReaderX"} {
		for _, name := range []string{"ReadLimitString", "ReadString"} {
			fn := c.mustFn(rel, "(*"+typ+")."+name)
			if fn == nil {
				continue
			}
			traces, _ := c.Trace(fn, cfg)
			ok, n := true, 0
			cons := "(*" + typ + ")." + name
			for _, t := range traces {
				if t.End != EndReturn {
					continue
				}
				// the decoded length
				var u32 *Sym
				for _, e := range t.Events {
					if e.Kind == EvCall && strings.HasSuffix(e.callName(), "littleEndian).Uint32") {
						u32 = e.Res
					}
				}
				if u32 == nil {
					continue
				}
				facts := t.factsBefore(len(t.Events))
				err := t.Ret[1]
				isSizeErr := err.Kind == KInit && err.Args[0].Kind == KGlobal && err.Args[0].Ref.(*ssa.Global).Name() == "ErrSizeLimit"
				if name == "ReadLimitString" {
					over := hasFact(facts, func(f Fact) bool {
						return boundKey(f.X) == boundKey(u32) && f.Op == token.GTR && f.Y.Key() == t.Params[1].Key()
					})
					within := hasFact(facts, func(f Fact) bool {
						return boundKey(f.X) == boundKey(u32) && f.Op == token.LEQ && f.Y.Key() == t.Params[1].Key()
					})
					if isSizeErr != over && ok {
						ok = false
						c.violated("C10.sibling", cons+" limit", fn.Pos(), "ErrSizeLimit is not returned exactly when the decoded length exceeds the caller's limit", c.witness(t, len(t.Events)-1)...)
					}
					if err.isNilConst() && !within && ok {
						ok = false
						c.violated("C10.sibling", cons+" limit", fn.Pos(), "a size-limited string is returned without `n <= limit` established: the limit check was dropped on this reader", c.witness(t, len(t.Events)-1)...)
					}
				}
				if err.isNilConst() {
					n++
					// the number of bytes requested equals the decoded length
					req := false
					for _, e := range t.Events {
						if e.Kind == EvCall && (e.callName() == "(*bytes.Buffer).Next" || e.callName() == "io.ReadFull" || e.callName() == "io.ReadAtLeast" || e.callName() == "(io.Reader).Read") {
							for _, a := range e.Args {
								if boundKey(a) == boundKey(u32) {
									req = true
								}
								if a.Kind == KOp && a.Name == "slice" || a.root().Kind == KAlloc && len(a.root().Args) == 2 {
									if r := a.root(); len(r.Args) == 2 && boundKey(r.Args[0]) == boundKey(u32) {
										req = true
									}
								}
							}
						}
					}
					// zero-length strings legitimately read nothing
					zero := hasFact(facts, func(f Fact) bool {
						z, isz := f.Y.intConst()
						return boundKey(f.X) == boundKey(u32) && isz && z == 0 && (f.Op == token.EQL || f.Op == token.LEQ)
					})
					if !req && !zero && ok {
						ok = false
						c.violated("C10.sibling", cons+" limit", fn.Pos(), "the number of bytes taken for the string is not the decoded length", c.witness(t, len(t.Events)-1)...)
					}
				}
			}
			if ok && n > 0 {
				c.holds("C10.sibling", cons+" limit", fn.Pos(), "")
			}
		}
	}
}

// checkShortRead: rule 3.
func (c *Ctx) checkShortRead(cfg TraceConfig) {
	const rel = "bytex"
	fn := c.mustFn(rel, "(*ReaderX).Read")
	if fn == nil {
		return
	}
	cons := "(*bytex.ReaderX).Read"
	traces, _ := c.Trace(fn, cfg)
	ok, nread := true, 0
	for _, t := range traces {
		for i, e := range t.Events {
			if e.Kind == EvCall && (e.callName() == "io.ReadFull" || e.callName() == "io.ReadAtLeast") {
				nread++
			}
			if e.Kind == EvCall && e.callName() == "(io.Reader).Read" {
				nread++
				if e.Gen {
					continue // inside a retry loop
				}
				// a single Read: is a short count turned into an error?
				cnt := e.Res.Args[0]
				facts := t.factsBefore(len(t.Events))
				short := hasFact(facts, func(f Fact) bool {
					return f.X.Key() == cnt.Key() && (f.Op == token.NEQ || f.Op == token.LSS)
				})
				retried := false
				for _, y := range t.Events[i+1:] {
					if y.Kind == EvCall && y.callName() == "(io.Reader).Read" {
						retried = true
					}
				}
				if short && !retried && t.End == EndReturn && !t.Ret[0].isNilConst() && ok {
					ok = false
					c.violated("C10.short-read", cons, e.Pos, "a short count from a single io.Reader.Read is reported as an error (end of data): io.Reader may legally return fewer bytes than requested, so any fragmenting source (a TCP connection, a 1-byte-at-a-time reader) breaks every typed read although the data is complete", c.witness(t, len(t.Events)-1)...)
				}
			}
		}
	}
	if nread == 0 {
		c.undecided("C10.short-read", cons, fn.Pos(), "no read of the underlying io.Reader found")
	} else if ok {
		c.holds("C10.short-read", cons, fn.Pos(), "reads until the buffer is full (io.ReadFull or retry)")
	}
}

// checkFullRead: a Read of the typed codec succeeds only when the whole requested buffer was filled
// (a short count from the underlying buffer is truncated input and must be an error, not a zero-padded value).
func (c *Ctx) checkFullRead(cfg TraceConfig) {
	const rel = "bytex"
	for _, typ := range []string{"BufferX", "ReaderX"} {
		fn := c.mustFn(rel, "(*"+typ+").Read")
		if fn == nil {
			continue
		}
		cons := "(*bytex." + typ + ").Read full"
		traces, _ := c.Trace(fn, cfg)
		ok, n := true, 0
		lenP := &Sym{Kind: KOp, Name: "len", Args: []*Sym{{Kind: KParam, Ref: fn.Params[1], Typ: fn.Params[1].Type()}}, Typ: types.Typ[types.Int]}
		for _, t := range traces {
			if t.End != EndReturn || !t.Ret[0].isNilConst() {
				continue
			}
			facts := t.factsBefore(len(t.Events))
			var rd *Event
			for _, e := range t.Events {
				if e.Kind == EvCall && (e.callName() == "(*bytes.Buffer).Read" || e.callName() == "(io.Reader).Read") {
					rd = e
				}
			}
			if rd == nil {
				continue // len(p)==0 early return, or io.ReadFull whose error is the result
			}
			n++
			cnt := rd.Res.Args[0]
			full := hasFact(facts, func(f Fact) bool {
				return f.X.Key() == cnt.Key() && f.Op == token.EQL && f.Y.Key() == lenP.Key()
			}) || hasFact(facts, func(f Fact) bool {
				return f.X.Key() == cnt.Key() && f.Op == token.GEQ && f.Y.Key() == lenP.Key()
			})
			if !full && ok {
				ok = false
				c.violated("C10.short-read", cons, rd.Pos, "Read reports success without the delivered count having been found equal to the requested length: input truncated inside a fixed-width value decodes as a zero-padded value with a nil error (and the two readers disagree on the same bytes)", c.witness(t, len(t.Events)-1)...)
			}
		}
		if ok {
			c.holds("C10.short-read", cons, fn.Pos(), fmt.Sprintf("%d success paths, each under count == len(p)", n))
		}
	}
}

// checkLengthPrefix: rule 4.
func (c *Ctx) checkLengthPrefix(cfg TraceConfig) {
	const rel = "bytex"
	for _, typ := range []string{"BufferX", "ReaderX"} {
		for _, name := range []string{"ReadString", "ReadLimitString"} {
			fn := c.mustFn(rel, "(*"+typ+")."+name)
			if fn == nil {
				continue
			}
			cons := "(*" + typ + ")." + name
			traces, _ := c.Trace(fn, cfg)
			ok, n := true, 0
			for _, t := range traces {
				if t.End != EndReturn {
					continue
				}
				var u32 *Sym
				for _, e := range t.Events {
					if e.Kind == EvCall && strings.HasSuffix(e.callName(), "littleEndian).Uint32") {
						u32 = e.Res
					}
				}
				if u32 == nil {
					continue
				}
				n++
				if t.Ret[1].isNilConst() {
					continue
				}
				// rejected: the facts about the decoded length that are satisfiable by 0
				facts := t.factsBefore(len(t.Events))
				rejZero := false
				var pos token.Pos
				for _, f := range facts {
					if boundKey(f.X) != boundKey(u32) {
						continue
					}
					if _, isz := f.Y.intConst(); !isz {
						continue
					}
					// the value range of the decoded length on this path (uint32 -> int is value preserving on 64-bit)
					r := c.newRanger(t, len(t.Events))
					v := r.Eval(f.X)
					if v.lo != nil && v.hi != nil && v.lo.Cmp(v.hi) > 0 {
						rejZero = false // infeasible path (e.g. n != 0 and n <= 0 for a non-negative n)
						break
					}
					if v.lo != nil && v.lo.Sign() <= 0 && (v.hi == nil || v.hi.Sign() >= 0) {
						rejZero = true
						pos = f.Pos
					}
				}
				// only a violation when this comparison is what rejects (the read itself did not fail)
				readFailed := false
				for _, e := range t.Events {
					if e.Kind == EvCall && (e.callName() == "io.ReadFull" || e.callName() == "(io.Reader).Read" || e.callName() == "(*bytes.Buffer).Read") && e.Res.Kind == KTuple {
						errv := e.Res.Args[1]
						if hasFact(facts, func(f Fact) bool { return f.X.Key() == errv.Key() && f.Op == token.NEQ && f.Y.isNilConst() }) {
							readFailed = true
						}
					}
				}
				// the length read itself failing is not about the value
				lenFailed := t.Ret[1].Kind != KInit
				_ = lenFailed
				isWrongNum := t.Ret[1].Kind == KInit && t.Ret[1].Args[0].Kind == KGlobal && t.Ret[1].Args[0].Ref.(*ssa.Global).Name() == "ErrReadWrongNum"
				if rejZero && !readFailed && isWrongNum && ok {
					ok = false
					c.violated("C10.length-prefix", cons, pos, "a decoded length of 0 is rejected against a constant (n <= 0): the empty string, which the writer encodes as length 0, cannot be read back — and the buffer reader accepts it, so the two readers disagree on the same bytes", c.witness(t, len(t.Events)-1)...)
				}
			}
			if ok && n > 0 {
				c.holds("C10.length-prefix", cons, fn.Pos(), "length rejected only against the limit / delivered bytes")
			}
		}
	}
}

// checkReadErrors: rule 5.
func (c *Ctx) checkReadErrors(cfg TraceConfig) {
	const rel = "bytex"
	for _, typ := range []string{"BufferX", "ReaderX"} {
		named := c.namedType(rel, typ)
		if named == nil {
			continue
		}
		for i := 0; i < named.NumMethods(); i++ {
			m := named.Method(i)
			if !m.Exported() || !strings.HasPrefix(m.Name(), "Read") && m.Name() != "ZReadN" {
				continue
			}
			sig := m.Type().(*types.Signature)
			if sig.Results().Len() == 0 {
				continue
			}
			if sig.Results().At(sig.Results().Len()-1).Type().String() != "error" {
				continue
			}
			fn := c.Prog.FuncValue(m)
			if fn == nil || len(fn.Blocks) == 0 {
				continue
			}
			cons := "(*" + typ + ")." + m.Name()
			traces, _ := c.Trace(fn, cfg)
			ok, n := true, 0
			for _, t := range traces {
				if t.End != EndReturn {
					continue
				}
				n++
				facts := t.factsBefore(len(t.Events))
				errRet := t.Ret[len(t.Ret)-1]
				for _, e := range t.Events {
					if e.Kind != EvCall || e.Res == nil {
						continue
					}
					isRead := strings.HasPrefix(e.callName(), "(*bytes.Buffer).Read") || e.callName() == "io.ReadFull" || e.callName() == "io.ReadAtLeast" || e.callName() == "(io.Reader).Read" || strings.HasPrefix(e.callName(), "encoding/binary.Read")
					if !isRead {
						continue
					}
					var errv *Sym
					if e.Res.Kind == KTuple {
						errv = e.Res.Args[len(e.Res.Args)-1]
					} else {
						errv = e.Res
					}
					failed := hasFact(facts, func(f Fact) bool { return f.X.Key() == errv.Key() && f.Op == token.NEQ && f.Y.isNilConst() })
					tested := failed || hasFact(facts, func(f Fact) bool { return f.X.Key() == errv.Key() && f.Op == token.EQL && f.Y.isNilConst() })
					if failed && errRet.isNilConst() && ok {
						ok = false
						c.violated("C10.error-not-swallowed", cons, e.Pos, "the underlying read failed on this path but the decoder returns a nil error: a value is reported from truncated input", c.witness(t, len(t.Events)-1)...)
					}
					mentioned := false
					for _, f := range facts {
						if f.X.Key() == errv.Key() || f.Y.Key() == errv.Key() {
							mentioned = true
							// err == <sentinel>: the read failed in a specific way; the result must still be an error
							if f.Op == token.EQL && !f.Y.isNilConst() && !f.X.isNilConst() {
								if errRet.isNilConst() && ok {
									ok = false
									c.violated("C10.error-not-swallowed", cons, e.Pos, "a specific read failure is turned into success", c.witness(t, len(t.Events)-1)...)
								}
							}
						}
					}
					if !tested && !mentioned && errRet.Key() != errv.Key() && ok {
						// the error is neither examined nor passed on
						ok = false
						c.violated("C10.error-not-swallowed", cons, e.Pos, "the error of the underlying read is neither examined nor returned", c.witness(t, len(t.Events)-1)...)
					}
					if failed && len(t.Ret) == 2 {
						// fixed-width decoders return the zero value with the error
						v := t.Ret[0]
						if b, isB := v.Typ.(*types.Basic); isB && b.Info()&types.IsNumeric != 0 {
							if z, isC := v.intConst(); !(isC && z == 0) && v.Kind != KConv && ok {
								zeroBits := false
								for _, y := range t.Events {
									if y.Kind == EvCall && y.callName() == "math.Float64frombits" && y.Res.Key() == v.Key() {
										if z, isC := y.Args[0].intConst(); isC && z == 0 {
											zeroBits = true
										}
									}
								}
								if !(v.Kind == KConst) && !zeroBits {
									ok = false
									c.violated("C10.error-not-swallowed", cons, e.Pos, "a failed read returns a non-zero value next to the error: "+c.short(v.Key()), c.witness(t, len(t.Events)-1)...)
								}
							}
						}
					}
				}
			}
			if ok && n > 0 {
				c.holds("C10.error-not-swallowed", cons, fn.Pos(), "")
			}
		}
	}
}
