package main

import (
	"fmt"
	"go/token"
	"go/types"
	"os"
	"regexp"
	"runtime"
	"sort"
	"strings"

	"golang.org/x/tools/go/ssa"
)

func init() {
	register(&Property{
		ID:       "C11",
		Patterns: []string{"./tex", "bytes"},
		Explanation: "Compares every method and constructor that tex.Buffer has in common with the bytes.Buffer of the analysing toolchain's GOROOT (both type-checked from source): for each one the set of normalised path signatures — guards, stores to buf/off/lastRead with their right-hand sides, calls of the own helpers and of the standard library with their arguments, panics with their messages, returned values — must be equal (helper calls are kept opaque on both sides so the comparison is per method). " +
			"Declared deviations, each a single named construct: the reallocating branch of grow (capacity policy: excluded by the property), the encode-then-reslice idiom of WriteRune's multi-byte branch versus utf8.AppendRune (checked against its own specification instead), and the methods tex does not have. " +
			"Additionally (2) no narrowing conversion to byte without an established range [0,255] (interval evaluation), (3) ReWrite is exactly copy(b.buf[pos:], p) and NewSizedBuffer allocates `size` bytes and resets to an empty buffer. " +
			"NOT decided: observational equivalence over whole operation sequences (follows from per-method agreement on identical state, informally); Cap().",
		Assumptions: []string{"the reference is the bytes package of the Go toolchain that runs the check (recorded in the evidence)"},
		Floors:      map[string]int{"C11.sibling": 24, "C11.narrowing": 1, "C11.additions": 2, "C11.writerune": 1},
		Run:         runC11,
	})
}

var (
	reFresh = regexp.MustCompile(`\?([a-z]+)(\d+)`)
	reNew   = regexp.MustCompile(`\bnew(\d+)\b`)
	reGen   = regexp.MustCompile(`#(\d+)`)
)

// pathSignature renders one trace as (effects, guards): effects = the ordered opaque calls, the final
// value of every field/element cell written, the panic value, the returned values (integer values in
// linear normal form); guards = the set of branch atoms of the path. Unknowns are renumbered in order
// of appearance so that the two implementations are comparable.
func (c *Ctx) pathSignature(t *Trace, pkgPath string, stopAt func(e *Event) bool) (string, []string) {
	short := pkgPath
	if i := strings.LastIndex(short, "/"); i >= 0 {
		short = short[i+1:]
	}
	// package qualifiers (full path in function names, package name in type strings) become "P."; text
	// inside string constants is left alone
	reQ := regexp.MustCompile(`(^|[^"A-Za-z0-9_/.])(` + regexp.QuoteMeta(pkgPath) + `|` + regexp.QuoteMeta(short) + `)\.`)
	norm := func(s string) string {
		return reQ.ReplaceAllString(s, "${1}P.")
	}
	val := func(v *Sym) string {
		if v == nil {
			return "<nil>"
		}
		if _, _, isInt := typeRange(v.Typ, "amd64"); isInt && v.Kind != KConst {
			return norm(lf(v).String())
		}
		if v.Kind == KBin || (v.Kind == KUn && v.Op == token.NOT) {
			// a comparison used as a value (return b.off >= len(b.buf)): same normal form as a guard
			switch v.Op {
			case token.EQL, token.NEQ, token.LSS, token.LEQ, token.GTR, token.GEQ, token.NOT:
				return norm(canonGuard(v, true))
			}
		}
		return norm(v.Key())
	}
	var parts, guards []string
	final := map[string]string{}
	var order []string
	for _, e := range t.Events {
		if stopAt != nil && stopAt(e) {
			parts = append(parts, "<deviation>")
			break
		}
		switch e.Kind {
		case EvStore:
			if e.Addr.Kind == KFieldAddr || (e.Addr.Kind == KIndexAddr && e.Addr.root().Kind != KAlloc) {
				k := norm(e.Addr.Key())
				if _, seen := final[k]; !seen {
					order = append(order, k)
				}
				final[k] = val(e.Val)
			}
		case EvCall:
			n := e.callName()
			if e.Val != nil && n == "" {
				n = e.Val.Key()
			}
			var as []string
			for _, a := range e.Args {
				as = append(as, val(a))
			}
			// a call observes the state: flush the pending final values before it
			for _, k := range order {
				parts = append(parts, "set "+k+" = "+final[k])
			}
			final, order = map[string]string{}, nil
			parts = append(parts, "call "+norm(n)+"("+strings.Join(as, ", ")+")")
		case EvBranch:
			guards = append(guards, norm(canonGuard(e.Cond, e.Taken)))
		case EvPanic:
			parts = append(parts, "panic "+norm(e.Args[0].Key()))
		case EvReturn:
			var as []string
			for _, a := range e.Args {
				as = append(as, val(a))
			}
			parts = append(parts, "return "+strings.Join(as, ", "))
		case EvLoopGen:
			parts = append(parts, "loop")
		case EvRecover:
			parts = append(parts, "recover")
		}
	}
	sort.Strings(order)
	for _, k := range order {
		parts = append(parts, "set "+k+" = "+final[k])
	}
	switch t.End {
	case EndPanic:
		parts = append(parts, "END panic")
	case EndCut:
		parts = append(parts, "END cut")
	}
	// renumber unknowns consistently over effects and guards
	all := strings.Join(parts, "\n") + "\x00" + strings.Join(guards, "\x01")
	for _, re := range []*regexp.Regexp{reFresh, reNew, reGen} {
		seen := map[string]int{}
		all = re.ReplaceAllStringFunc(all, func(m string) string {
			if _, ok := seen[m]; !ok {
				seen[m] = len(seen) + 1
			}
			sub := re.FindStringSubmatch(m)
			switch re {
			case reFresh:
				return fmt.Sprintf("?%s_%d", sub[1], seen[m])
			case reNew:
				return fmt.Sprintf("new_%d", seen[m])
			default:
				return fmt.Sprintf("#_%d", seen[m])
			}
		})
	}
	sp := strings.SplitN(all, "\x00", 2)
	var gs []string
	if len(sp) == 2 && sp[1] != "" {
		gs = strings.Split(sp[1], "\x01")
	}
	return sp[0], gs
}

func runC11(c *Ctx) {
	const rel = "tex"
	texPkg := c.pkg(rel)
	stdPkg := c.AllPkgs["bytes"]
	if texPkg == nil || stdPkg == nil {
		c.undecided("anchor", "tex / bytes", 0, "packages not loaded")
		return
	}
	c.Tables["reference"] = map[string]string{"GOROOT": runtime.GOROOT(), "go": runtime.Version()}
	texBuf := c.namedType(rel, "Buffer")
	stdObj := stdPkg.Types.Scope().Lookup("Buffer")
	if texBuf == nil || stdObj == nil {
		c.undecided("anchor", "Buffer", 0, "type not found")
		return
	}
	stdBuf := stdObj.Type().(*types.Named)
	noInl := func(callee *ssa.Function, depth int) bool { return false }
	// both sides get the same memory model: a call of a Buffer method that writes the buffer's fields
	// invalidates what the path knows about them (the standard library is otherwise treated as effect free)
	bufMethodWrites := func(e *Event) bool {
		return e.Callee != nil && recvNamedName(e.Callee) == "Buffer" && len(e.Callee.Blocks) > 0 && !c.pureModuleFn(e.Callee)
	}
	cfg := TraceConfig{Inline: noInl, Havoc: bufMethodWrites}
	deepCfg := TraceConfig{Havoc: bufMethodWrites, Inline: func(callee *ssa.Function, depth int) bool {
		if callee == nil || callee.Pkg == nil || depth > 4 {
			return false
		}
		if pp := callee.Pkg.Pkg.Path(); pp != "bytes" && pp != texPkg.PkgPath {
			return false
		}
		// the allocation helpers stay opaque: the capacity policy is excluded by the property
		return callee.Name() != "makeSlice" && callee.Name() != "growSlice"
	}}
	sigSet := func(fn *ssa.Function, pkgPath string, filter func(t *Trace) bool, stopAt func(e *Event) bool) map[string]bool {
		traces, complete := c.Trace(fn, cfg)
		if !complete {
			return nil
		}
		// effects -> guard atoms common to every path with these effects (so that a behaviour-preserving
		// split of one path into several does not change the signature)
		common := map[string]map[string]bool{}
		for _, t := range traces {
			if filter != nil && !filter(t) {
				continue
			}
			eff, guards := c.pathSignature(t, pkgPath, stopAt)
			gs := map[string]bool{}
			for _, g := range guards {
				gs[g] = true
			}
			if prev, ok := common[eff]; ok {
				for g := range prev {
					if !gs[g] {
						delete(prev, g)
					}
				}
			} else {
				common[eff] = gs
			}
		}
		out := map[string]bool{}
		for eff, gs := range common {
			var l []string
			for g := range gs {
				l = append(l, g)
			}
			sort.Strings(l)
			out["when "+strings.Join(l, " && ")+"\n"+eff] = true
		}
		return out
	}
	isRealloc := func(t *Trace) bool {
		for _, e := range t.Events {
			if e.Kind == EvCall && e.Callee != nil && (e.Callee.Name() == "growSlice" || e.Callee.Name() == "makeSlice") {
				return false
			}
		}
		return true
	}
	isRuneEnc := func(e *Event) bool {
		return e.Kind == EvCall && (e.callName() == "unicode/utf8.AppendRune" || e.callName() == "unicode/utf8.EncodeRune")
	}
	stdMethods := map[string]*ssa.Function{}
	for i := 0; i < stdBuf.NumMethods(); i++ {
		m := stdBuf.Method(i)
		if fn := c.Prog.FuncValue(m); fn != nil && len(fn.Blocks) > 0 {
			stdMethods[m.Name()] = fn
		}
	}
	var missing []string
	compared := []string{}
	for i := 0; i < texBuf.NumMethods(); i++ {
		m := texBuf.Method(i)
		fn := c.Prog.FuncValue(m)
		if fn == nil || len(fn.Blocks) == 0 {
			continue
		}
		sf := stdMethods[m.Name()]
		if sf == nil {
			missing = append(missing, m.Name())
			continue
		}
		cons := "Buffer." + m.Name()
		var filter func(t *Trace) bool
		var stopAt func(e *Event) bool
		dev := ""
		switch m.Name() {
		case "grow":
			filter, dev = isRealloc, " (reallocating branch excluded)"
		case "WriteRune":
			stopAt, dev = isRuneEnc, " (up to the rune encoding idiom)"
		}
		ts := sigSet(fn, texPkg.PkgPath, filter, stopAt)
		ss := sigSet(sf, "bytes", filter, stopAt)
		if ts == nil || ss == nil {
			c.undecided("C11.sibling", cons, fn.Pos(), "path budget exceeded")
			continue
		}
		compared = append(compared, m.Name())
		var onlyT, onlyS []string
		for k := range ts {
			if !ss[k] {
				onlyT = append(onlyT, k)
			}
		}
		for k := range ss {
			if !ts[k] {
				onlyS = append(onlyS, k)
			}
		}
		sort.Strings(onlyT)
		sort.Strings(onlyS)
		if len(onlyT) == 0 && len(onlyS) == 0 {
			c.holds("C11.sibling", cons, fn.Pos(), fmt.Sprintf("%d path signatures equal to bytes.Buffer.%s%s", len(ts), m.Name(), dev))
			continue
		}
		// second opinion: the same comparison with the buffer's own helpers expanded on both sides, so that code
		// moved between a method and its helpers (or a helper introduced or dissolved) compares equal
		saved := cfg
		cfg = deepCfg
		// with grow expanded into its callers its reallocating branch (excluded by the property) appears in every method
		deepFilter := func(t *Trace) bool { return isRealloc(t) && (filter == nil || filter(t)) }
		dt, ds := sigSet(fn, texPkg.PkgPath, deepFilter, stopAt), sigSet(sf, "bytes", deepFilter, stopAt)
		cfg = saved
		if dt != nil && ds != nil && len(dt) == len(ds) {
			same := true
			for k := range dt {
				if !ds[k] {
					same = false
				}
			}
			if same {
				c.holds("C11.sibling", cons, fn.Pos(), fmt.Sprintf("%d path signatures equal to bytes.Buffer.%s with the own helpers expanded%s", len(dt), m.Name(), dev))
				continue
			}
		}
		if os.Getenv("NEPDEBUG_C11") != "" {
			for k := range dt {
				if !ds[k] {
					fmt.Println("DEEP tex only:\n" + k)
				}
			}
			for k := range ds {
				if !dt[k] {
					fmt.Println("DEEP bytes only:\n" + k)
				}
			}
		}
		var w []string
		for _, k := range onlyT {
			w = append(w, "tex only:")
			w = append(w, strings.Split(k, "\n")...)
			break
		}
		for _, k := range onlyS {
			w = append(w, "bytes only:")
			w = append(w, strings.Split(k, "\n")...)
			break
		}
		c.violated("C11.sibling", cons, fn.Pos(), fmt.Sprintf("tex.Buffer.%s behaves differently from bytes.Buffer.%s: %d path signature(s) only in tex, %d only in bytes (first difference in the witness): for the same buffer state and arguments the two return different results, errors or panics, or leave different contents", m.Name(), m.Name(), len(onlyT), len(onlyS)), w...)
	}
	// constructors
	for _, name := range []string{"NewBuffer", "NewBufferString"} {
		tf, sf := c.fn(rel, name), c.Prog.Package(stdPkg.Types).Func(name)
		if tf == nil || sf == nil {
			continue
		}
		ts, ss := sigSet(tf, texPkg.PkgPath, nil, nil), sigSet(sf, "bytes", nil, nil)
		eq := len(ts) == len(ss)
		for k := range ts {
			if !ss[k] {
				eq = false
			}
		}
		if !eq {
			// second opinion with the own helpers (one constructor written through another) expanded
			saved := cfg
			cfg = deepCfg
			ts, ss = sigSet(tf, texPkg.PkgPath, nil, nil), sigSet(sf, "bytes", nil, nil)
			cfg = saved
			eq = ts != nil && ss != nil && len(ts) == len(ss)
			for k := range ts {
				if !ss[k] {
					eq = false
				}
			}
		}
		compared = append(compared, name)
		c.check(eq, "C11.sibling", name, tf.Pos(), "equal to bytes."+name, "tex."+name+" differs from bytes."+name)
	}
	sort.Strings(compared)
	sort.Strings(missing)
	c.Tables["compared"] = compared
	c.Tables["tex_only_methods"] = missing

	// WriteRune's own idiom: EncodeRune into buf[m:m+UTFMax], then buf = buf[:m+n], return n
	if fn := c.mustFn(rel, "(*Buffer).WriteRune"); fn != nil {
		buf := c.mustField(rel, "Buffer", "buf")
		traces, _ := c.Trace(fn, cfg)
		ok, n := true, 0
		for _, t := range traces {
			if t.End != EndReturn {
				continue
			}
			for i, e := range t.Events {
				if e.Kind == EvCall && e.callName() == "unicode/utf8.AppendRune" {
					n++
					// buf = AppendRune(buf[:m], r); return len(buf)-m
					continue
				}
				if e.Kind != EvCall || e.callName() != "unicode/utf8.EncodeRune" {
					continue
				}
				n++
				dst := e.Args[0]
				good := dst.Kind == KOp && dst.Name == "slice" && e.Args[1].Key() == t.Params[1].Key()
				var m *Sym
				if good {
					m = dst.Args[1]
					good = lf(dst.Args[2]).equal(lf(m).add(lfConst(4), 1))
				}
				// followed by buf = buf[:m+n] and return n
				stored := false
				for _, y := range t.Events[i+1:] {
					if y.Kind == EvStore && buf != nil && y.Addr.isFieldAddrOf(buf) {
						v := y.Val
						if v.Kind == KOp && v.Name == "slice" && m != nil && lf(v.Args[2]).equal(lf(m).add(lf(e.Res), 1)) {
							stored = true
						}
					}
				}
				if !(good && stored && t.Ret[0].Key() == e.Res.Key() && t.Ret[1].isNilConst()) && ok {
					ok = false
					c.violated("C11.writerune", "Buffer.WriteRune multi-byte", e.Pos, "the multi-byte branch does not encode into buf[m:m+4], cut the buffer to m+n and return n", c.witness(t, len(t.Events)-1)...)
				}
			}
		}
		if ok && n > 0 {
			c.holds("C11.writerune", "Buffer.WriteRune multi-byte", fn.Pos(), "EncodeRune(buf[m:m+4], r); buf = buf[:m+n]; return n, nil")
		} else if n == 0 {
			c.undecided("C11.writerune", "Buffer.WriteRune multi-byte", fn.Pos(), "no rune encoding call found")
		}
	}

	// (2) narrowing to byte
	for i := 0; i < texBuf.NumMethods(); i++ {
		fn := c.Prog.FuncValue(texBuf.Method(i))
		if fn == nil || len(fn.Blocks) == 0 {
			continue
		}
		traces, complete := c.Trace(fn, cfg)
		if !complete {
			continue
		}
		cons := "Buffer." + fn.Name()
		seen := map[string]bool{}
		for _, t := range traces {
			for i, e := range t.Events {
				var vals []*Sym
				vals = append(vals, e.Args...)
				if e.Kind == EvStore {
					vals = append(vals, e.Val)
				}
				for _, a := range vals {
					if a == nil {
						continue
					}
					a.walk(func(x *Sym) {
						if x.Kind != KConv || x.Name != "convert" || x.Typ == nil || seen[x.Key()] {
							return
						}
						b, isB := x.Typ.Underlying().(*types.Basic)
						if !isB || b.Kind() != types.Uint8 {
							return
						}
						if _, _, srcInt := typeRange(x.Args[0].Typ, c.GOARCH); !srcInt {
							return
						}
						seen[x.Key()] = true
						r := c.newRanger(t, i)
						v := r.Eval(x.Args[0])
						lo, hi, _ := typeRange(x.Typ, c.GOARCH)
						fits := v.lo != nil && v.hi != nil && v.lo.Cmp(lo) >= 0 && v.hi.Cmp(hi) <= 0
						if fits {
							c.holds("C11.narrowing", cons, e.Pos, "")
						} else {
							c.violated("C11.narrowing", cons, e.Pos, fmt.Sprintf("%s (range %s) is converted to byte without its range being established: a negative rune takes the single-byte path and writes byte(r) where bytes.Buffer writes the replacement character U+FFFD", c.short(x.Args[0].Key()), v), c.witness(t, i)...)
						}
					})
				}
			}
		}
	}

	// (3) additions
	if fn := c.mustFn(rel, "(*Buffer).ReWrite"); fn != nil {
		buf := c.mustField(rel, "Buffer", "buf")
		traces, _ := c.Trace(fn, cfg)
		ok := len(traces) > 0
		for _, t := range traces {
			copies, other := 0, 0
			for _, e := range t.Events {
				if e.Kind == EvCall && e.Val != nil && e.Val.Name == "builtin:copy" {
					copies++
					d := e.Args[0]
					good := d.Kind == KOp && d.Name == "slice" && d.Args[1].Key() == t.Params[1].Key() && e.Args[1].Key() == t.Params[2].Key()
					if good {
						_, isBuf := isInitOfField(d.Args[0], buf)
						good = isBuf
					}
					if !good {
						ok = false
					}
				} else if e.Kind == EvCall || e.Kind == EvStore {
					other++
				}
			}
			if copies != 1 || other != 0 {
				ok = false
			}
		}
		c.check(ok, "C11.additions", "Buffer.ReWrite", fn.Pos(), "copy(b.buf[pos:], p)", "ReWrite is not exactly copy(b.buf[pos:], p): it changes bytes other than the addressed ones, the length or the read position")
	}
	if fn := c.mustFn(rel, "NewSizedBuffer"); fn != nil {
		buf := c.mustField(rel, "Buffer", "buf")
		traces, _ := c.Trace(fn, TraceConfig{})
		ok := len(traces) > 0
		for _, t := range traces {
			var alloc *Sym
			emptied := false
			for _, e := range t.Events {
				if e.Kind == EvStore && e.Addr.isFieldAddrOf(buf) {
					if e.Val.Kind == KAlloc && len(e.Val.Args) == 2 {
						alloc = e.Val
					}
					if e.Val.Kind == KOp && e.Val.Name == "slice" {
						if hi, isC := e.Val.Args[2].intConst(); isC && hi == 0 {
							emptied = true
						}
					}
				}
			}
			if alloc == nil || !emptied || alloc.Args[0].Key() != t.Params[0].Key() {
				ok = false
			}
		}
		c.check(ok, "C11.additions", "NewSizedBuffer", fn.Pos(), "make(size) then Reset", "NewSizedBuffer does not allocate `size` bytes and reset to an empty buffer")
	}
	_ = token.ADD
}

// canonGuard renders a branch atom in a spelling-independent form without changing its meaning under
// wrap-around arithmetic: the operands stay on their sides (n <= cap-l and l+n <= cap are different atoms:
// the second one overflows), only the direction is normalised (x > y is y < x), a strict comparison with a
// small constant becomes the non-strict one (off > 0 is off >= 1) and the side taken is folded into the operator.
func canonGuard(cond *Sym, taken bool) string {
	for cond.Kind == KUn && cond.Op == token.NOT {
		cond, taken = cond.Args[0], !taken
	}
	if cond.Kind == KBin && len(cond.Args) == 2 {
		op := cond.Op
		switch op {
		case token.EQL, token.NEQ, token.LSS, token.LEQ, token.GTR, token.GEQ:
			if !taken {
				op = negOp(op)
			}
			x, y := cond.Args[0], cond.Args[1]
			_, _, xi := typeRange(x.Typ, "amd64")
			_, _, yi := typeRange(y.Typ, "amd64")
			str := func(v *Sym) string {
				if _, _, isInt := typeRange(v.Typ, "amd64"); isInt && v.Kind != KConst {
					return lf(v).String()
				}
				return v.Key()
			}
			if xi && yi {
				// constant on the right
				if _, isC := x.intConst(); isC {
					if _, yC := y.intConst(); !yC {
						x, y, op = y, x, swapOp(op)
					}
				}
				if k, isC := y.intConst(); isC && k > -1<<30 && k < 1<<30 {
					switch op {
					case token.GTR:
						return fmt.Sprintf("%s >= %d", str(x), k+1)
					case token.LSS:
						return fmt.Sprintf("%s <= %d", str(x), k-1)
					}
					return fmt.Sprintf("%s %s %d", str(x), op, k)
				}
			}
			xs, ys := str(x), str(y)
			switch op {
			case token.GTR, token.GEQ:
				xs, ys, op = ys, xs, swapOp(op)
			case token.EQL, token.NEQ:
				if ys < xs {
					xs, ys = ys, xs
				}
			}
			return fmt.Sprintf("%s %s %s", xs, op, ys)
		}
	}
	return fmt.Sprintf("%s = %v", cond.Key(), taken)
}
