package main

import (
	"go/constant"
	"fmt"
	"go/token"
	"go/types"
	"math/big"
	"strings"

	"golang.org/x/tools/go/ssa"
)

func init() {
	register(&Property{
		ID:       "C09",
		Patterns: []string{"./bitmap1024", "./bitmap1024/internal"},
		Explanation: "Decides on every path: (1) Marshal and Unmarshal agree on the wire form — sparse: little-endian uint16 per member at stride 2, chosen by Marshal under n < 64 and by Unmarshal under len < 128 (2*(64-1) < 128), dense: 16 little-endian uint64 words at stride 8, buffer length exactly 128; the sparse loop writes the members produced by the ascending iterator; " +
			"(2) Unmarshal reads only under len <= 128 and even length, each sparse element is range-checked to [0,1023] before it is set, the loop bound is len/2, every buffer access stays inside the buffer (interval evaluation), so arbitrary bytes cannot panic; " +
			"(3) overflow before widening: no multiplication carried out in a narrow integer type whose operands can exceed that type feeds a conversion to a wider type (int64(b.Start*1024) computed in uint32); " +
			"(4) direction dispatch of BigU32 / BigU32s / U32BitTip: the reverse flag selects the R-iterator, GetN*/RGetN* pass false/true; (5) block membership: SetI64/SetU32 set a bit only under value/1024 == Start with bit value%1024, NewBigU32FromI64 and SetI64 use the same range guard, split (/1024, %1024) and iteration offset (Start*1024) use the same constant. " +
			"NOT decided: full round-trip equality for every bitmap (follows from 1 with C08's iterator invariants, informally); the order in which the list forms visit their blocks (BigU32s: list order in both directions; U32BitTips: reversed list for the reverse form — an observation, not part of the statement).",
		Assumptions: []string{"encoding/binary contracts", "len(Bit1024) == 16"},
		Floors:      map[string]int{"C09.block-iteration": 8, "C09.wire-form": 4, "C09.unmarshal-guards": 3, "C09.overflow-before-widening": 2, "C09.dispatch": 9, "C09.block-membership": 5},
		Run:         runC09,
	})
}

func runC09(c *Ctx) {
	const rel = "bitmap1024"
	noInl := func(callee *ssa.Function, depth int) bool { return false }
	cfg := TraceConfig{Inline: noInl}

	// (1) + (2) Marshal / Unmarshal
	c.checkBitmapWire(cfg)

	// (2a) a block rebuilt from (start, bytes) carries that start on every successful path — also for the empty
	// bitmap: otherwise it silently becomes block 0 and accepts / iterates the wrong integers
	for _, ctor := range []string{"NewBigU32FromData", "NewU32BitTipFromData"} {
		fn := c.mustFn(rel, ctor)
		if fn == nil {
			continue
		}
		traces, _ := c.Trace(fn, cfg)
		good, n := true, 0
		for _, t := range traces {
			if t.End != EndReturn || len(t.Ret) != 2 || !t.Ret[1].isNilConst() {
				continue
			}
			n++
			set := false
			for _, e := range t.Events {
				if e.Kind == EvStore && e.Addr.Kind == KFieldAddr && e.Addr.Field.Name() == "Start" && e.Addr.Args[0].root().Key() == t.Ret[0].root().Key() && e.Val.Key() == "$"+fn.Params[0].Name() {
					set = true
				}
			}
			if !set {
				good = false
			}
		}
		// which starts are refused: the 64-bit block takes every uint32 start (integers up to 2^42), the 32-bit one
		// refuses exactly those above MaxU32TipStart — a bound borrowed from the sibling loses serialised blocks
		if good && n > 0 {
			startKey := "$" + fn.Params[0].Name()
			var limit int64 = -1
			if ctor == "NewU32BitTipFromData" {
				if nc, isC := c.ssaPkg(rel).Members["MaxU32TipStart"].(*ssa.NamedConst); isC {
					limit, _ = constant.Int64Val(constant.ToInt(nc.Value.Value))
				}
			}
			for _, t := range traces {
				if t.End != EndReturn || len(t.Ret) != 2 || !good {
					continue
				}
				for _, f := range t.factsBefore(len(t.Events)) {
					x, y := f.X, f.Y
					for x.Kind == KConv {
						x = x.Args[0]
					}
					for y.Kind == KConv {
						y = y.Args[0]
					}
					var k *Sym
					opOK := false
					if x.Key() == startKey {
						k = y
						opOK = f.Op == token.GTR || f.Op == token.LEQ
					} else if y.Key() == startKey {
						k = x
						opOK = f.Op == token.LSS || f.Op == token.GEQ
					} else {
						continue
					}
					v, isC := k.intConst()
					if limit < 0 || !isC || v != limit || !opOK {
						good = false
						c.violated("C09.block-membership", rel+"."+ctor+" start", fn.Pos(), ctor+" decides on the start it is given ("+c.short(f.X.Key())+" "+f.Op.String()+" "+c.short(f.Y.Key())+") other than by the block kind's own limit: a block that was serialised cannot be rebuilt from (Start, bytes)", c.witness(t, len(t.Events)-1)...)
						break
					}
				}
			}
			if !good {
				continue
			}
		}
		c.check(good && n > 0, "C09.block-membership", rel+"."+ctor+" start", fn.Pos(), "Start = start on every successful path", ctor+" returns a block whose Start is not the start it was given on some successful path (e.g. the empty bitmap): the block answers for the integers of another block")
	}
	// (2b) the block bitmaps (BigU32, U32BitTip) iterate through the 1024-bit iterators: exactly min(n, Len)
	// members, each block handed the remaining count and the advancing write position (rule shared with C08)
	if b1024 := c.namedType(rel, "Bit1024"); b1024 != nil {
		x := &bitCtx{c: c, pfx: "C09"}
		for i := 0; i < b1024.NumMethods(); i++ {
			m := b1024.Method(i)
			if mm := iterNameRe.FindStringSubmatch(m.Name()); mm != nil {
				x.checkBlockIter(c.Prog.FuncValue(m), mm[1] == "R")
			}
		}
	}

	// (3) overflow before widening, over every function of the package
	widened, bad := map[string]bool{}, map[string]bool{}
	defer func() {
		// the two block-offset computations are always reported, whatever their shape
		for _, m := range []string{"IterAsI64", "RIterAsI64"} {
			widened["(*bitmap1024.BigU32)."+m] = true
		}
		for cons := range widened {
			if !bad[cons] {
				c.holds("C09.overflow-before-widening", cons, 0, "no arithmetic that can wrap in a narrow type is widened afterwards")
			}
		}
	}()
	for _, fn := range c.funcsOf(rel) {
		traces, complete := c.Trace(fn, cfg)
		if !complete {
			continue
		}
		seen := map[string]bool{}
		for _, t := range traces {
			check := func(i int, s *Sym, pos token.Pos) {
				if s == nil {
					return
				}
				s.walk(func(x *Sym) {
					if x.Kind != KConv || x.Name != "convert" || seen[x.Key()] {
						return
					}
					in := x.Args[0]
					if in.Kind != KBin || (in.Op != token.MUL && in.Op != token.ADD && in.Op != token.SHL) {
						return
					}
					dlo, dhi, dok := typeRange(x.Typ, c.GOARCH)
					slo, shi, sok := typeRange(in.Typ, c.GOARCH)
					if !dok || !sok || !(dlo.Cmp(slo) <= 0 && dhi.Cmp(shi) >= 0) || (dlo.Cmp(slo) == 0 && dhi.Cmp(shi) == 0) {
						return // not a widening
					}
					seen[x.Key()] = true
					r := c.newRanger(t, i)
					before := len(r.Overflows)
					r.Eval(in)
					cons := c.fname(fn)
					overflowed := false
					for _, o := range r.Overflows[before:] {
						if o == in.Key() {
							overflowed = true
						}
					}
					widened[cons] = true
					if overflowed {
						bad[cons] = true
						c.violated("C09.overflow-before-widening", cons, pos, fmt.Sprintf("%s is computed in %s, where it can wrap, and only then widened to %s: for block starts >= 2^22 the offset is truncated, so the block iterates back to a different integer than the one it was built from", c.short(in.Key()), typeStr(in.Typ), typeStr(x.Typ)), c.witness(t, i)...)
					}
				})
			}
			for i, e := range t.Events {
				for _, a := range e.Args {
					check(i, a, e.Pos)
				}
				if e.Kind == EvStore {
					check(i, e.Val, e.Pos)
				}
			}
			for _, r := range t.Ret {
				check(len(t.Events), r, fn.Pos())
			}
		}
	}

	// (4) dispatch
	c.checkDirectionDispatch("C09.dispatch", []dispatchSpec{
		{rel, "BigU32", "getNAsI64"}, {rel, "BigU32s", "getNAsI64"}, {rel, "U32BitTip", "getNAsU32"},
	})
	// the single-block iterators delegate to the same-named 1024-bit iterator with offset Start*1024
	for _, sp := range []struct{ typ, m string }{{"BigU32", "IterAsI64"}, {"BigU32", "RIterAsI64"}, {"U32BitTip", "IterAsU32"}, {"U32BitTip", "RIterAsU32"}} {
		fn := c.mustFn(rel, "(*"+sp.typ+")."+sp.m)
		start := c.mustField(rel, sp.typ, "Start")
		if fn == nil || start == nil {
			continue
		}
		traces, _ := c.Trace(fn, cfg)
		ok, n := true, 0
		for _, t := range traces {
			for _, e := range t.Events {
				if e.Kind == EvCall && e.Method != nil && strings.Contains(e.Method.Name(), "IterAs") {
					n++
					good := e.Method.Name() == sp.m && len(e.Args) == 5
					if good {
						off := lf(e.Args[3])
						// 1024 * Start
						good = len(off.coef) == 1 && off.c.Sign() == 0
						for k, v := range off.coef {
							if v.Int64() != 1024 || !strings.HasSuffix(k, ".Start") {
								good = false
							}
						}
						good = good && e.Args[1].Key() == t.Params[1].Key() && e.Args[2].Key() == t.Params[2].Key() && e.Args[4].Key() == t.Params[3].Key()
					}
					if !good {
						ok = false
					}
				}
			}
		}
		c.check(ok && n > 0, "C09.dispatch", sp.typ+"."+sp.m, fn.Pos(), "same-named Bit1024 iterator, offset Start*1024", sp.typ+"."+sp.m+" does not delegate to Bit1024."+sp.m+" with offset Start*1024 and the caller's slice/position/count")
	}

	// (5) block membership
	c.checkBlockMembership(cfg)
}

func (c *Ctx) checkBitmapWire(cfg TraceConfig) {
	const rel = "bitmap1024"
	marshal := c.mustFn(rel, "Bit1024.Marshal")
	unmarshal := c.mustFn(rel, "Bit1024.Unmarshal")
	if marshal == nil || unmarshal == nil {
		return
	}
	// Marshal
	{
		traces, _ := c.Trace(marshal, cfg)
		okS, okD := true, true
		sawS, sawD := false, false
		for _, t := range traces {
			var nSym *Sym
			for _, e := range t.Events {
				if e.Kind == EvCall && e.Method != nil && e.Method.Name() == "Len" && nSym == nil {
					nSym = e.Res
				}
			}
			facts := t.factsBefore(len(t.Events))
			for i, e := range t.Events {
				if e.Kind != EvCall {
					continue
				}
				switch {
				case strings.HasSuffix(e.callName(), "littleEndian).PutUint16"):
					sawS = true
					// under n < 64
					small := nSym != nil && hasFact(facts, func(f Fact) bool {
						z, isz := f.Y.intConst()
						return f.X.Key() == nSym.Key() && f.Op == token.LSS && isz && z == 64
					})
					// destination buf[i*2:], buf = make(n*2)
					dst := e.Args[1]
					good := small && dst.Kind == KOp && dst.Name == "slice"
					if good {
						buf := dst.Args[0]
						good = buf.Kind == KAlloc && len(buf.Args) == 2 && nSym != nil && lf(buf.Args[0]).equal(lf(nSym).scale(bi(2)))
						// offset = 2*i for the loop index i (0 in the first iteration)
						off := lf(dst.Args[1])
						if z, isC := off.isConst(); isC {
							good = good && z.Sign() == 0
						} else {
							for _, v := range off.coef {
								if v.Int64() != 2 {
									good = false
								}
							}
							good = good && off.c.Sign() == 0
						}
					}
					// the value is an element of the ascending member list GetNAsI16(n)
					val := e.Args[2]
					for val.Kind == KConv {
						val = val.Args[0]
					}
					fromList := false
					for _, y := range t.Events[:i] {
						if y.Kind == EvCall && y.Method != nil && y.Method.Name() == "GetNAsI16" && val.Kind == KInit && val.Args[0].Kind == KIndexAddr && val.Args[0].Args[0].Key() == y.Res.Key() {
							fromList = nSym != nil && y.Args[1].Key() == nSym.Key()
						}
					}
					if !(good && fromList) && okS {
						okS = false
						c.violated("C09.wire-form", "Marshal sparse", e.Pos, "the sparse form is not `uint16 little-endian per member at offset 2*i of a 2*n byte buffer, members from GetNAsI16(n), chosen under n < 64`", c.witness(t, i)...)
					}
				case strings.HasSuffix(e.callName(), "littleEndian).PutUint64"):
					sawD = true
					dst := e.Args[1]
					good := dst.Kind == KOp && dst.Name == "slice"
					if good {
						buf := dst.Args[0].root()
						blen := int64(-1)
						if buf.Kind == KAlloc && len(buf.Args) == 2 {
							blen, _ = buf.Args[0].intConst()
						} else if buf.Kind == KAlloc && buf.Typ != nil {
							if p, isP := buf.Typ.(*types.Pointer); isP {
								if arr, isA := p.Elem().Underlying().(*types.Array); isA {
									blen = arr.Len()
								}
							}
						}
						good = blen == 128
						off := lf(dst.Args[1])
						if z, isC := off.isConst(); isC {
							good = good && z.Sign() == 0
						} else {
							for _, v := range off.coef {
								if v.Int64() != 8 {
									good = false
								}
							}
						}
						// the word written is b[i] with the same i
						w := e.Args[2]
						for w.Kind == KConv {
							w = w.Args[0]
						}
						good = good && w.Kind == KInit && w.Args[0].Kind == KIndexAddr && w.Args[0].Args[0].Key() == t.Params[0].Key()
						if good {
							wi := lf(w.Args[0].Args[1])
							good = off.equal(wi.scale(bi(8)))
						}
					}
					if !good && okD {
						okD = false
						c.violated("C09.wire-form", "Marshal dense", e.Pos, "the dense form is not `word i as little-endian uint64 at offset 8*i of a 128 byte buffer`", c.witness(t, i)...)
					}
				case strings.Contains(e.callName(), "Endian)."):
					okS = false
					c.violated("C09.wire-form", "Marshal sparse", e.Pos, "Marshal uses "+e.callName()+": width or byte order differs from what Unmarshal reads", c.witness(t, i)...)
				}
			}
		}
		if okS {
			c.check(sawS, "C09.wire-form", "Marshal sparse", marshal.Pos(), "uint16 LE at 2*i, n<64", "no sparse encoding found in Marshal")
		}
		if okD {
			c.check(sawD, "C09.wire-form", "Marshal dense", marshal.Pos(), "16 x uint64 LE at 8*i, 128 bytes", "no dense encoding found in Marshal")
		}
	}
	// Unmarshal
	{
		traces, _ := c.Trace(unmarshal, cfg)
		buf := "$" + unmarshal.Params[1].Name()
		okS, okD, okG := true, true, true
		sawS, sawD := false, false
		lenSym := &Sym{Kind: KOp, Name: "len", Args: []*Sym{{Kind: KParam, Ref: unmarshal.Params[1], Typ: unmarshal.Params[1].Type()}}, Typ: types.Typ[types.Int]}
		recvKey := "$" + unmarshal.Params[0].Name()
		for _, t := range traces {
			// in the sparse form every element is added to what the bitmap already holds (SetI16, or an OR into its
			// word): a word assigned outright forgets the members decoded into it earlier, so the result depends on
			// the order of the elements (only Marshal's own ascending output would survive)
			sparsePath := false
			for _, e := range t.Events {
				if e.Kind == EvCall && strings.HasSuffix(e.callName(), "littleEndian).Uint16") {
					sparsePath = true
				}
			}
			if sparsePath {
				for i, e := range t.Events {
					if e.Kind == EvStore && e.Addr.Kind == KIndexAddr && e.Addr.Args[0].root().Key() == recvKey && okS {
						keeps := e.Old != nil && e.Val.Kind == KBin && e.Val.Op == token.OR && (e.Val.Args[0].Key() == e.Old.Key() || e.Val.Args[1].Key() == e.Old.Key())
						if !keeps {
							okS = false
							c.violated("C09.wire-form", "Unmarshal sparse", e.Pos, "a word of the bitmap is assigned outright while decoding the sparse form (not OR-ed into, not set member by member): members decoded into that word earlier are lost, the decoded set depends on the order of the elements", c.witness(t, i)...)
						}
					}
				}
			}
			for i, e := range t.Events {
				if e.Kind != EvCall {
					continue
				}
				isU16 := strings.HasSuffix(e.callName(), "littleEndian).Uint16")
				isU64 := strings.HasSuffix(e.callName(), "littleEndian).Uint64")
				if !isU16 && !isU64 {
					if strings.Contains(e.callName(), "Endian).") {
						okS = false
						c.violated("C09.wire-form", "Unmarshal sparse", e.Pos, "Unmarshal uses "+e.callName()+": width or byte order differs from what Marshal writes", c.witness(t, i)...)
					}
					continue
				}
				src := e.Args[1]
				fb := t.factsBefore(i)
				r := c.newRanger(t, i)
				ln := r.Eval(lenSym)
				good := src.Kind == KOp && src.Name == "slice" && src.Args[0].Key() == buf
				var off Itv
				if good {
					off = r.Eval(src.Args[1])
				}
				// guards: len <= 128, even
				le128 := ln.hi != nil && ln.hi.Cmp(bi(128)) <= 0
				even := hasFact(fb, func(f Fact) bool {
					z, isz := f.Y.intConst()
					return f.X.Kind == KBin && f.X.Op == token.REM && f.X.Args[0].Key() == lenSym.Key() && isz && z == 0 && f.Op == token.EQL
				})
				if !(le128 && even) && okG {
					okG = false
					c.violated("C09.unmarshal-guards", "Unmarshal length", e.Pos, fmt.Sprintf("bytes are decoded without `len <= 128` (%v) and `len %% 2 == 0` (%v) established: arbitrary input can index past the buffer / the 16 words", le128, even), c.witness(t, i)...)
				}
				if isU16 {
					sawS = true
					// sparse only under len < 128; offset 2*i with i < len/2
					lt128 := ln.hi != nil && ln.hi.Cmp(bi(127)) <= 0
					stride := false
					if good {
						o := lf(src.Args[1])
						if z, isC := o.isConst(); isC {
							stride = z.Sign() == 0
						} else {
							stride = o.c.Sign() == 0
							for _, v := range o.coef {
								if v.Int64() != 2 {
									stride = false
								}
							}
						}
					}
					// in bounds: offset + 2 <= len : loop guard i < len/2
					inb := false
					if good {
						iv := src.Args[1]
						if iv.Kind == KBin && iv.Op == token.MUL {
							iv = iv.Args[0]
						}
						inb = hasFact(fb, func(f Fact) bool {
							return f.Op == token.LSS && f.Y.Kind == KBin && f.Y.Op == token.QUO && f.Y.Args[0].Key() == lenSym.Key() && (f.X.Key() == iv.Key() || (func() bool { z, isC := iv.intConst(); return isC && z == 0 }()))
						})
						_ = off
					}
					if !(good && lt128 && stride && inb) && okS {
						okS = false
						c.violated("C09.wire-form", "Unmarshal sparse", e.Pos, fmt.Sprintf("the sparse form is not read as `uint16 little-endian at offset 2*i for i < len/2, chosen under len < 128` (len<128: %v, stride 2: %v, i<len/2: %v)", lt128, stride, inb), c.witness(t, i)...)
					}
					// element range check before SetI16
					v := e.Res
					for _, y := range t.Events[i+1:] {
						if y.Kind == EvCall && y.Method != nil && y.Method.Name() == "SetI16" {
							a := y.Args[1]
							fb2 := t.factsBefore(len(t.Events))
							lo := hasFact(fb2, func(f Fact) bool {
								z, isz := f.Y.intConst()
								return f.X.Key() == a.Key() && f.Op == token.GEQ && isz && z == 0
							})
							hi := hasFact(fb2, func(f Fact) bool {
								z, isz := f.Y.intConst()
								return f.X.Key() == a.Key() && ((f.Op == token.LEQ && isz && z == 1023) || (f.Op == token.LSS && isz && z == 1024))
							})
							from := false
							a.walk(func(z *Sym) {
								if z.Key() == v.Key() {
									from = true
								}
							})
							if from && !(lo && hi) && okG {
								okG = false
								c.violated("C09.unmarshal-guards", "Unmarshal element range", y.Pos, "a sparse element is set without having been checked to lie in [0,1023]: the decoded set is not the set the bytes denote (out-of-range elements are silently dropped or misplaced)", c.witness(t, i)...)
							}
							break
						}
					}
				}
				if isU64 {
					sawD = true
					ge128 := ln.lo != nil && ln.lo.Cmp(bi(128)) >= 0
					stride := false
					if good {
						o := lf(src.Args[1])
						if z, isC := o.isConst(); isC {
							stride = z.Sign() == 0
						} else {
							stride = o.c.Sign() == 0
							for _, v := range o.coef {
								if v.Int64() != 8 {
									stride = false
								}
							}
						}
					}
					// the word read is stored into word i of the bitmap (offset = 8*i) on every path that goes on
					if good && okD && (t.End == EndReturn || t.End == EndCut) {
						stored := false
						for j := i + 1; j < len(t.Events); j++ {
							y := t.Events[j]
							if y.Kind == EvStore && y.Addr.Kind == KIndexAddr && y.Val.mentions(e.Res.Key()) {
								// index*8 == offset
								if lf(y.Addr.Args[1]).scale(big.NewInt(8)).equal(lf(src.Args[1])) {
									stored = true
								}
							}
						}
						if !stored {
							// skipping an all-zero word is harmless (a fresh bitmap's word is already zero, and the sparse
							// form is additive too) — provided the loop goes on: the zero test is followed by the loop's
							// bound test, not by the exit
							zero := hasFact(t.factsBefore(len(t.Events)), func(f Fact) bool {
								z, isz := f.Y.intConst()
								return f.X.strip().mentions(e.Res.Key()) && isz && z == 0 && f.Op == token.EQL
							})
							goesOn := false
							seenZeroTest := false
							for j := i + 1; j < len(t.Events); j++ {
								y := t.Events[j]
								if y.Kind != EvBranch {
									continue
								}
								if y.Cond.mentions(e.Res.Key()) {
									seenZeroTest = true
									continue
								}
								if seenZeroTest && y.Cond.Kind == KBin && y.Cond.Op == token.LSS {
									if k, isK := y.Cond.Args[1].intConst(); isK && k == 16 {
										goesOn = true
									}
								}
							}
							if seenZeroTest && t.End == EndCut {
								goesOn = true // cut at the loop's back edge: the loop continues
							}
							stored = zero && goesOn
						}
						if !stored {
							okD = false
							c.violated("C09.wire-form", "Unmarshal dense", e.Pos, "a word read from the dense form is not stored into word i of the bitmap on this path (the loop is left or the word skipped): members of that word and of every later word are lost without an error", c.witness(t, len(t.Events)-1)...)
						}
					}
					if !(good && ge128 && le128 && stride) && okD {
						okD = false
						c.violated("C09.wire-form", "Unmarshal dense", e.Pos, fmt.Sprintf("the dense form is not read as `uint64 little-endian at offset 8*i, chosen under len == 128` (len>=128: %v, len<=128: %v, stride 8: %v)", ge128, le128, stride), c.witness(t, i)...)
					}
				}
			}
		}
		if okS {
			c.check(sawS, "C09.wire-form", "Unmarshal sparse", unmarshal.Pos(), "uint16 LE at 2*i, len<128", "no sparse decoding found in Unmarshal")
		}
		if okD {
			c.check(sawD, "C09.wire-form", "Unmarshal dense", unmarshal.Pos(), "16 x uint64 LE at 8*i, len==128", "no dense decoding found in Unmarshal")
		}
		if okG {
			c.holds("C09.unmarshal-guards", "Unmarshal length", unmarshal.Pos(), "len <= 128 and even before any read")
			c.holds("C09.unmarshal-guards", "Unmarshal element range", unmarshal.Pos(), "0 <= element <= 1023 before SetI16")
		}
		// empty input is the empty set, errors are returned for bad lengths
		okE := true
		for _, t := range traces {
			if t.End != EndReturn {
				continue
			}
			r := c.newRanger(t, len(t.Events))
			ln := r.Eval(lenSym)
			if ln.lo != nil && ln.lo.Cmp(bi(129)) >= 0 && t.Ret[0].isNilConst() {
				okE = false
			}
		}
		c.check(okE, "C09.unmarshal-guards", "Unmarshal oversize", unmarshal.Pos(), "len > 128 is an error", "an over-long input is accepted")
	}
}

func (c *Ctx) checkBlockMembership(cfg TraceConfig) {
	const rel = "bitmap1024"
	type spec struct {
		typ, fn string
		ctor    bool
	}
	guardForms := map[string]string{}
	for _, sp := range []spec{{"BigU32", "SetI64", false}, {"U32BitTip", "SetU32", false}, {"BigU32", "NewBigU32FromI64", true}, {"U32BitTip", "NewU32BitTipFromU32", true}} {
		var fn *ssa.Function
		if sp.ctor {
			fn = c.mustFn(rel, sp.fn)
		} else {
			fn = c.mustFn(rel, "(*"+sp.typ+")."+sp.fn)
		}
		start := c.mustField(rel, sp.typ, "Start")
		if fn == nil || start == nil {
			continue
		}
		name := sp.typ + "." + sp.fn
		traces, _ := c.Trace(fn, cfg)
		ok, n := true, 0
		for _, t := range traces {
			val := t.Params[len(t.Params)-1]
			for i, e := range t.Events {
				if e.Kind != EvCall || e.Method == nil || !strings.HasPrefix(e.Method.Name(), "SetI") && !strings.HasPrefix(e.Method.Name(), "SetU") {
					continue
				}
				n++
				fb := t.factsBefore(i)
				// bit = value % 1024
				a := e.Args[1]
				for a.Kind == KConv {
					a = a.Args[0]
				}
				bitOK := a.Kind == KBin && a.Op == token.REM && a.Args[0].Key() == val.Key()
				if bitOK {
					d, isC := a.Args[1].intConst()
					bitOK = isC && d == 1024
				}
				// for a value known not to be negative, mask and shift are the same split: v & 1023, v >> 10
				nonNeg := false
				if bt, isB := val.Typ.Underlying().(*types.Basic); val.Typ != nil && isB && bt.Info()&types.IsUnsigned != 0 {
					nonNeg = true
				}
				if hasFact(fb, func(f Fact) bool {
					z, isz := f.Y.intConst()
					return f.X.Key() == val.Key() && isz && z == 0 && f.Op == token.GEQ
				}) {
					nonNeg = true
				}
				if !bitOK && nonNeg && a.Kind == KBin && a.Op == token.AND && a.Args[0].Key() == val.Key() {
					d, isC := a.Args[1].intConst()
					bitOK = isC && d == 1023
				}
				// block = value / 1024 == Start (setter) or stored into Start (constructor)
				isBlock := func(s *Sym) bool {
					for s.Kind == KConv {
						s = s.Args[0]
					}
					if s.Kind == KBin && s.Op == token.SHR && nonNeg && s.Args[0].Key() == val.Key() {
						sh := s.Args[1]
						for sh.Kind == KConv {
							sh = sh.Args[0]
						}
						d, isC := sh.intConst()
						return isC && d == 10
					}
					if s.Kind != KBin || s.Op != token.QUO || s.Args[0].Key() != val.Key() {
						return false
					}
					d, isC := s.Args[1].intConst()
					return isC && d == 1024
				}
				blockOK := false
				if sp.ctor {
					for _, y := range t.Events {
						if y.Kind == EvStore && y.Addr.isFieldAddrOf(start) && isBlock(y.Val) {
							blockOK = true
						}
					}
				} else {
					blockOK = hasFact(fb, func(f Fact) bool {
						_, isStart := isInitOfField(f.Y, start)
						return f.Op == token.EQL && isStart && isBlock(f.X)
					})
				}
				if !(bitOK && blockOK) && ok {
					ok = false
					c.violated("C09.block-membership", name, e.Pos, fmt.Sprintf("a bit is set without `value/1024 == Start` (%v) and bit = value%%1024 (%v): the block accepts integers of other blocks, which then iterate back as different integers", blockOK, bitOK), c.witness(t, i)...)
				}
				// range guard (int64 forms): 0 <= v < MaxUint32*1024
				if sp.typ == "BigU32" {
					lo := hasFact(fb, func(f Fact) bool {
						z, isz := f.Y.intConst()
						return f.X.Key() == val.Key() && f.Op == token.GEQ && isz && z == 0
					})
					var hiForm string
					for _, f := range fb {
						if f.X.Key() == val.Key() && f.Op == token.LSS && f.Y.isConst() {
							hiForm = f.Y.Key()
						}
					}
					guardForms[name] = fmt.Sprintf("lo=%v hi=%s", lo, hiForm)
					if (!lo || hiForm == "") && ok {
						ok = false
						c.violated("C09.block-membership", name, e.Pos, "an int64 is accepted without the documented range guard 0 <= v < MaxUint32*1024: the block number is truncated to uint32", c.witness(t, i)...)
					}
				}
			}
		}
		if ok && n > 0 {
			c.holds("C09.block-membership", name, fn.Pos(), "")
		} else if n == 0 {
			c.undecided("C09.block-membership", name, fn.Pos(), "no bit is set on any path")
		}
	}
	if a, b := guardForms["BigU32.SetI64"], guardForms["BigU32.NewBigU32FromI64"]; a != "" && b != "" {
		c.check(a == b, "C09.block-membership", "BigU32 range guard agreement", 0, a, "NewBigU32FromI64 and SetI64 use different range guards ("+b+" vs "+a+"): a value accepted by one is rejected or truncated by the other")
	}
}
