package main

import (
	"fmt"
	"go/token"
	"go/types"
	"strings"

	"golang.org/x/tools/go/ssa"
)

func init() {
	register(&Property{
		ID:       "C06",
		Patterns: []string{"./idgen/snowflake", "./idgen/nano"},
		Explanation: "A small static proof per generator, on every path of Generate/GenIDByTS with the clock an arbitrary value: (1) the generator state (time, step / current) is read and written only under the generator's mutex and the id is composed inside the critical section (the no-lock nano generator is externally synchronised by contract and gets obligation 2 only); " +
			"(2) lexicographic progress: at every return the new state (T1,S1) satisfies T1 > T0, or T1 = T0 and S1 = (S0+1)&stepMax with S1 != 0 (the wrap-increment idiom: with 0<=S0<=stepMax this is S0+1 > S0); for the nano generators current1 > current0 and the result is current1; " +
			"(3) a wall-clock node never returns a timestamp older than the clock reading it took (T1 = now, or the path established now <= T0); (4) field discipline: step is only ever assigned 0, (..)&stepMax or the masked field of IDFields, node only in the constructor under 0<=node<=nodeMax, and the id is composed from the final time/step and node with figureShift()'s shifts (disjointness of the layout: obligation C06.layout, the rule shared with C07); " +
			"(5) MonoNode's epoch derives from time.Now() through Add only (monotonic reading preserved) and Generate reads the clock with time.Since(epoch); (6) NewNode seeds time/step with IDFields(last id). " +
			"NOT decided: uniqueness across nodes, overflow of the timestamp field, the operating system's monotonic-clock contract (assumed for MonoNode: time.Since(epoch) never decreases).",
		Assumptions: []string{"invariant 0 <= step <= stepMax (established by obligation 4)", "MonoNode: the monotonic clock never decreases"},
		Floors:      map[string]int{"C06.guarded-by": 4, "C06.progress": 4, "C06.not-older-than-clock": 3, "C06.step-discipline": 2, "C06.node-discipline": 2, "C06.compose": 2, "C06.mono-source": 2, "C06.restart-seed": 4, "C06.layout": 2},
		Run:         runC06,
	})
}

func runC06(c *Ctx) {
	const rel = "idgen/snowflake"
	// helpers of the generator's own package are entered (an extracted `advance`, `sinceEpochMs`, `checkNode` must not
	// hide the logic); the layout functions stay opaque because the rules name their results
	noInl := func(callee *ssa.Function, depth int) bool {
		if depth > 3 || !c.fnInModule(callee) || callee.Pkg == nil {
			return false
		}
		p := callee.Pkg.Pkg.Path()
		if !strings.HasSuffix(p, "/idgen/snowflake") && !strings.HasSuffix(p, "/idgen/nano") {
			return false
		}
		switch callee.Name() {
		case "figureShift", "IDFields", "IDParse", "IDParseEx":
			return false
		}
		return true
	}
	// distinct (time, step) pairs of one node are distinct ids only if the fields do not overlap
	c.checkSnowflakeLayout("C06.layout")
	for _, typ := range []string{"HardNode", "MonoNode"} {
		mu := c.mustField(rel, typ, "mu")
		tm := c.mustField(rel, typ, "time")
		step := c.mustField(rel, typ, "step")
		node := c.mustField(rel, typ, "node")
		gen := c.mustFn(rel, "(*"+typ+").Generate")
		if mu == nil || tm == nil || step == nil || node == nil || gen == nil {
			continue
		}
		name := "(*snowflake." + typ + ").Generate"
		c.checkGuardedBy("C06.guarded-by", c.exportedMethods(rel, typ), []guard{
			{Field: tm, Mutex: mu, SameBase: true, Name: typ + ".time"},
			{Field: step, Mutex: mu, SameBase: true, Name: typ + ".step"},
		}, TraceConfig{Inline: noInl}, nil)
		c.check(c.immutableField(node), "C06.node-discipline", typ+".node immutable", node.Pos(), "written only in the constructor", "the node field is written outside the constructor: ids no longer carry the configured node")

		traces, complete := c.Trace(gen, TraceConfig{Inline: noInl})
		if !complete {
			c.undecided("C06.progress", name, gen.Pos(), "path budget exceeded")
			continue
		}
		okProg, okClock, okStep, okComp := true, true, true, true
		n := 0
		for _, t := range traces {
			if t.End != EndReturn {
				continue
			}
			n++
			facts := t.factsBefore(len(t.Events))
			recv := t.Params[0]
			cellOf := func(f *types.Var) *Sym { return &Sym{Kind: KFieldAddr, Args: []*Sym{recv}, Field: f} }
			T0 := &Sym{Kind: KInit, Args: []*Sym{cellOf(tm)}}
			S0 := &Sym{Kind: KInit, Args: []*Sym{cellOf(step)}}
			// the state after the last lock acquisition is what T0/S0 denote
			for _, e := range t.Events {
				if e.Kind == EvLoad && e.Addr.isFieldAddrOf(tm) && T0.ID == 0 && e.Res.Kind == KInit {
					T0 = e.Res
				}
				if e.Kind == EvLoad && e.Addr.isFieldAddrOf(step) && S0.ID == 0 && e.Res.Kind == KInit {
					S0 = e.Res
				}
			}
			T1, S1 := T0, S0
			stepStoreAt := -1
			var nowSyms []*Sym
			for i, e := range t.Events {
				if e.Kind == EvStore && e.Addr.isFieldAddrOf(tm) {
					T1 = e.Val
				}
				if e.Kind == EvStore && e.Addr.isFieldAddrOf(step) {
					S1 = e.Val
					stepStoreAt = i
				}
				if e.Kind == EvCall && (strings.Contains(e.callName(), "UnixNano") || strings.Contains(e.callName(), "Nanoseconds") || e.callName() == "time.Since") {
					_ = i
				}
			}
			// clock readings: values derived from a time call and compared with T0
			isClock := func(s *Sym) bool {
				ok := false
				s.walk(func(x *Sym) {
					if x.Kind == KFresh && x.Name == "ret" {
						if call, isCall := x.Ref.(*ssa.Call); isCall {
							if cal := call.Call.StaticCallee(); cal != nil && (strings.HasPrefix(cal.String(), "(time.") || strings.HasPrefix(cal.String(), "time.")) {
								ok = true
							}
							if call.Call.StaticCallee() == nil && !call.Call.IsInvoke() {
								ok = true // call through the package variable _HookNow
							}
						}
					}
					if x.Kind == KFresh && x.Name == "loop" {
						ok = true // the spin loop's re-read clock value
					}
				})
				return ok
			}
			for _, f := range facts {
				if isClock(f.X) && f.Y.Key() == T0.Key() {
					nowSyms = append(nowSyms, f.X)
				}
			}
			// (4) step discipline, on the value the step has when the id is composed: 0, masked with stepMax, or the
			// old step plus one on a path that found it below 1<<StepBits
			boundedInc := S1.Kind == KBin && S1.Op == token.ADD && S1.Args[0].Key() == S0.Key() && isIntConst(S1.Args[1], 1) && hasFact(facts, func(f Fact) bool {
				k, isK := f.Y.intConst()
				return f.X.Key() == S1.Key() && isK && ((f.Op == token.LSS && k == 4096) || (f.Op == token.LEQ && k == 4095))
			})
			if stepStoreAt >= 0 {
				good := isMasked(S1) || boundedInc
				if z, isC := S1.intConst(); isC && z == 0 {
					good = true
				}
				if !good && okStep {
					okStep = false
					c.violated("C06.step-discipline", name, t.Events[stepStoreAt].Pos, "the step the id is composed from is neither 0, nor masked with stepMax, nor the old step plus one on a path that found it below 1<<StepBits: it can leave [0, stepMax] and spill into the neighbouring id field: "+c.short(S1.Key()), c.witness(t, stepStoreAt)...)
				}
			}
			// (2) progress
			prog := ""
			switch {
			case T1.Key() != T0.Key() && hasFact(facts, func(f Fact) bool { return f.X.Key() == T1.Key() && f.Y.Key() == T0.Key() && f.Op == token.GTR }):
				prog = "T1 is a clock reading with T1 > T0"
			case T1.Kind == KBin && T1.Op == token.ADD && T1.Args[0].Key() == T0.Key() && isPosConst(T1.Args[1]):
				prog = "T1 = T0 + const"
			case (T1.Key() == T0.Key() || hasFact(facts, func(f Fact) bool { return f.X.Key() == T1.Key() && f.Y.Key() == T0.Key() && f.Op == token.EQL })) && isWrapInc(S1, S0) && hasFact(facts, func(f Fact) bool {
				z, isz := f.Y.intConst()
				return f.X.Key() == S1.Key() && isz && z == 0 && f.Op == token.NEQ
			}):
				prog = "T1 = T0 and S1 = (S0+1)&stepMax != 0"
			case (T1.Key() == T0.Key() || hasFact(facts, func(f Fact) bool { return f.X.Key() == T1.Key() && f.Y.Key() == T0.Key() && f.Op == token.EQL })) && boundedInc:
				prog = "T1 = T0 and S1 = S0+1 < 1<<StepBits"
			case typ == "MonoNode" && T1.Key() != T0.Key() && isClock(T1) && hasFact(facts, func(f Fact) bool { return f.X.Key() == T1.Key() && f.Y.Key() == T0.Key() && f.Op == token.NEQ }):
				prog = "T1 is a monotonic clock reading != T0 (assumption: never decreases, hence > T0)"
			}
			if prog == "" && okProg {
				okProg = false
				c.violated("C06.progress", name, gen.Pos(), fmt.Sprintf("on this path the new state is not provably above the old one: time' = %s, step' = %s (need time' > time, or time' = time and step' = (step+1)&stepMax != 0): the generator can return an id that is not greater than the previous one (duplicate or decreasing ids)", c.short(T1.Key()), c.short(S1.Key())), c.witness(t, len(t.Events)-1)...)
			}
			// when time advances because of a wrap, step must restart at 0 or be the wrapped value
			// (3) not older than the clock (wall-clock node)
			if typ == "HardNode" {
				good := false
				for _, nw := range nowSyms {
					if T1.Key() == nw.Key() {
						good = true
					}
					if hasFact(facts, func(f Fact) bool { return f.X.Key() == nw.Key() && f.Y.Key() == T0.Key() && f.Op == token.LEQ }) {
						good = true // now <= T0 <= T1
					}
				}
				if !good && okClock {
					okClock = false
					c.violated("C06.not-older-than-clock", name, gen.Pos(), "the id's timestamp is not shown to be >= the clock reading taken by this call (neither time' = now nor now <= time established)", c.witness(t, len(t.Events)-1)...)
				}
			}
			// (4b) composition from the final state
			r := t.Ret[0]
			parts := orParts(r)
			var gotT, gotN, gotS bool
			for _, p := range parts {
				if p.Kind != KBin || p.Op != token.SHL {
					continue
				}
				v := p.Args[0]
				switch {
				case v.Key() == T1.Key():
					gotT = true
				case v.Key() == S1.Key():
					gotS = true
				default:
					if _, isNode := isInitOfField(v, node); isNode {
						gotN = true
					}
				}
			}
			if !(gotT && gotN && gotS && len(parts) == 3) && okComp {
				okComp = false
				c.violated("C06.compose", name, gen.Pos(), fmt.Sprintf("the id is not composed as time'<<a | node<<b | step'<<c from the final state (time'=%v node=%v step'=%v, %d parts): the order of ids no longer follows the order of states", gotT, gotN, gotS, len(parts)), c.witness(t, len(t.Events)-1)...)
			}
			if okComp {
				// shifts come from figureShift()
				for _, p := range parts {
					sh := p.Args[1]
					fromFS := false
					for _, e := range t.Events {
						if e.Kind == EvCall && e.Callee != nil && e.Callee.Name() == "figureShift" && e.Res.Kind == KTuple {
							for _, a := range e.Res.Args {
								if boundKey(a) == boundKey(sh) {
									fromFS = true
								}
							}
						}
					}
					if !fromFS && okComp {
						okComp = false
						c.violated("C06.compose", name, gen.Pos(), "a field of the id is shifted by something other than figureShift()'s result", c.witness(t, len(t.Events)-1)...)
					}
				}
			}
		}
		if n == 0 {
			c.undecided("C06.progress", name, gen.Pos(), "no returning path")
			continue
		}
		if okProg {
			c.holds("C06.progress", name, gen.Pos(), fmt.Sprintf("%d paths: (time,step) strictly increases lexicographically", n))
		}
		if typ == "HardNode" && okClock {
			c.holds("C06.not-older-than-clock", name, gen.Pos(), "")
		}
		if okStep {
			c.holds("C06.step-discipline", name, gen.Pos(), "")
		}
		if okComp {
			c.holds("C06.compose", name, gen.Pos(), "")
		}
	}
	c.checkSnowflakeCtors()
	c.checkNano()
}

func isPosConst(s *Sym) bool { v, ok := s.intConst(); return ok && v > 0 }

// isMasked: x & (const 2^k-1) where the constant comes from (1<<StepBits)-1 (folded)
func isMasked(s *Sym) bool {
	if s.Kind != KBin || s.Op != token.AND {
		return false
	}
	for _, a := range s.Args {
		if v, ok := a.intConst(); ok && v > 0 && (v&(v+1)) == 0 {
			return true
		}
	}
	return false
}

// isWrapInc: s1 == (s0 + 1) & mask
func isWrapInc(s1, s0 *Sym) bool {
	if !isMasked(s1) {
		return false
	}
	for _, a := range s1.Args {
		if a.Kind == KBin && a.Op == token.ADD && a.Args[0].Key() == s0.Key() {
			if one, ok := a.Args[1].intConst(); ok && one == 1 {
				return true
			}
		}
	}
	return false
}

func orParts(s *Sym) []*Sym {
	if s.Kind == KBin && s.Op == token.OR {
		return append(orParts(s.Args[0]), orParts(s.Args[1])...)
	}
	return []*Sym{s}
}

func (c *Ctx) checkSnowflakeCtors() {
	const rel = "idgen/snowflake"
	// helpers of the generator's own package are entered (an extracted `advance`, `sinceEpochMs`, `checkNode` must not
	// hide the logic); the layout functions stay opaque because the rules name their results
	noInl := func(callee *ssa.Function, depth int) bool {
		if depth > 3 || !c.fnInModule(callee) || callee.Pkg == nil {
			return false
		}
		p := callee.Pkg.Pkg.Path()
		if !strings.HasSuffix(p, "/idgen/snowflake") && !strings.HasSuffix(p, "/idgen/nano") {
			return false
		}
		switch callee.Name() {
		case "figureShift", "IDFields", "IDParse", "IDParseEx":
			return false
		}
		return true
	}
	for _, ct := range []struct{ fn, typ string }{{"NewNode", "HardNode"}, {"NewMonoNode", "MonoNode"}} {
		fn := c.mustFn(rel, ct.fn)
		node := c.field(rel, ct.typ, "node")
		if fn == nil || node == nil {
			continue
		}
		cons := "snowflake." + ct.fn
		traces, _ := c.Trace(fn, TraceConfig{Inline: noInl})
		ok, n := true, 0
		for _, t := range traces {
			for i, e := range t.Events {
				if e.Kind == EvStore && e.Addr.isFieldAddrOf(node) {
					n++
					facts := t.factsBefore(i)
					v := e.Val
					lo := hasFact(facts, func(f Fact) bool {
						z, isz := f.Y.intConst()
						return f.X.Key() == v.Key() && isz && z == 0 && f.Op == token.GEQ
					})
					hi := hasFact(facts, func(f Fact) bool {
						if f.X.Key() != v.Key() || f.Op != token.LEQ {
							return false
						}
						// bound = (1<<_nodeBits)-1, symbolic in the node-bit width
						b := f.Y
						return b.Kind == KBin && b.Op == token.SUB && b.Args[0].Kind == KBin && b.Args[0].Op == token.SHL
					})
					if !(lo && hi) && ok {
						ok = false
						c.violated("C06.node-discipline", cons, e.Pos, "the node number is stored without 0 <= node <= (1<<nodeBits)-1 established: a larger node spills into the neighbouring id fields", c.witness(t, i)...)
					}
				}
			}
		}
		if ok && n > 0 {
			c.holds("C06.node-discipline", cons, fn.Pos(), "node stored under 0 <= node <= nodeMax")
		} else if n == 0 {
			c.undecided("C06.node-discipline", cons, fn.Pos(), "no store to node found")
		}
	}
	// (5b) the epoch a node works with is the configured one at the time the node is made: computed in the
	// constructor from the package's epoch setting, not taken from something computed once for the process (a
	// sync.Once or a package-level cache keeps the first node's epoch: after Setup(UseEpoch(..)) a new node would
	// compose ids whose timestamps do not match its clock readings)
	for _, sp := range [][2]string{{"NewNode", "HardNode"}, {"NewMonoNode", "MonoNode"}} {
		fn := c.mustFn(rel, sp[0])
		ef := c.field(rel, sp[1], "epoch")
		if fn == nil || ef == nil {
			continue
		}
		samePkg := func(callee *ssa.Function, depth int) bool { return depth <= 3 && callee.Pkg == fn.Pkg }
		traces, _ := c.Trace(fn, TraceConfig{Inline: samePkg})
		ok, n := true, 0
		for _, t := range traces {
			for i, e := range t.Events {
				if (e.Kind == EvCall || e.Kind == EvEnter) && e.callName() == "(*sync.Once).Do" && ok {
					ok = false
					c.violated("C06.not-older-than-clock", "snowflake."+sp[0]+" epoch", e.Pos, "the constructor takes part of its configuration from a sync.Once: the value is the one of the first node made in the process, not the one configured now", c.witness(t, i)...)
				}
				if e.Kind == EvStore && e.Addr.isFieldAddrOf(ef) {
					n++
					fromSetting := derivesFrom(t, e.Val, 0, func(x *Sym) bool {
						return x.Kind == KInit && x.Args[0].Kind == KGlobal && x.Args[0].Ref.(*ssa.Global).Name() == "_epoch"
					})
					if !fromSetting && ok {
						ok = false
						c.violated("C06.not-older-than-clock", "snowflake."+sp[0]+" epoch", e.Pos, "the node's epoch is not computed from the package's epoch setting in the constructor: "+c.short(e.Val.Key()), c.witness(t, i)...)
					}
				}
			}
		}
		if ok && n > 0 {
			c.holds("C06.not-older-than-clock", "snowflake."+sp[0]+" epoch", fn.Pos(), "epoch computed from the current setting")
		} else if ok {
			c.undecided("C06.not-older-than-clock", "snowflake."+sp[0]+" epoch", fn.Pos(), "no store of the node's epoch found")
		}
	}
	// (6) NewNode seeds time and step with IDFields(min)
	if fn := c.mustFn(rel, "NewNode"); fn != nil {
		tm := c.field(rel, "HardNode", "time")
		step := c.field(rel, "HardNode", "step")
		traces, _ := c.Trace(fn, TraceConfig{Inline: noInl})
		ok, n := true, 0
		for _, t := range traces {
			if t.End != EndReturn || !t.Ret[1].isNilConst() {
				continue
			}
			n++
			var fields *Event
			for _, e := range t.Events {
				if e.Kind == EvCall && e.Callee != nil && e.Callee.Name() == "IDFields" && len(e.Args) == 1 && e.Args[0].Key() == t.Params[1].Key() {
					fields = e
				}
			}
			if fields == nil || fields.Res.Kind != KTuple || len(fields.Res.Args) != 3 {
				ok = false
				c.violated("C06.restart-seed", "snowflake.NewNode", fn.Pos(), "the restart point is not decoded with IDFields(last id)", c.witness(t, len(t.Events)-1)...)
				continue
			}
			gotT, gotS := false, false
			for _, e := range t.Events {
				if e.Kind == EvStore && e.Addr.isFieldAddrOf(tm) && e.Val.Key() == fields.Res.Args[0].Key() {
					gotT = true
				}
				if e.Kind == EvStore && e.Addr.isFieldAddrOf(step) && e.Val.Key() == fields.Res.Args[2].Key() {
					gotS = true
				}
			}
			if !(gotT && gotS) {
				ok = false
				c.violated("C06.restart-seed", "snowflake.NewNode", fn.Pos(), "a restarted node does not seed (time, step) with the timestamp and step of the last id: it can re-issue ids at or below the last one", c.witness(t, len(t.Events)-1)...)
			}
		}
		if ok && n > 0 {
			c.holds("C06.restart-seed", "snowflake.NewNode", fn.Pos(), "time, _, step = IDFields(min)")
		}
	}
	// (6a) the decoder NewNode relies on returns the whole timestamp field (every bit above node+step): a fixed
	// 41-bit mask truncates it for the 8/9-bit node layouts, and a restarted node then re-issues old ids
	if fn := c.mustFn(rel, "IDFields"); fn != nil {
		traces, _ := c.Trace(fn, TraceConfig{})
		good, n := true, 0
		for _, t := range traces {
			if t.End != EndReturn || len(t.Ret) != 3 {
				continue
			}
			n++
			r := t.Ret[0]
			if !(r.Kind == KBin && r.Op == token.SHR && r.Args[0].Key() == "$"+fn.Params[0].Name()) {
				good = false
			}
		}
		c.check(good && n > 0, "C06.restart-seed", "snowflake.IDFields time", fn.Pos(), "time = id >> timeShift, unmasked", "the timestamp IDFields returns is not the whole field above node and step (id >> timeShift): NewNode seeds a restarted node with a truncated time and the node issues ids at or below the last one")
	}
	// (6b) the unix-nano generators resume from the restart point they are given
	for _, ctor := range []string{"NewUnixNanoID", "NewUnixNanoNoLockID"} {
		fn := c.mustFn("idgen/nano", ctor)
		if fn == nil {
			continue
		}
		traces, _ := c.Trace(fn, TraceConfig{Inline: noInl})
		good, n := true, 0
		for _, t := range traces {
			if t.End != EndReturn {
				continue
			}
			n++
			seeded := false
			for _, e := range t.Events {
				if e.Kind == EvStore && e.Addr.Kind == KFieldAddr && e.Addr.Field.Name() == "current" && e.Addr.Args[0].Key() == t.Ret[0].Key() && e.Val.Key() == "$"+fn.Params[0].Name() {
					seeded = true
				}
			}
			if !seeded {
				good = false
			}
		}
		c.check(good && n > 0, "C06.restart-seed", "nano."+ctor, fn.Pos(), "current = the restart point", "the generator does not start from the restart point it is given: after a restart it can issue ids at or below ids issued before (whenever the clock reads lower than the last id)")
	}
	// (5) monotonic source
	if fn := c.mustFn(rel, "NewMonoNode"); fn != nil {
		epoch := c.mustField(rel, "MonoNode", "epoch")
		traces, _ := c.Trace(fn, TraceConfig{Inline: noInl})
		ok, n := true, 0
		for _, t := range traces {
			for i, e := range t.Events {
				if e.Kind != EvStore || epoch == nil || !e.Addr.isFieldAddrOf(epoch) {
					continue
				}
				n++
				// value = result of (time.Time).Add whose receiver is the result of time.Now()
				good := false
				for _, y := range t.Events {
					if y.Kind == EvCall && y.callName() == "(time.Time).Add" && y.Res.Key() == e.Val.Key() {
						for _, z := range t.Events {
							if z.Kind == EvCall && z.callName() == "time.Now" && z.Res.Key() == y.Args[0].Key() {
								good = true
							}
						}
					}
				}
				if !good && ok {
					ok = false
					c.violated("C06.mono-source", "snowflake.NewMonoNode", e.Pos, "the epoch is not time.Now().Add(..): a Time built with Unix/Date/UTC/Round has no monotonic reading, so time.Since(epoch) follows the wall clock and ids can go backwards when the clock is set back", c.witness(t, i)...)
				}
			}
		}
		if ok && n > 0 {
			c.holds("C06.mono-source", "snowflake.NewMonoNode", fn.Pos(), "epoch = time.Now().Add(d)")
		}
	}
	if fn := c.mustFn(rel, "(*MonoNode).Generate"); fn != nil {
		epoch := c.field(rel, "MonoNode", "epoch")
		traces, _ := c.Trace(fn, TraceConfig{Inline: noInl})
		ok, n := true, 0
		for _, t := range traces {
			for i, e := range t.Events {
				if e.Kind == EvCall && e.Callee != nil && e.Callee.Pkg != nil && e.Callee.Pkg.Pkg.Path() == "time" {
					switch e.callName() {
					case "time.Since":
						n++
						// MonoNode compares readings with ==: they must enter the critical section in clock order,
						// i.e. be taken while the node's mutex is held
						if muF := c.field(rel, "MonoNode", "mu"); muF != nil && ok {
							held := false
							for _, h := range t.heldLocks(i) {
								if _, is := lockIsField(h, muF); is {
									held = true
								}
							}
							if !held {
								ok = false
								c.violated("C06.mono-source", "(*snowflake.MonoNode).Generate", e.Pos, "the clock is read before the node's mutex is taken: a caller can enter the critical section with a reading older than the node's time, the `now == n.time` test then restarts an already used millisecond at step 0 and ids repeat", c.witness(t, i)...)
							}
						}
						if _, isE := isInitOfField(e.Args[0], epoch); !isE && ok {
							ok = false
							c.violated("C06.mono-source", "(*snowflake.MonoNode).Generate", e.Pos, "the clock is not read relative to the node's monotonic epoch", c.witness(t, i)...)
						}
					case "time.Now", "(time.Time).Unix", "(time.Time).UnixNano", "(time.Time).UnixMilli":
						if ok {
							ok = false
							c.violated("C06.mono-source", "(*snowflake.MonoNode).Generate", e.Pos, "the monotonic node reads the wall clock ("+e.callName()+")", c.witness(t, i)...)
						}
					}
				}
			}
		}
		if ok && n > 0 {
			c.holds("C06.mono-source", "(*snowflake.MonoNode).Generate", fn.Pos(), "time.Since(epoch)")
		} else if n == 0 {
			c.violated("C06.mono-source", "(*snowflake.MonoNode).Generate", fn.Pos(), "Generate does not read the clock with time.Since(epoch)", "")
		}
	}
}

func (c *Ctx) checkNano() {
	const rel = "idgen/nano"
	for _, typ := range []string{"UnixNanoID", "UnixNanoNoLockID"} {
		cur := c.mustField(rel, typ, "current")
		fn := c.mustFn(rel, "(*"+typ+").GenIDByTS")
		if cur == nil || fn == nil {
			continue
		}
		name := "(*nano." + typ + ").GenIDByTS"
		if typ == "UnixNanoID" {
			mu := c.mustField(rel, typ, "Mutex")
			if mu != nil {
				c.checkGuardedBy("C06.guarded-by", c.exportedMethods(rel, typ), []guard{{Field: cur, Mutex: mu, SameBase: true, Name: typ + ".current"}}, TraceConfig{}, nil)
			}
		}
		traces, _ := c.Trace(fn, TraceConfig{})
		ok, n := true, 0
		for _, t := range traces {
			if t.End != EndReturn {
				continue
			}
			n++
			facts := t.factsBefore(len(t.Events))
			var C0, C1 *Sym
			for _, e := range t.Events {
				if e.Kind == EvLoad && e.Addr.isFieldAddrOf(cur) && C0 == nil {
					C0 = e.Res
				}
				if e.Kind == EvStore && e.Addr.isFieldAddrOf(cur) {
					if C0 == nil {
						C0 = e.Old
					}
					C1 = e.Val
				}
			}
			good := C0 != nil && C1 != nil
			if good {
				switch {
				case hasFact(facts, func(f Fact) bool { return f.X.Key() == C1.Key() && f.Y.Key() == C0.Key() && f.Op == token.GTR }):
				case C1.Kind == KBin && C1.Op == token.ADD && C1.Args[0].Key() == C0.Key() && isPosConst(C1.Args[1]):
				default:
					good = false
				}
			}
			if good && t.Ret[0].Key() != C1.Key() {
				good = false
			}
			if !good && ok {
				ok = false
				c.violated("C06.progress", name, fn.Pos(), "on this path the stored value is not strictly above the previous one, or the id returned is not the stored value: ids can repeat or decrease", c.witness(t, len(t.Events)-1)...)
			}
		}
		if ok && n > 0 {
			c.holds("C06.progress", name, fn.Pos(), fmt.Sprintf("%d paths: current' = max(ts, current+1) > current, result = current'", n))
		}
	}
}

// derivesFrom: some leaf that s is computed from satisfies pred; results of opaque calls are followed back into
// the arguments (and receiver) of the call that produced them.
func derivesFrom(t *Trace, s *Sym, depth int, pred func(*Sym) bool) bool {
	if s == nil || depth > 8 {
		return false
	}
	found := false
	s.walk(func(x *Sym) {
		if found {
			return
		}
		if pred(x) {
			found = true
			return
		}
		if x.Kind == KFresh {
			for _, e := range t.Events {
				if e.Kind != EvCall || e.Res == nil {
					continue
				}
				hit := e.Res.Key() == x.Key()
				if !hit && e.Res.Kind == KTuple {
					for _, r := range e.Res.Args {
						if r != nil && r.Key() == x.Key() {
							hit = true
						}
					}
				}
				if hit {
					for _, a := range e.Args {
						if derivesFrom(t, a, depth+1, pred) {
							found = true
						}
					}
				}
			}
		}
	})
	return found
}
