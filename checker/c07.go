package main

import (
	"fmt"
	"go/constant"
	"go/token"
	"math/big"
	"sort"
	"strings"

	"golang.org/x/tools/go/ssa"
)

func init() {
	register(&Property{
		ID:       "C07",
		Patterns: []string{"./idgen/snowflake"},
		Explanation: "Decides with linear forms over the symbols nodeBits (N), StepBits (12) and epoch: (1) figureShift lays out, in both configurations, the node field [nodeShift, nodeShift+N) and the step field [stepShift, stepShift+12) disjointly from bit 0 up to timeShift = N+12; " +
			"(2) IDFields shifts by exactly those amounts and masks with (1<<N)-1 and (1<<12)-1, so split and recombine (C06 composes with the same figureShift) agree and ids order as (timestamp, remaining bits); " +
			"(3) every other shift by the time position (TimeIDRange, TimeBetweenID, CnStyle, FromChStyle) and every remainder mask has the same linear form N+12; (4) the date form: the encoder's width list sums to TimeStrLen and equals the decoder's slice widths in order, both directions use the same zone variable, epoch and mask; the node-width option only stores 8, 9 or 10 (so 7 digits hold the low bits); " +
			"(5) range functions: min = (Unix(t)*1000 - epoch) << (N+12) and max = that of the end instant | ((1<<(N+12))-1), begin used for min and end for max. " +
			"NOT decided: calendar round-trip of time.Date/time.Unix, overflow beyond the stated timestamp width.",
		Assumptions: []string{"time.Date/time.Unix/strconv.Atoi/fmt.Sprintf behave as documented"},
		Floors:      map[string]int{"C07.layout": 2, "C07.fields": 2, "C07.time-shift": 4, "C07.date-form": 4, "C07.range": 2},
		Run:         runC07,
	})
}

// linear form: sum coef[k]*sym_k + c over opaque symbols
type linForm struct {
	coef map[string]*big.Int
	c    *big.Int
}

func lfConst(v int64) linForm { return linForm{coef: map[string]*big.Int{}, c: big.NewInt(v)} }

func (a linForm) add(b linForm, sign int64) linForm {
	// the zero linForm (an absent slice bound) is the constant 0
	if a.c == nil {
		a.c = new(big.Int)
	}
	if b.c == nil {
		b.c = new(big.Int)
	}
	r := linForm{coef: map[string]*big.Int{}, c: new(big.Int).Set(a.c)}
	for k, v := range a.coef {
		r.coef[k] = new(big.Int).Set(v)
	}
	s := big.NewInt(sign)
	r.c.Add(r.c, new(big.Int).Mul(b.c, s))
	for k, v := range b.coef {
		if r.coef[k] == nil {
			r.coef[k] = new(big.Int)
		}
		r.coef[k].Add(r.coef[k], new(big.Int).Mul(v, s))
		if r.coef[k].Sign() == 0 {
			delete(r.coef, k)
		}
	}
	return r
}

func (a linForm) scale(m *big.Int) linForm {
	if a.c == nil {
		a.c = new(big.Int)
	}
	r := linForm{coef: map[string]*big.Int{}, c: new(big.Int).Mul(a.c, m)}
	for k, v := range a.coef {
		if p := new(big.Int).Mul(v, m); p.Sign() != 0 {
			r.coef[k] = p
		}
	}
	return r
}

func (a linForm) isConst() (*big.Int, bool) {
	if a.c == nil {
		return new(big.Int), len(a.coef) == 0
	}
	return a.c, len(a.coef) == 0
}

func (a linForm) String() string {
	var ks []string
	for k := range a.coef {
		ks = append(ks, k)
	}
	sort.Strings(ks)
	var parts []string
	for _, k := range ks {
		parts = append(parts, a.coef[k].String()+"*"+k)
	}
	if a.c == nil {
		a.c = new(big.Int)
	}
	if a.c.Sign() != 0 || len(parts) == 0 {
		parts = append(parts, a.c.String())
	}
	return strings.Join(parts, " + ")
}

func (a linForm) equal(b linForm) bool { return a.add(b, -1).String() == "0" }

// lf evaluates a Sym to a linear form; conversions between integer types are looked through
// (the forms are used for bit positions and millisecond arithmetic well inside the types' ranges).
func lf(s *Sym) linForm {
	switch s.Kind {
	case KConst:
		if s.Const != nil && s.Const.Kind() == constant.Int {
			if b, ok := new(big.Int).SetString(s.Const.ExactString(), 10); ok {
				return linForm{coef: map[string]*big.Int{}, c: b}
			}
		}
	case KConv:
		if s.Name == "convert" {
			return lf(s.Args[0])
		}
	case KBin:
		x, y := lf(s.Args[0]), lf(s.Args[1])
		switch s.Op {
		case token.ADD:
			return x.add(y, 1)
		case token.SUB:
			return x.add(y, -1)
		case token.MUL:
			if c, ok := y.isConst(); ok {
				return x.scale(c)
			}
			if c, ok := x.isConst(); ok {
				return y.scale(c)
			}
		case token.SHL:
			if c, ok := y.isConst(); ok && c.IsInt64() && c.Int64() >= 0 && c.Int64() < 63 {
				return x.scale(new(big.Int).Lsh(big.NewInt(1), uint(c.Int64())))
			}
		}
	}
	return linForm{coef: map[string]*big.Int{boundKey(s): big.NewInt(1)}, c: new(big.Int)}
}

func runC07(c *Ctx) {
	const rel = "idgen/snowflake"
	pkg := c.ssaPkg(rel)
	if pkg == nil {
		c.undecided("anchor", rel, 0, "package not loaded")
		return
	}
	glob := func(name string) string {
		g, _ := pkg.Members[name].(*ssa.Global)
		if g == nil {
			c.undecided("anchor", rel+"."+name, 0, "package variable not found")
			return "?"
		}
		return (&Sym{Kind: KInit, Args: []*Sym{{Kind: KGlobal, Ref: g}}}).Key()
	}
	N := glob("_nodeBits")
	E := glob("_epoch")
	LOC := glob("timeLoc")
	tsForm := linForm{coef: map[string]*big.Int{N: big.NewInt(1)}, c: big.NewInt(12)}
	nForm := linForm{coef: map[string]*big.Int{N: big.NewInt(1)}, c: new(big.Int)}

	// (1) layout
	c.checkSnowflakeLayout("C07.layout")

	// (2) IDFields
	if fn := c.mustFn(rel, "IDFields"); fn != nil {
		traces, _ := c.Trace(fn, TraceConfig{})
		n := 0
		for _, t := range traces {
			if t.End != EndReturn || len(t.Ret) != 3 {
				continue
			}
			n++
			cons := fmt.Sprintf("IDFields path %d", n)
			id := t.Params[0]
			tf, okT := bitFieldOf(t.Ret[0], id.Key())
			nf, okN := bitFieldOf(t.Ret[1], id.Key())
			sf, okS := bitFieldOf(t.Ret[2], id.Key())
			isZero := func(f linForm) bool { z, isC := f.isConst(); return isC && z.Sign() == 0 }
			okT = okT && tf.unbounded && isZero(tf.pos)
			okN = okN && !nf.unbounded && isZero(nf.pos)
			okS = okS && !sf.unbounded && isZero(sf.pos)
			tsF, ns, nw, ss, sw := tf.low, nf.low, nf.width, sf.low, sf.width
			good := okT && okN && okS && tsF.equal(tsForm) && nw.equal(nForm) && sw.equal(lfConst(12))
			if good {
				nodeEnd, stepEnd := ns.add(nw, 1), ss.add(sw, 1)
				if z, isC := ns.isConst(); isC && z.Sign() == 0 {
					good = ss.equal(nodeEnd) && stepEnd.equal(tsF)
				} else if z, isC := ss.isConst(); isC && z.Sign() == 0 {
					good = ns.equal(stepEnd) && nodeEnd.equal(tsF)
				} else {
					good = false
				}
			}
			c.check(good, "C07.fields", cons, fn.Pos(), "time = id>>(N+12), node/step shifted and masked by their own width", "IDFields does not split the id with the layout's shifts and the masks (1<<N)-1 / (1<<12)-1: splitting an id and recombining its fields no longer gives back the id", c.witness(t, len(t.Events)-1)...)
		}
		if n < 2 {
			c.undecided("C07.fields", "IDFields", fn.Pos(), "expected two configurations")
		}
	}

	// (3) every other use of the time position
	for _, name := range []string{"TimeIDRange", "TimeBetweenID", "CnStyle", "FromChStyle"} {
		fn := c.mustFn(rel, name)
		if fn == nil {
			continue
		}
		noTex := func(callee *ssa.Function, depth int) bool {
			// helpers of the package itself are entered (a shared range helper must not hide the shifts)
			return depth <= 3 && c.fnInModule(callee) && callee.Pkg != nil && strings.HasSuffix(callee.Pkg.Pkg.Path(), "/"+rel)
		}
		traces, _ := c.Trace(fn, TraceConfig{Inline: noTex})
		ok, nshift := true, 0
		seen := map[string]bool{}
		visit := func(t *Trace, s *Sym) {
			s.walk(func(x *Sym) {
				if x.Kind == KBin && (x.Op == token.SHL || x.Op == token.SHR) && !x.Args[1].isConst() && !seen[x.Key()] {
					seen[x.Key()] = true
					nshift++
					if f := lf(x.Args[1]); !f.equal(tsForm) && ok {
						ok = false
						c.violated("C07.time-shift", rel+"."+name, fn.Pos(), fmt.Sprintf("a shift by %s where the time position N+12 is required: this function places or reads the timestamp at a different bit position than the generators", f), c.witness(t, len(t.Events)-1)...)
					}
				}
			})
		}
		for _, t := range traces {
			for _, r := range t.Ret {
				visit(t, r)
			}
			for _, e := range t.Events {
				if e.Kind == EvCall {
					for _, a := range e.Args {
						visit(t, a)
					}
				}
			}
		}
		if ok && nshift > 0 {
			c.holds("C07.time-shift", rel+"."+name, fn.Pos(), fmt.Sprintf("%d shifts, all by N+12", nshift))
		} else if nshift == 0 {
			c.undecided("C07.time-shift", rel+"."+name, fn.Pos(), "no shift by the time position found")
		}
	}

	// (5) ranges
	unixOf := func(t *Trace, s *Sym) *Sym {
		// s is the result of (time.Time).Unix(x): return x
		for _, e := range t.Events {
			if e.Kind == EvCall && e.callName() == "(time.Time).Unix" && e.Res.Key() == boundKey(s) {
				return e.Args[0]
			}
		}
		return nil
	}
	rangeCheck := func(name string, minP, maxP int) {
		fn := c.mustFn(rel, name)
		if fn == nil {
			return
		}
		traces, _ := c.Trace(fn, TraceConfig{})
		ok, n := true, 0
		for _, t := range traces {
			if t.End != EndReturn || len(t.Ret) != 2 {
				continue
			}
			n++
			// min = ms(begin) << S ; max = (ms(end) << S) | ((1<<S)-1)
			msOf := func(s *Sym, p *Sym) bool {
				f := lf(s)
				// 1000*U - E
				if len(f.coef) != 2 || f.c.Sign() != 0 {
					return false
				}
				var uKey string
				for k, v := range f.coef {
					if k == E {
						if v.Cmp(big.NewInt(-1)) != 0 {
							return false
						}
					} else {
						if v.Cmp(big.NewInt(1000)) != 0 {
							return false
						}
						uKey = k
					}
				}
				if uKey == "" {
					return false
				}
				var usym *Sym
				s.walk(func(x *Sym) {
					if boundKey(x) == uKey {
						usym = x
					}
				})
				if usym == nil {
					return false
				}
				src := unixOf(t, usym)
				return src != nil && src.Key() == p.Key()
			}
			mn, mx := t.Ret[0], t.Ret[1]
			good := mn.Kind == KBin && mn.Op == token.SHL && lf(mn.Args[1]).equal(tsForm) && msOf(mn.Args[0], t.Params[minP])
			if good {
				good = mx.Kind == KBin && mx.Op == token.OR
			}
			if good {
				hi, mask := mx.Args[0], mx.Args[1]
				if !(hi.Kind == KBin && hi.Op == token.SHL) {
					hi, mask = mask, hi
				}
				good = hi.Kind == KBin && hi.Op == token.SHL && lf(hi.Args[1]).equal(tsForm) && msOf(hi.Args[0], t.Params[maxP])
				// mask = the low N+12 bits, in any of the usual spellings
				if good {
					w, isM := lowMaskWidth(mask)
					good = isM && w.equal(tsForm)
				}
			}
			if !good && ok {
				ok = false
				c.violated("C07.range", rel+"."+name, fn.Pos(), fmt.Sprintf("the id interval is not [ (Unix(begin)*1000-epoch)<<(N+12), ((Unix(end)*1000-epoch)<<(N+12)) | ((1<<(N+12))-1) ]: min=%s max=%s — ids inside the time interval fall outside it, or ids outside fall in", c.short(mn.Key()), c.short(mx.Key())), c.witness(t, len(t.Events)-1)...)
			}
		}
		if ok && n > 0 {
			c.holds("C07.range", rel+"."+name, fn.Pos(), "")
		}
	}
	rangeCheck("TimeIDRange", 0, 0)
	rangeCheck("TimeBetweenID", 0, 1)

	// (4) date form
	c.checkDateForm(rel, E, LOC, tsForm)
	c.checkIDParse(rel, E)
}

func (c *Ctx) checkDateForm(rel, E, LOC string, tsForm linForm) {
	enc := c.mustFn(rel, "CnStyle")
	dec := c.mustFn(rel, "FromChStyle")
	if enc == nil || dec == nil {
		return
	}
	noInl := func(callee *ssa.Function, depth int) bool { return false }
	// the encoder may be built from the package's own helpers (IDParse, a shared ms->time helper, ...): enter them
	encInl := func(callee *ssa.Function, depth int) bool {
		return depth <= 4 && c.fnInModule(callee) && callee.Pkg != nil && strings.HasSuffix(callee.Pkg.Pkg.Path(), "/"+rel)
	}
	// encoder widths from the Sprintf formats in order
	var encW []int64
	encOK := true
	{
		traces, _ := c.Trace(enc, TraceConfig{Inline: encInl})
		for _, t := range traces {
			if t.End != EndReturn {
				continue
			}
			var w []int64
			usesLoc, usesEpoch, maskOK := false, false, false
			for _, e := range t.Events {
				if e.Kind == EvCall && (e.callName() == "fmt.Sprintf" || e.callName() == "fmt.Fprintf" || e.callName() == "fmt.Appendf") && len(e.Args) >= 1 {
					// one or several zero-padded decimal verbs per format, nothing else (Fprintf into a builder and
					// Appendf onto a slice produce the same text: the format is their second argument)
					fa := e.Args[0]
					if e.callName() != "fmt.Sprintf" && len(e.Args) >= 2 {
						fa = e.Args[1]
					}
					f, ok := constStr(fa)
					rest := f
					for ok && rest != "" {
						var n int64
						if !strings.HasPrefix(rest, "%0") {
							ok = false
							break
						}
						j := 2
						for j < len(rest) && rest[j] >= '0' && rest[j] <= '9' {
							n = n*10 + int64(rest[j]-'0')
							j++
						}
						if j == 2 || j >= len(rest) || rest[j] != 'd' {
							ok = false
							break
						}
						w = append(w, n)
						rest = rest[j+1:]
					}
					if !ok {
						encOK = false
					}
				}
				if e.Kind == EvCall && e.callName() == "(time.Time).In" && len(e.Args) == 2 && e.Args[1].Key() == LOC {
					usesLoc = true
				}
				if e.Kind == EvCall && (e.callName() == "time.Unix" || e.callName() == "time.UnixMilli") {
					for _, a := range e.Args {
						if a.mentions(E) {
							usesEpoch = true
						}
					}
				}
			}
			for _, e := range t.Events {
				if e.Kind == EvStore || e.Kind == EvCall {
					vals := e.Args
					if e.Kind == EvStore {
						vals = []*Sym{e.Val}
					}
					for _, a := range vals {
						if a == nil {
							continue
						}
						a.walk(func(x *Sym) {
							// the remainder: the low N+12 bits of the id, in any spelling
							if bf, isF := bitFieldOf(x, t.Params[0].Key()); isF && !bf.unbounded && bf.width.equal(tsForm) {
								if z, isC := bf.low.isConst(); isC && z.Sign() == 0 {
									if z2, isC2 := bf.pos.isConst(); isC2 && z2.Sign() == 0 {
										maskOK = true
									}
								}
							}
						})
					}
				}
			}
			encW = w
			if !usesLoc || !usesEpoch || !maskOK {
				encOK = false
				c.violated("C07.date-form", rel+".CnStyle", enc.Pos(), fmt.Sprintf("the encoder does not use the package zone (%v), the epoch (%v) and the low-bits mask (1<<(N+12))-1 (%v)", usesLoc, usesEpoch, maskOK), c.witness(t, len(t.Events)-1)...)
			}
		}
		var sum int64
		for _, x := range encW {
			sum += x
		}
		if encOK {
			c.check(sum == 24 && len(encW) == 8, "C07.date-form", rel+".CnStyle widths", enc.Pos(), fmt.Sprintf("widths %v sum to TimeStrLen", encW), fmt.Sprintf("the encoder's field widths %v do not sum to TimeStrLen (24): the date form no longer has the length the decoder requires", encW))
		}
	}
	// decoder: slices of the input in evaluation order on the all-success path
	{
		traces, _ := c.Trace(dec, TraceConfig{Inline: noInl})
		var best *Trace
		for _, t := range traces {
			if t.End == EndReturn && len(t.Ret) == 2 && t.Ret[1].isNilConst() {
				if best == nil || len(t.Events) > len(best.Events) {
					best = t
				}
			}
		}
		if best == nil {
			c.undecided("C07.date-form", rel+".FromChStyle", dec.Pos(), "no successful path")
			return
		}
		t := best
		v := t.Params[0]
		type sl struct {
			lo, hi linForm
			open   bool
		}
		// slices of the input handed to Atoi, per call site in source order; a site inside the loop has a
		// constant form (first iteration) and a form linear in the loop variable (generalised iteration),
		// the latter possibly only on paths that stay in the loop
		siteForms := map[token.Pos][]sl{}
		var sites []token.Pos
		var loopBound int64 = -1
		for _, tt := range traces {
			for _, e := range tt.Events {
				if e.Kind == EvCall && e.callName() == "strconv.Atoi" {
					a := e.Args[0]
					if a.Kind == KOp && a.Name == "slice" && a.Args[0].Key() == v.Key() {
						x := sl{lo: lfConst(0)}
						if a.Args[1].Name != "none" {
							x.lo = lf(a.Args[1])
						}
						if a.Args[2].Name != "none" {
							x.hi = lf(a.Args[2])
						} else {
							x.open = true
						}
						dup := false
						for _, o := range siteForms[e.Pos] {
							if o.lo.String() == x.lo.String() && o.open == x.open && (x.open || o.hi.String() == x.hi.String()) {
								dup = true
							}
						}
						if !dup {
							if len(siteForms[e.Pos]) == 0 {
								sites = append(sites, e.Pos)
							}
							siteForms[e.Pos] = append(siteForms[e.Pos], x)
						}
					}
				}
				if e.Kind == EvBranch && e.Gen && e.Cond.Kind == KBin && e.Cond.Op == token.LSS {
					if b, ok := e.Cond.Args[1].intConst(); ok {
						loopBound = b
					}
				}
			}
		}
		sort.Slice(sites, func(a, b int) bool { return sites[a] < sites[b] })
		var sls []sl
		for _, p := range sites {
			fs := siteForms[p]
			sort.SliceStable(fs, func(a, b int) bool { return len(fs[a].lo.coef) < len(fs[b].lo.coef) })
			sls = append(sls, fs...)
		}
		// expand: constant slices as they are; a generalised-iteration slice (linear in the loop variable)
		// stands for iterations 1..bound-1
		var decW []int64
		pos := int64(0)
		contiguous := true
		for _, s := range sls {
			if lc, ok := s.lo.isConst(); ok {
				if lc.Int64() != pos {
					contiguous = false
				}
				if s.open {
					decW = append(decW, 24-pos)
					pos = 24
					continue
				}
				hc, ok2 := s.hi.isConst()
				if !ok2 {
					contiguous = false
					continue
				}
				decW = append(decW, hc.Int64()-lc.Int64())
				pos = hc.Int64()
				continue
			}
			// linear in one loop symbol: lo = a*i + b, hi = a*i + b + w ; iterations i = 1..bound-1 given the
			// first iteration (i=0) was the preceding constant slice
			w := s.hi.add(s.lo, -1)
			wc, ok := w.isConst()
			if !ok || len(s.lo.coef) != 1 || loopBound < 0 {
				contiguous = false
				continue
			}
			var a *big.Int
			for _, cv := range s.lo.coef {
				a = cv
			}
			// the generalised loop variable is (loop+1): lo = a*loop + b where iteration index = loop+1
			if a.Cmp(wc) != 0 {
				contiguous = false // stride differs from width: gaps or overlaps
			}
			for i := int64(1); i < loopBound; i++ {
				decW = append(decW, wc.Int64())
				pos += wc.Int64()
			}
		}
		same := len(decW) == len(encW)
		if same {
			for i := range decW {
				if decW[i] != encW[i] {
					same = false
				}
			}
		}
		c.check(same && contiguous && pos == 24, "C07.date-form", rel+".FromChStyle widths", dec.Pos(), fmt.Sprintf("decoder widths %v partition [0,24) like the encoder", decW),
			fmt.Sprintf("the decoder cuts the date form into widths %v (contiguous=%v, end=%d) while the encoder writes %v: converting an id to its date form and back yields a different id", decW, contiguous, pos, encW), c.witness(t, len(t.Events)-1)...)
		// zone, epoch, shift, low bits
		usesLoc, usesEpoch := false, false
		for _, e := range t.Events {
			if e.Kind == EvCall && e.callName() == "time.Date" && e.Args[len(e.Args)-1].Key() == LOC {
				usesLoc = true
			}
		}
		id := t.Ret[0]
		if id.mentions(E) {
			usesEpoch = true
		}
		form := id.Kind == KBin && id.Op == token.OR
		if form {
			hi := id.Args[0]
			form = hi.Kind == KBin && hi.Op == token.SHL && lf(hi.Args[1]).equal(tsForm)
		}
		c.check(usesLoc && usesEpoch && form, "C07.date-form", rel+".FromChStyle recombine", dec.Pos(), "", fmt.Sprintf("the decoder does not rebuild the id as ((ms - epoch) << (N+12)) | low with the package zone (zone=%v epoch=%v form=%v)", usesLoc, usesEpoch, form), c.witness(t, len(t.Events)-1)...)
	}
	// node-width option stores only 8, 9, 10
	if fn := c.mustFn(rel, "UseNodeMode"); fn != nil && len(fn.AnonFuncs) == 1 {
		cl := fn.AnonFuncs[0]
		traces, _ := c.Trace(cl, TraceConfig{})
		ok, n := true, 0
		for _, t := range traces {
			for i, e := range t.Events {
				if e.Kind == EvStore && e.Addr.Kind == KFieldAddr && e.Addr.Field.Name() == "nodeBits" {
					n++
					v := e.Val
					for v.Kind == KConv {
						v = v.Args[0]
					}
					good := false
					if cv, isC := v.intConst(); isC && (cv == 8 || cv == 9 || cv == 10) {
						good = true
					}
					for _, f := range t.factsBefore(i) {
						if f.X.Key() == v.Key() && f.Op == token.EQL {
							if cv, isC := f.Y.intConst(); isC && (cv == 8 || cv == 9 || cv == 10) {
								good = true
							}
						}
					}
					if !good {
						ok = false
					}
				}
			}
		}
		c.check(ok && n > 0, "C07.date-form", rel+".UseNodeMode", fn.Pos(), "node width in {8,9,10}: low bits < 2^22 < 10^7", "the node-width option can store a width other than 8, 9 or 10: the low bits no longer fit the 7 digits of the date form")
	}
}

// factsImplyGE0 reports whether one of the branch facts, read as a linear inequality e >= 0, entails target >= 0
// (target = e + k with a constant k >= 0). Single-fact implication only: sound, not complete.
func factsImplyGE0(facts []Fact, target linForm) bool {
	for _, f := range facts {
		d := lf(f.X).add(lf(f.Y), -1)
		var es []linForm
		switch f.Op {
		case token.GEQ:
			es = []linForm{d}
		case token.GTR:
			es = []linForm{d.add(lfConst(1), -1)}
		case token.LEQ:
			es = []linForm{d.scale(big.NewInt(-1))}
		case token.LSS:
			es = []linForm{d.scale(big.NewInt(-1)).add(lfConst(1), -1)}
		case token.EQL:
			es = []linForm{d, d.scale(big.NewInt(-1))}
		}
		for _, e := range es {
			if k, isC := target.add(e, -1).isConst(); isC && k.Sign() >= 0 {
				return true
			}
		}
	}
	return false
}

// checkIDParse: the two convenience splitters are IDFields plus the epoch: IDParse returns (time+epoch, node, step)
// of IDFields(id); IDParseEx turns IDParse's millisecond stamp into time.Unix(ms/1000, (ms%1000)*1e6) and passes
// node and step through. Recombining what they return therefore gives the id back, as for IDFields.
func (c *Ctx) checkIDParse(rel, E string) {
	noInl := func(*ssa.Function, int) bool { return false }
	if fn := c.mustFn(rel, "IDParse"); fn != nil {
		ts, _ := c.Trace(fn, TraceConfig{Inline: noInl})
		good, n := true, 0
		for _, t := range ts {
			if t.End != EndReturn || len(t.Ret) != 3 {
				continue
			}
			n++
			var f *Event
			for _, e := range t.Events {
				if e.Kind == EvCall && e.Callee != nil && e.Callee.Name() == "IDFields" && len(e.Args) == 1 && e.Args[0].Key() == "$"+fn.Params[0].Name() {
					f = e
				}
			}
			if f == nil || f.Res.Kind != KTuple || len(f.Res.Args) != 3 {
				good = false
				continue
			}
			want := lf(f.Res.Args[0]).add(linForm{coef: map[string]*big.Int{E: big.NewInt(1)}, c: new(big.Int)}, 1)
			if !lf(t.Ret[0]).equal(want) || t.Ret[1].Key() != f.Res.Args[1].Key() || t.Ret[2].Key() != f.Res.Args[2].Key() {
				good = false
			}
		}
		c.check(good && n > 0, "C07.fields", "IDParse", fn.Pos(), "IDFields(id) with the epoch added to the timestamp", "IDParse is not (IDFields(id).time + epoch, node, step): splitting with it and recombining no longer gives the id back")
	}
	if fn := c.mustFn(rel, "IDParseEx"); fn != nil {
		helpers := func(callee *ssa.Function, depth int) bool {
			return depth <= 3 && c.fnInModule(callee) && callee.Pkg != nil && strings.HasSuffix(callee.Pkg.Pkg.Path(), "/"+rel) && callee.Name() != "IDParse" && callee.Name() != "IDFields"
		}
		ts, _ := c.Trace(fn, TraceConfig{Inline: helpers})
		good, n := true, 0
		for _, t := range ts {
			if t.End != EndReturn || len(t.Ret) != 3 {
				continue
			}
			n++
			var p, u *Event
			for _, e := range t.Events {
				if e.Kind == EvCall && e.Callee != nil && e.Callee.Name() == "IDParse" && len(e.Args) == 1 && e.Args[0].Key() == "$"+fn.Params[0].Name() {
					p = e
				}
				if e.Kind == EvCall && (e.callName() == "time.Unix" || e.callName() == "time.UnixMilli") {
					u = e
				}
			}
			// time.UnixMilli(ms) is by definition time.Unix(ms/1000, (ms%1000)*1e6)
			if p != nil && u != nil && u.callName() == "time.UnixMilli" && p.Res.Kind == KTuple && len(u.Args) == 1 {
				if u.Args[0].Key() != p.Res.Args[0].Key() || t.Ret[1].Key() != p.Res.Args[1].Key() || t.Ret[2].Key() != p.Res.Args[2].Key() {
					good = false
				}
				continue
			}
			if p == nil || u == nil || p.Res.Kind != KTuple || len(u.Args) != 2 {
				good = false
				continue
			}
			ms := p.Res.Args[0].Key()
			sec, nsec := u.Args[0], u.Args[1]
			secOK := sec.Kind == KBin && sec.Op == token.QUO && sec.Args[0].Key() == ms && isIntConst(sec.Args[1], 1000)
			nsOK := nsec.Kind == KBin && nsec.Op == token.MUL && isIntConst(nsec.Args[1], 1000000) && nsec.Args[0].Kind == KBin && nsec.Args[0].Op == token.REM && nsec.Args[0].Args[0].Key() == ms && isIntConst(nsec.Args[0].Args[1], 1000)
			if !secOK || !nsOK || t.Ret[1].Key() != p.Res.Args[1].Key() || t.Ret[2].Key() != p.Res.Args[2].Key() {
				good = false
			}
		}
		c.check(good && n > 0, "C07.fields", "IDParseEx", fn.Pos(), "time.Unix(ms/1000, (ms%1000)*1e6) of IDParse", "IDParseEx does not convert IDParse's millisecond stamp exactly (seconds = ms/1000, nanoseconds = (ms%1000)*1e6) or does not pass node and step through")
	}
}

func isIntConst(s *Sym, v int64) bool {
	k, ok := s.intConst()
	return ok && k == v
}

// lowMaskWidth: m is a mask of the w lowest bits, written in any of the usual ways: a constant 2^w-1,
// (1<<w)-1, ^(-1<<w) (also with the -1 typed). Returns w as a linear form.
func lowMaskWidth(m *Sym) (linForm, bool) {
	for m.Kind == KConv && m.Name == "convert" {
		m = m.Args[0]
	}
	if v, isC := m.intConst(); isC && v > 0 && v&(v+1) == 0 {
		w := 0
		for x := v; x > 0; x >>= 1 {
			w++
		}
		return lfConst(int64(w)), true
	}
	if m.Kind == KBin && m.Op == token.SUB {
		if isIntConst(m.Args[1], 1) && m.Args[0].Kind == KBin && m.Args[0].Op == token.SHL && isIntConst(m.Args[0].Args[0], 1) {
			return lf(m.Args[0].Args[1]), true
		}
	}
	if m.Kind == KUn && m.Op == token.XOR {
		x := m.Args[0]
		for x.Kind == KConv && x.Name == "convert" {
			x = x.Args[0]
		}
		if x.Kind == KBin && x.Op == token.SHL && isIntConst(x.Args[0].strip(), -1) {
			return lf(x.Args[1]), true
		}
	}
	return linForm{}, false
}

// bitField normalises an expression over `id` built from shifts and low-bit masks into
// ((id >> low) & mask(width)) << pos ; unbounded = no mask applied (all bits above low).
type bitField struct {
	low, width, pos linForm
	unbounded       bool
}

func bitFieldOf(s *Sym, idKey string) (bitField, bool) {
	zero := lfConst(0)
	for s.Kind == KConv && s.Name == "convert" {
		s = s.Args[0]
	}
	if s.Key() == idKey {
		return bitField{low: zero, pos: zero, unbounded: true}, true
	}
	if s.Kind != KBin {
		return bitField{}, false
	}
	switch s.Op {
	case token.SHR:
		x, ok := bitFieldOf(s.Args[0], idKey)
		if !ok {
			return bitField{}, false
		}
		sh := lf(s.Args[1])
		if x.pos.equal(sh) { // in-place field shifted down
			x.pos = zero
			return x, true
		}
		if z, isC := x.pos.isConst(); isC && z.Sign() == 0 {
			x.low = x.low.add(sh, 1)
			if !x.unbounded {
				x.width = x.width.add(sh, -1)
			}
			return x, true
		}
	case token.SHL:
		x, ok := bitFieldOf(s.Args[0], idKey)
		if !ok {
			return bitField{}, false
		}
		x.pos = x.pos.add(lf(s.Args[1]), 1)
		return x, true
	case token.AND, token.AND_NOT:
		for i := 0; i < 2; i++ {
			x, ok := bitFieldOf(s.Args[i], idKey)
			if !ok {
				continue
			}
			m := s.Args[1-i]
			if s.Op == token.AND_NOT {
				if i != 0 {
					continue
				}
				// id &^ (-1 << w)  ==  id & ^(-1 << w)
				m = &Sym{Kind: KUn, Op: token.XOR, Args: []*Sym{m}}
			}
			if w, isM := lowMaskWidth(m); isM && x.unbounded {
				if z, isC := x.pos.isConst(); isC && z.Sign() == 0 {
					x.width, x.unbounded = w, false
					return x, true
				}
			}
			// mask shifted into place: id & (mask(w) << p)
			mm := m
			for mm.Kind == KConv && mm.Name == "convert" {
				mm = mm.Args[0]
			}
			if mm.Kind == KBin && mm.Op == token.SHL && x.unbounded {
				if w, isM := lowMaskWidth(mm.Args[0]); isM {
					if z, isC := x.pos.isConst(); isC && z.Sign() == 0 {
						if l0, isC0 := x.low.isConst(); isC0 && l0.Sign() == 0 {
							p := lf(mm.Args[1])
							return bitField{low: p, width: w, pos: p}, true
						}
					}
				}
			}
		}
	}
	return bitField{}, false
}

// checkSnowflakeLayout: figureShift yields, in both configurations, a contiguous and disjoint layout
// [step|node] or [node|step] below timeShift = nodeBits + 12 (shared by C07, which splits ids, and C06, whose
// distinct (time, step) pairs are distinct ids only under it).
func (c *Ctx) checkSnowflakeLayout(rule string) {
	const rel = "idgen/snowflake"
	pkg := c.ssaPkg(rel)
	if pkg == nil {
		return
	}
	g, _ := pkg.Members["_nodeBits"].(*ssa.Global)
	if g == nil {
		c.undecided("anchor", rel+"._nodeBits", 0, "package variable not found")
		return
	}
	N := (&Sym{Kind: KInit, Args: []*Sym{{Kind: KGlobal, Ref: g}}}).Key()
	tsForm := linForm{coef: map[string]*big.Int{N: big.NewInt(1)}, c: big.NewInt(12)}
	nForm := linForm{coef: map[string]*big.Int{N: big.NewInt(1)}, c: new(big.Int)}
	fs := c.mustFn(rel, "figureShift")
	if fs != nil {
		traces, _ := c.Trace(fs, TraceConfig{})
		n := 0
		for _, t := range traces {
			if t.End != EndReturn || len(t.Ret) != 3 {
				continue
			}
			n++
			cons := fmt.Sprintf("figureShift path %d", n)
			ts, ns, ss := lf(t.Ret[0]), lf(t.Ret[1]), lf(t.Ret[2])
			nodeEnd, stepEnd := ns.add(nForm, 1), ss.add(lfConst(12), 1)
			okL := ts.equal(tsForm)
			// lower field starts at 0, upper field starts where the lower ends, upper ends at timeShift
			var layout bool
			if z, isC := ns.isConst(); isC && z.Sign() == 0 {
				layout = ss.equal(nodeEnd) && stepEnd.equal(ts)
			} else if z, isC := ss.isConst(); isC && z.Sign() == 0 {
				layout = ns.equal(stepEnd) && nodeEnd.equal(ts)
			}
			c.check(okL && layout, rule, cons, fs.Pos(), fmt.Sprintf("time>>%s node@%s step@%s", ts, ns, ss),
				fmt.Sprintf("the bit layout is not contiguous and disjoint: timeShift=%s nodeShift=%s (width N) stepShift=%s (width 12): fields overlap or leave a gap, so split/recombine and id ordering break", ts, ns, ss), c.witness(t, len(t.Events)-1)...)
		}
		if n < 2 {
			c.undecided(rule, "figureShift", fs.Pos(), "expected the two configurations (node at lowest or not)")
		}
	}

}
