package main

import (
	"encoding/json"
	"fmt"
	"go/token"
	"go/types"
	"os"
	"path/filepath"
	"sort"
	"strings"
	"time"

	"golang.org/x/tools/go/packages"
	"golang.org/x/tools/go/ssa"
)

// Status of one obligation.
type Status string

const (
	Holds     Status = "HOLDS"
	Violated  Status = "VIOLATED"
	Undecided Status = "UNDECIDED"
)

// Obligation is one rule instance, keyed by Rule+Construct (never by line).
type Obligation struct {
	Rule      string   `json:"rule"`
	Construct string   `json:"construct"`
	Status    Status   `json:"status"`
	Detail    string   `json:"detail,omitempty"`
	Pos       string   `json:"pos,omitempty"`
	Witness   []string `json:"witness,omitempty"`
	Known     string   `json:"known_finding,omitempty"`
}

func (o *Obligation) Key() string { return o.Rule + " @ " + o.Construct }

// Property is one registered check.
type Property struct {
	ID          string
	Patterns    []string // package patterns relative to the repo root
	Explanation string   // what is decided and what is not
	Assumptions []string
	Run         func(c *Ctx)
	// Floors: rule -> minimal number of obligations that must exist (a rule that lost its subject fails).
	Floors map[string]int
}

var registry = map[string]*Property{}

func register(p *Property) { registry[p.ID] = p }

// Ctx is the state of one run.
type Ctx struct {
	Prop          *Property
	Tier          string
	RepoDir       string
	VerifDir      string
	Fset          *token.FileSet
	Pkgs          []*packages.Package
	AllPkgs       map[string]*packages.Package
	Prog          *ssa.Program
	Obls          []*Obligation
	oblIdx        map[string]*Obligation
	Stats         map[string]int
	Traced        map[*ssa.Function]bool
	Notes         []string
	Tables        map[string]interface{}
	ModPath       string
	GOARCH        string
	mutFields     map[*types.Var]bool
	nonNilGlobals map[*ssa.Global]bool
	nonNilDone    map[*ssa.Global]bool
	pureMemo      map[*ssa.Function]int
	initOnly      map[*ssa.Global]bool
	initOnlyDone  map[*ssa.Global]bool
	aliasOf       map[*ssa.Global]*ssa.Global
	callersOf     map[*ssa.Function][]ssa.CallInstruction
	usedAsValue   map[*ssa.Function]bool
}

func (c *Ctx) note(format string, a ...interface{}) {
	c.Notes = append(c.Notes, fmt.Sprintf(format, a...))
}

func (c *Ctx) stat(k string, n int) { c.Stats[k] += n }

// traced records that fn's body was walked by the path enumerator (as an entry point or inlined).
func (c *Ctx) traced(fn *ssa.Function) {
	if c.Traced == nil {
		c.Traced = map[*ssa.Function]bool{}
	}
	c.Traced[fn] = true
}

// add registers an obligation; if the same rule+construct is reported twice the worse status wins
// (VIOLATED > UNDECIDED > HOLDS) and details are concatenated.
func (c *Ctx) add(rule, construct string, st Status, pos token.Pos, detail string, witness []string) *Obligation {
	o := &Obligation{Rule: rule, Construct: construct, Status: st, Detail: detail, Witness: witness}
	if pos.IsValid() {
		o.Pos = c.posStr(pos)
	}
	if old, ok := c.oblIdx[o.Key()]; ok {
		if rank(st) > rank(old.Status) {
			old.Status, old.Detail, old.Pos, old.Witness = st, detail, o.Pos, witness
		} else if rank(st) == rank(old.Status) && st != Holds && detail != "" && !strings.Contains(old.Detail, detail) && len(old.Detail) < 2000 {
			old.Detail += " | " + detail
		}
		return old
	}
	c.oblIdx[o.Key()] = o
	c.Obls = append(c.Obls, o)
	return o
}

func rank(s Status) int {
	switch s {
	case Violated:
		return 2
	case Undecided:
		return 1
	}
	return 0
}

func (c *Ctx) holds(rule, construct string, pos token.Pos, detail string) {
	c.add(rule, construct, Holds, pos, detail, nil)
}
func (c *Ctx) violated(rule, construct string, pos token.Pos, detail string, witness ...string) {
	c.add(rule, construct, Violated, pos, detail, witness)
}
func (c *Ctx) undecided(rule, construct string, pos token.Pos, detail string) {
	c.add(rule, construct, Undecided, pos, detail, nil)
}

// check is a convenience: HOLDS when ok, VIOLATED otherwise.
func (c *Ctx) check(ok bool, rule, construct string, pos token.Pos, okDetail, badDetail string, witness ...string) bool {
	if ok {
		c.holds(rule, construct, pos, okDetail)
	} else {
		c.violated(rule, construct, pos, badDetail, witness...)
	}
	return ok
}

func (c *Ctx) posStr(p token.Pos) string {
	if !p.IsValid() {
		return ""
	}
	ps := c.Fset.Position(p)
	f := ps.Filename
	if rel, err := filepath.Rel(c.RepoDir, f); err == nil && !strings.HasPrefix(rel, "..") {
		f = rel
	}
	return fmt.Sprintf("%s:%d", f, ps.Line)
}

// ---------------------------------------------------------------------------------------------
// known findings

type KnownFinding struct {
	Property  string `json:"property"`
	Rule      string `json:"rule"`
	Construct string `json:"construct"`
	What      string `json:"what"`
	Status    string `json:"status"` // "open" or "fixed: property=<id> <commit> <what failed>"
}

func loadKnown(verifDir string) ([]KnownFinding, error) {
	b, err := os.ReadFile(filepath.Join(verifDir, "known_findings.json"))
	if err != nil {
		if os.IsNotExist(err) {
			return nil, nil
		}
		return nil, err
	}
	var k struct {
		Findings []KnownFinding `json:"findings"`
	}
	if err := json.Unmarshal(b, &k); err != nil {
		return nil, err
	}
	return k.Findings, nil
}

// ---------------------------------------------------------------------------------------------
// finishing a run: evidence, reports, exit status

type evidence struct {
	PropertyID  string                 `json:"property_id"`
	Tier        string                 `json:"tier"`
	Seed        int                    `json:"seed"`
	Level       string                 `json:"level"`
	Coverage    map[string]interface{} `json:"coverage"`
	Assumptions []string               `json:"assumptions"`
	WallS       float64                `json:"wall_s"`
	Violations  int                    `json:"violations"`
}

func (c *Ctx) finish(start time.Time, seed int, fatal error) int {
	p := c.Prop
	known, kerr := loadKnown(c.VerifDir)
	if kerr != nil {
		fmt.Printf("cannot read known_findings.json: %v\n", kerr)
		fatal = kerr
	}
	// floors
	counts := map[string]int{}
	for _, o := range c.Obls {
		counts[o.Rule]++
	}
	if fatal == nil {
		rules := make([]string, 0, len(p.Floors))
		for r := range p.Floors {
			rules = append(rules, r)
		}
		sort.Strings(rules)
		for _, r := range rules {
			if counts[r] < p.Floors[r] {
				c.undecided("floor", r, token.NoPos, fmt.Sprintf("rule %s produced %d obligations, fewer than the %d confirmed by hand: the rule lost its subject", r, counts[r], p.Floors[r]))
			}
		}
	} else {
		c.undecided("run", "checker", token.NoPos, "the analysis did not complete: "+fatal.Error())
	}
	sort.SliceStable(c.Obls, func(i, j int) bool { return c.Obls[i].Key() < c.Obls[j].Key() })

	outBase := c.VerifDir
	if outDirGlobal != "" {
		outBase = outDirGlobal
	}
	repDir := filepath.Join(outBase, "reports", p.ID)
	os.RemoveAll(repDir)
	nviol, nknown, ndis := 0, 0, 0
	exit := 0
	for _, o := range c.Obls {
		if o.Status == Holds {
			ndis++
			continue
		}
		matched := false
		for _, k := range known {
			if k.Property == p.ID && k.Rule == o.Rule && k.Construct == o.Construct && k.Status == "open" && o.Status == Violated {
				fmt.Printf("KNOWN-FINDING: property=%s %s [%s @ %s]\n", p.ID, k.What, o.Rule, o.Construct)
				o.Known = k.What
				matched = true
				nknown++
				break
			}
		}
		if matched {
			continue
		}
		nviol++
		exit = 1
		os.MkdirAll(repDir, 0o755)
		path := filepath.Join(repDir, fmt.Sprintf("violation-%d.json", nviol))
		rep := map[string]interface{}{"property": p.ID, "tier": c.Tier, "obligation": o}
		b, _ := json.MarshalIndent(rep, "", " ")
		os.WriteFile(path, b, 0o644)
		fmt.Printf("%s %s: rule=%s construct=%s\n    %s\n", o.Status, o.Pos, o.Rule, o.Construct, o.Detail)
		for _, w := range o.Witness {
			fmt.Printf("      %s\n", w)
		}
		fmt.Printf("VIOLATION property=%s replay=%s\n", p.ID, path)
	}

	// evidence
	samples := []interface{}{}
	perRule := map[string]int{}
	for _, o := range c.Obls {
		if o.Status != Holds || perRule[o.Rule] < 3 {
			if len(samples) < 60 {
				samples = append(samples, o)
			}
			perRule[o.Rule]++
		}
	}
	pk := []string{}
	for _, pkg := range c.Pkgs {
		pk = append(pk, pkg.PkgPath)
	}
	cov := map[string]interface{}{
		"explanation":        p.Explanation,
		"obligations":        len(c.Obls),
		"discharged":         ndis,
		"known_findings":     nknown,
		"rule_instances":     counts,
		"rule_floors":        p.Floors,
		"samples":            samples,
		"packages_analysed":  pk,
		"packages_with_deps": len(c.AllPkgs),
		"stats":              c.Stats,
		"notes":              c.Notes,
		"goarch":             c.GOARCH,
		"checker_cmd":        fmt.Sprintf("bin/nepcheck -property %s -tier %s", p.ID, c.Tier),
		"trusted_base":       []string{"go/types, go/ssa (x/tools v0.29.0)", "nepcheck engines (path enumeration, lockset, range evaluation, sibling comparison)", "frozen per-property tables printed under coverage.tables"},
		"exhaustive":         false,
	}
	if len(c.Tables) > 0 {
		cov["tables"] = c.Tables
	}
	// which functions of the analysed packages had their bodies walked, and which did not (the blind spots)
	if walked, not := c.functionCoverage(); walked+len(not) > 0 {
		cov["functions_walked"] = walked
		cov["functions_not_walked"] = not
	}
	ev := evidence{PropertyID: p.ID, Tier: c.Tier, Seed: seed, Level: "other", Coverage: cov,
		Assumptions: p.Assumptions, WallS: time.Since(start).Seconds(), Violations: nviol}
	if ev.Assumptions == nil {
		ev.Assumptions = []string{}
	}
	b, _ := json.MarshalIndent(ev, "", " ")
	os.MkdirAll(filepath.Join(outBase, "evidence"), 0o755)
	if err := os.WriteFile(filepath.Join(outBase, "evidence", p.ID+".json"), b, 0o644); err != nil {
		fmt.Printf("cannot write evidence: %v\n", err)
		exit = 1
	}
	fmt.Printf("property=%s tier=%s obligations=%d discharged=%d known=%d violations=%d wall=%.1fs\n", p.ID, c.Tier, len(c.Obls), ndis, nknown, nviol, time.Since(start).Seconds())
	rs := make([]string, 0, len(counts))
	for r := range counts {
		rs = append(rs, r)
	}
	sort.Strings(rs)
	for _, r := range rs {
		fmt.Printf("  rule %-40s %d instance(s)\n", r, counts[r])
	}
	if os.Getenv("NEPCHECK_VERBOSE") != "" {
		for _, o := range c.Obls {
			fmt.Printf("    %-9s %s @ %s %s\n", o.Status, o.Rule, o.Construct, o.Pos)
		}
	}
	return exit
}

// functionCoverage: source functions of the property's packages whose body the path enumerator entered, and the
// names of those it never entered (not every rule works on traces: AST/SSA-level rules look at functions that
// are listed here as not walked).
func (c *Ctx) functionCoverage() (int, []string) {
	walked := 0
	not := []string{}
	seen := map[string]bool{}
	anchors := c.anchorFiles()
	for _, fn := range c.allSourceFuncs() {
		if len(anchors) > 0 {
			file := c.Fset.Position(fn.Pos()).Filename
			rel, err := filepath.Rel(c.RepoDir, file)
			if err != nil || !anchors[filepath.ToSlash(rel)] {
				continue
			}
		}
		name := c.fname(fn)
		if seen[name] {
			continue
		}
		seen[name] = true
		hit := c.Traced[fn]
		if !hit {
			// instantiations of a generic function count for their origin
			for t := range c.Traced {
				if t.Origin() == fn {
					hit = true
				}
			}
		}
		if hit {
			walked++
		} else {
			not = append(not, name)
		}
	}
	sort.Strings(not)
	return walked, not
}

// allSourceFuncs: every source function (methods, closures included) of the packages named by the property's patterns.
func (c *Ctx) allSourceFuncs() []*ssa.Function {
	var out []*ssa.Function
	for _, pkg := range c.Pkgs {
		rel := strings.TrimPrefix(strings.TrimPrefix(pkg.PkgPath, c.ModPath), "/")
		for _, fn := range c.funcsOf(rel) {
			if fn.Synthetic == "" {
				out = append(out, fn)
			}
		}
	}
	return out
}

// anchorFiles: the source files the property is anchored in (properties.jsonl, anchors.files); empty if unavailable.
func (c *Ctx) anchorFiles() map[string]bool {
	out := map[string]bool{}
	b, err := os.ReadFile(filepath.Join(c.VerifDir, "properties.jsonl"))
	if err != nil {
		return out
	}
	for _, line := range strings.Split(string(b), "\n") {
		var p struct {
			ID      string `json:"id"`
			Anchors struct {
				Files []string `json:"files"`
			} `json:"anchors"`
		}
		if json.Unmarshal([]byte(line), &p) == nil && p.ID == c.Prop.ID {
			for _, f := range p.Anchors.Files {
				out[f] = true
			}
		}
	}
	return out
}
