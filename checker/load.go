package main

import (
	"fmt"
	"go/types"
	"os"
	"sort"
	"strings"

	"golang.org/x/tools/go/packages"
	"golang.org/x/tools/go/ssa"
	"golang.org/x/tools/go/ssa/ssautil"
)

// load type-checks the packages of the property from the current working tree of the repository
// (everything from source: no export data, no build cache dependence) and builds SSA.
func (c *Ctx) load(overlay map[string][]byte) error {
	env := []string{}
	for _, e := range os.Environ() {
		if strings.HasPrefix(e, "GOWORK=") || strings.HasPrefix(e, "GOFLAGS=") || strings.HasPrefix(e, "GOARCH=") {
			continue
		}
		env = append(env, e)
	}
	env = append(env, "GOFLAGS=-mod=mod", "GOPROXY=off", "GOSUMDB=off", "GOTOOLCHAIN=local", "GOWORK=off", "CGO_ENABLED=0", "GOARCH="+c.GOARCH)
	cfg := &packages.Config{Mode: packages.LoadAllSyntax, Dir: c.RepoDir, Env: env, Overlay: overlay, Tests: false}
	pkgs, err := packages.Load(cfg, c.Prop.Patterns...)
	if err != nil {
		return fmt.Errorf("packages.Load: %v", err)
	}
	if len(pkgs) == 0 {
		return fmt.Errorf("no packages loaded for %v", c.Prop.Patterns)
	}
	c.AllPkgs = map[string]*packages.Package{}
	var errs []string
	packages.Visit(pkgs, nil, func(p *packages.Package) {
		c.AllPkgs[p.PkgPath] = p
		for _, e := range p.Errors {
			errs = append(errs, p.PkgPath+": "+e.Error())
		}
	})
	if len(errs) > 0 {
		sort.Strings(errs)
		if len(errs) > 5 {
			errs = errs[:5]
		}
		return fmt.Errorf("load/type errors: %s", strings.Join(errs, "; "))
	}
	c.Pkgs = pkgs
	c.Fset = pkgs[0].Fset
	if pkgs[0].Module != nil {
		c.ModPath = pkgs[0].Module.Path
	} else {
		c.ModPath = "github.com/pinealctx/neptune"
	}
	prog, _ := ssautil.AllPackages(pkgs, ssa.InstantiateGenerics)
	prog.Build()
	c.Prog = prog
	return nil
}

// inModule reports whether the package belongs to the repository under analysis.
func (c *Ctx) inModule(p *types.Package) bool {
	if p == nil {
		return false
	}
	return p.Path() == c.ModPath || strings.HasPrefix(p.Path(), c.ModPath+"/")
}

func (c *Ctx) pkg(rel string) *packages.Package {
	path := c.ModPath
	if rel != "" {
		path += "/" + rel
	}
	return c.AllPkgs[path]
}

func (c *Ctx) ssaPkg(rel string) *ssa.Package {
	p := c.pkg(rel)
	if p == nil {
		return nil
	}
	return c.Prog.Package(p.Types)
}

// fn resolves "rel/pkg.Func" or "rel/pkg.(*T).Method" / "rel/pkg.T.Method" to its SSA function.
// For generic types the origin (uninstantiated) method is returned.
func (c *Ctx) fn(rel, name string) *ssa.Function {
	sp := c.ssaPkg(rel)
	if sp == nil {
		return nil
	}
	if !strings.Contains(name, ".") {
		return sp.Func(name)
	}
	// method
	i := strings.LastIndex(name, ".")
	recv, m := name[:i], name[i+1:]
	recv = strings.TrimSuffix(strings.TrimPrefix(recv, "("), ")")
	ptr := strings.HasPrefix(recv, "*")
	recv = strings.TrimPrefix(recv, "*")
	obj := sp.Pkg.Scope().Lookup(recv)
	if obj == nil {
		return nil
	}
	named, ok := obj.Type().(*types.Named)
	if !ok {
		return nil
	}
	var t types.Type = named
	if ptr {
		t = types.NewPointer(named)
	}
	sel := c.Prog.MethodSets.MethodSet(t).Lookup(sp.Pkg, m)
	if sel == nil {
		// generic origin: look up the declared method object
		for i := 0; i < named.NumMethods(); i++ {
			if named.Method(i).Name() == m {
				return c.Prog.FuncValue(named.Method(i))
			}
		}
		return nil
	}
	if named.TypeParams().Len() > 0 {
		for i := 0; i < named.NumMethods(); i++ {
			if named.Method(i).Name() == m {
				return c.Prog.FuncValue(named.Method(i))
			}
		}
	}
	return c.Prog.MethodValue(sel)
}

// mustFn resolves an anchor or records an UNDECIDED obligation (a rule that silently matches nothing
// would pass vacuously forever).
func (c *Ctx) mustFn(rel, name string) *ssa.Function {
	f := c.fn(rel, name)
	if f == nil || len(f.Blocks) == 0 {
		c.undecided("anchor", rel+"."+name, 0, "anchored function not found (or has no body) in the current tree")
		return nil
	}
	return f
}

// fnOrSuccessor: the anchored function, or — when it no longer exists under that name — the one function of the
// package that is not in the frozen function table (a function introduced since) and refers to every one of
// the given state fields: a rule subject that was renamed or moved to another receiver is still examined.
func (c *Ctx) fnOrSuccessor(rel, name string, touches ...*types.Var) *ssa.Function {
	if f := c.fn(rel, name); f != nil && len(f.Blocks) > 0 {
		return f
	}
	var cands []*ssa.Function
	for _, f := range c.funcsOf(rel) {
		if f.Parent() != nil || !c.isNewHelper(f) {
			continue
		}
		seen := map[*types.Var]bool{}
		for _, b := range f.Blocks {
			for _, in := range b.Instrs {
				if fa, ok := in.(*ssa.FieldAddr); ok {
					if fv := fieldVar(fa.X.Type(), fa.Field); fv != nil {
						seen[fv.Origin()] = true
					}
				}
			}
		}
		all := len(touches) > 0
		for _, tv := range touches {
			if tv == nil || !seen[tv.Origin()] {
				all = false
			}
		}
		if all {
			cands = append(cands, f)
		}
	}
	if len(cands) == 1 {
		return cands[0]
	}
	// several new functions qualify: the one whose name still carries the old one (min -> minItem)
	base := name
	if i := strings.LastIndex(base, "."); i >= 0 {
		base = base[i+1:]
	}
	var named []*ssa.Function
	for _, f := range cands {
		if strings.Contains(strings.ToLower(f.Name()), strings.ToLower(base)) {
			named = append(named, f)
		}
	}
	if len(named) == 1 {
		return named[0]
	}
	c.undecided("anchor", rel+"."+name, 0, "anchored function not found (or has no body) in the current tree")
	return nil
}

// field resolves a struct field object "rel/pkg", "T", "f".
func (c *Ctx) field(rel, typ, name string) *types.Var {
	p := c.pkg(rel)
	if p == nil {
		return nil
	}
	obj := p.Types.Scope().Lookup(typ)
	if obj == nil {
		return nil
	}
	st, ok := obj.Type().Underlying().(*types.Struct)
	if !ok {
		return nil
	}
	for i := 0; i < st.NumFields(); i++ {
		if st.Field(i).Name() == name {
			return st.Field(i)
		}
	}
	// a field moved into an embedded struct (shared base of sibling types) is still that field: promoted
	// fields are found the way the language finds them
	if o, _, _ := types.LookupFieldOrMethod(obj.Type(), true, p.Types, name); o != nil {
		if v, isVar := o.(*types.Var); isVar && v.IsField() {
			return v
		}
	}
	return nil
}

func (c *Ctx) mustField(rel, typ, name string) *types.Var {
	f := c.field(rel, typ, name)
	if f == nil {
		c.undecided("anchor", rel+"."+typ+"."+name, 0, "anchored state field not found in the current tree")
	}
	return f
}

// funcsOf lists all source functions (incl. methods and anonymous functions) of a module package.
func (c *Ctx) funcsOf(rel string) []*ssa.Function {
	sp := c.ssaPkg(rel)
	if sp == nil {
		return nil
	}
	var out []*ssa.Function
	seen := map[*ssa.Function]bool{}
	var addFn func(f *ssa.Function)
	addFn = func(f *ssa.Function) {
		if f == nil || seen[f] || len(f.Blocks) == 0 {
			return
		}
		seen[f] = true
		out = append(out, f)
		for _, a := range f.AnonFuncs {
			addFn(a)
		}
	}
	for _, m := range sp.Members {
		switch m := m.(type) {
		case *ssa.Function:
			if m.Synthetic == "" || m.Name() != "init" {
				addFn(m)
			}
		case *ssa.Type:
			if named, ok := m.Type().(*types.Named); ok {
				for i := 0; i < named.NumMethods(); i++ {
					addFn(c.Prog.FuncValue(named.Method(i)))
				}
			}
		}
	}
	sort.Slice(out, func(i, j int) bool { return out[i].Pos() < out[j].Pos() })
	return out
}

// fname gives a stable, package-relative display name for a function.
func (c *Ctx) fname(f *ssa.Function) string {
	if f == nil {
		return "<nil>"
	}
	s := f.String()
	s = strings.ReplaceAll(s, c.ModPath+"/", "")
	return s
}
