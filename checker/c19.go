package main

import (
	"fmt"
	"go/token"
	"go/types"
	"math/big"
	"strings"

	"golang.org/x/tools/go/ssa"
)

func init() {
	register(&Property{
		ID:       "C19",
		Patterns: []string{"./vcode", "./idgen/random"},
		Explanation: "Decides on every path: (1) every key that reaches the code cache (Get/Peek/Set) is built by fmt.Sprintf with one and the same format from (area code, phone) in that order — so a sent code can be found again by verify; " +
			"(2) the random index generator is asked for a number below exactly the length of the alphabet it indexes (Intn contract [0,n)), once per output character, and the loop writes `length` characters; (3) verify increments the attempt counter before any comparison and returns nil only under attempts<=max AND code equal AND hash equal AND age<=TTL, each refusal with its own error; " +
			"(4) a send stores the new code, a fresh hash, the send time, sendCount+1 and resets the attempt counter, writes the entry to the cache only after the send checks passed and returns that hash; (5) the send check refuses under `now-setTime < MinInterval`, refreshes the window when it elapsed, and otherwise refuses under sendCount > MaxCount. " +
			"NOT decided: time-dependent regimes between the always/never extremes, code length in mock mode, the SMS provider.",
		Assumptions: []string{"the index callback follows rand.Intn's contract [0,n)"},
		Floors:      map[string]int{"C19.key-agreement": 7, "C19.alphabet": 1, "C19.verify": 1, "C19.send-update": 1, "C19.send-check": 1, "C19.mock-code": 1},
		Run:         runC19,
	})
}

func runC19(c *Ctx) {
	const rel = "vcode"
	send := c.mustFn(rel, "(*sender).SendSMSCode")
	verify := c.mustFn(rel, "(*sender).VerifySMSCode")
	if send == nil || verify == nil {
		return
	}
	inl := func(callee *ssa.Function, depth int) bool {
		if depth > 6 || !c.fnInModule(callee) {
			return false
		}
		p := ""
		if callee.Pkg != nil {
			p = callee.Pkg.Pkg.Path()
		}
		return strings.HasSuffix(p, "/vcode") || strings.HasSuffix(p, "/tex")
	}
	cfg := TraceConfig{Inline: inl}
	c.checkMockCode(rel)
	c.checkSimpleCache(rel)
	fld := func(t, f string) *types.Var { return c.mustField(rel, t, f) }
	fCode, fHash, fSet, fSendCnt, fVerCnt, fCounterT := fld("vCache", "code"), fld("vCache", "hash"), fld("vCache", "setTime"), fld("vCache", "sendCount"), fld("vCache", "verifyCount"), fld("vCache", "counterTime")
	fMaxV, fTTL, fMinI, fMaxC, fCntDur := fld("Config", "MaxVerifyCount"), fld("Config", "TTL"), fld("Config", "MinInterval"), fld("Config", "MaxCount"), fld("Config", "CounterDuration")
	for _, f := range []*types.Var{fCode, fHash, fSet, fSendCnt, fVerCnt, fCounterT, fMaxV, fTTL, fMinI, fMaxC, fCntDur} {
		if f == nil {
			return
		}
	}
	isCacheCall := func(e *Event) bool {
		if !(e.Kind == EvCall && e.Method != nil && e.Method.Pkg() != nil && strings.HasSuffix(e.Method.Pkg().Path(), "/vcode") && (e.Method.Name() == "Get" || e.Method.Name() == "Peek" || e.Method.Name() == "Set")) {
			return false
		}
		if e.Callee != nil && strings.HasSuffix(e.Callee.Name(), "$bound") {
			// bound method value: the receiver is captured, present the call like a direct invoke
			if len(e.Args) >= 1 && (len(e.Args) < 2 || e.Args[0].Typ == nil || !types.IsInterface(e.Args[0].Typ) || true) {
				if e.Res != nil && e.Val == nil {
					e.Args = append([]*Sym{{Kind: KOp, Name: "boundrecv"}}, e.Args...)
					e.Callee = nil
				}
			}
		}
		return len(e.Args) >= 2
	}
	isErr := func(s *Sym, name string) bool {
		return s.Kind == KInit && s.Args[0].Kind == KGlobal && s.Args[0].Ref.(*ssa.Global).Name() == name
	}

	// (1) key agreement
	type keyShape struct {
		format string
		args   []string
		ok     bool
	}
	shapes := map[string]keyShape{}
	for _, fn := range []*ssa.Function{send, verify} {
		name := "(*vcode.sender)." + fn.Name()
		traces, complete := c.Trace(fn, cfg)
		if !complete {
			c.undecided("C19.key-agreement", name, fn.Pos(), "path budget exceeded")
			continue
		}
		var sh keyShape
		found := false
		for _, t := range traces {
			for i, e := range t.Events {
				if !isCacheCall(e) {
					continue
				}
				k := e.Args[1].strip()
				// the key must be the result of one Sprintf
				var sp *Event
				for _, y := range t.Events[:i] {
					if y.Kind == EvCall && y.callName() == "fmt.Sprintf" && y.Res.Key() == k.Key() {
						sp = y
					}
				}
				cur := keyShape{}
				if sp != nil {
					if f, ok := constStr(sp.Args[0]); ok {
						cur.format, cur.ok = f, true
						// variadic arguments: stores into the args array in order
						if len(sp.Args) > 1 {
							arr := sp.Args[1].root()
							for _, y := range t.Events[:i] {
								if y.Kind == EvStore && y.Addr.Kind == KIndexAddr && y.Addr.Args[0].Key() == arr.Key() {
									a := y.Val.strip()
									role := "?"
									for pi, p := range t.Params {
										if a.Key() == p.Key() {
											role = fn.Params[pi].Name()
										}
									}
									cur.args = append(cur.args, role)
								}
							}
						}
					}
				}
				if !cur.ok {
					// the same key spelled as a concatenation: area + "-" + phone  ==  Sprintf("%s-%s", area, phone)
					var flat func(x *Sym) bool
					flat = func(x *Sym) bool {
						x = x.strip()
						if x.Kind == KBin && x.Op == token.ADD {
							return flat(x.Args[0]) && flat(x.Args[1])
						}
						if lit, isS := constStr(x); isS {
							cur.format += strings.ReplaceAll(lit, "%", "%%")
							return true
						}
						for pi, p := range t.Params {
							if x.Key() == p.Key() {
								cur.format += "%s"
								cur.args = append(cur.args, fn.Params[pi].Name())
								return true
							}
						}
						return false
					}
					if k.Kind == KBin && k.Op == token.ADD && flat(k) {
						cur.ok = true
					} else {
						cur = keyShape{}
					}
				}
				if !cur.ok {
					c.violated("C19.key-agreement", name, e.Pos, "the cache key is not built by a single fmt.Sprintf from the caller's area code and phone: "+c.short(k.Key()), c.witness(t, i)...)
					continue
				}
				if found && (sh.format != cur.format || strings.Join(sh.args, ",") != strings.Join(cur.args, ",")) {
					c.violated("C19.key-agreement", name, e.Pos, fmt.Sprintf("two different key builders inside one operation: %q(%v) and %q(%v)", sh.format, sh.args, cur.format, cur.args), c.witness(t, i)...)
				}
				sh, found = cur, true
			}
		}
		if found {
			shapes[fn.Name()] = sh
			wantArgs := "areaCode,phone"
			// the two components are separated by a literal: without it ("1","2645551234") and ("12","645551234")
			// share one key and a code sent to one verifies for the other
			if parts := strings.Split(sh.format, "%s"); len(parts) == 3 && parts[1] == "" {
				c.violated("C19.key-agreement", name+" separator", fn.Pos(), fmt.Sprintf("the cache key %q joins area code and phone without a separator: different (area, phone) pairs with the same concatenation share one cache item", sh.format), "")
			} else {
				c.holds("C19.key-agreement", name+" separator", fn.Pos(), "")
			}
			c.check(strings.Join(sh.args, ",") == wantArgs, "C19.key-agreement", name+" roles", fn.Pos(), fmt.Sprintf("%q(%s)", sh.format, wantArgs), fmt.Sprintf("the key is built from (%s) instead of (area code, phone)", strings.Join(sh.args, ",")))
		} else {
			c.undecided("C19.key-agreement", name, fn.Pos(), "no cache access found")
		}
	}
	if s1, ok1 := shapes["SendSMSCode"]; ok1 {
		if s2, ok2 := shapes["VerifySMSCode"]; ok2 {
			c.check(s1.format == s2.format, "C19.key-agreement", "send vs verify", verify.Pos(), fmt.Sprintf("both use %q", s1.format),
				fmt.Sprintf("SendSMSCode stores the code under a key built with %q but VerifySMSCode looks it up with %q: no sent code can ever be verified (send(86,138..) then verify(86,138..,code,hash) -> ErrVerifyCodeNotExist)", s1.format, s2.format))
		}
	}

	// (3) verify path
	{
		name := "(*vcode.sender).VerifySMSCode"
		traces, _ := c.Trace(verify, cfg)
		ok, n := true, 0
		for _, t := range traces {
			if t.End != EndReturn {
				continue
			}
			facts := t.factsBefore(len(t.Events))
			incAt := -1
			var vc *Sym
			firstCmp := -1
			for i, e := range t.Events {
				if e.Kind == EvStore && e.Addr.isFieldAddrOf(fVerCnt) && isIncBy(e, 1) {
					incAt, vc = i, e.Val
				}
				if e.Kind == EvBranch && firstCmp < 0 {
					mentions := false
					e.Cond.walk(func(x *Sym) {
						if _, a := isInitOfField(x, fCode); a {
							mentions = true
						}
						if _, a := isInitOfField(x, fHash); a {
							mentions = true
						}
					})
					if mentions {
						firstCmp = i
					}
				}
			}
			found := incAt >= 0 || firstCmp >= 0
			if !found {
				continue // entry not found paths
			}
			n++
			fail := func(msg string) {
				if ok {
					ok = false
					c.violated("C19.verify", name, verify.Pos(), msg, c.witness(t, len(t.Events)-1)...)
				}
			}
			if incAt < 0 || (firstCmp >= 0 && firstCmp < incAt) {
				fail("the attempt counter is not incremented before the code/hash comparison: wrong guesses are not counted (or counted after a successful match), so the attempt limit does not bound guessing")
				continue
			}
			r := t.Ret[0]
			if r.isNilConst() {
				cond := func(pred func(f Fact) bool) bool { return hasFact(facts, pred) }
				within := cond(func(f Fact) bool {
					return f.X.Key() == vc.Key() && f.Op == token.LEQ && loadedFrom(t, f.Y, fMaxV, 0, len(t.Events))
				})
				codeEq := cond(func(f Fact) bool {
					_, a := isInitOfField(f.X, fCode)
					return a && f.Op == token.EQL && f.Y.Key() == t.Params[3].Key()
				})
				hashEq := cond(func(f Fact) bool {
					_, a := isInitOfField(f.X, fHash)
					return a && f.Op == token.EQL && f.Y.Key() == t.Params[4].Key()
				})
				fresh := cond(func(f Fact) bool {
					isAge := false
					for _, e := range t.Events {
						if e.Kind == EvCall && e.callName() == "(time.Time).Sub" && e.Res.Key() == f.X.Key() {
							if _, a := isInitOfField(e.Args[1], fSet); a {
								isAge = true
							}
						}
						// time.Since(setTime) is time.Now().Sub(setTime)
						if e.Kind == EvCall && e.callName() == "time.Since" && e.Res.Key() == f.X.Key() && len(e.Args) == 1 {
							if _, a := isInitOfField(e.Args[0], fSet); a {
								isAge = true
							}
						}
					}
					return isAge && f.Op == token.LEQ && loadedFrom(t, f.Y, fTTL, 0, len(t.Events))
				})
				if !(within && codeEq && hashEq && fresh) {
					fail(fmt.Sprintf("verification succeeds without all four conditions established (attempts<=max: %v, code equal: %v, hash equal: %v, age<=TTL: %v): a wrong or expired code, a wrong hash, or unlimited guessing is accepted", within, codeEq, hashEq, fresh))
				}
			} else {
				// each refusal with its own error, in the documented order
				over := hasFact(facts, func(f Fact) bool {
					return f.X.Key() == vc.Key() && f.Op == token.GTR && loadedFrom(t, f.Y, fMaxV, 0, len(t.Events))
				})
				if over && !isErr(r, "ErrVerifyCodeRetryLimit") {
					fail("more attempts than allowed were made but the result is not ErrVerifyCodeRetryLimit")
				}
			}
		}
		if n == 0 {
			c.undecided("C19.verify", name, verify.Pos(), "no verification path found")
		} else if ok {
			c.holds("C19.verify", name, verify.Pos(), fmt.Sprintf("%d paths", n))
		}
	}

	// (4) send path
	{
		name := "(*vcode.sender).SendSMSCode"
		noSMS := cfg
		traces, _ := c.Trace(send, noSMS)
		ok, n := true, 0
		for _, t := range traces {
			if t.End != EndReturn {
				continue
			}
			setAt := -1
			var entry *Sym
			for i, e := range t.Events {
				if isCacheCall(e) && e.Method.Name() == "Set" {
					setAt = i
					entry = e.Args[2].strip()
				}
			}
			if setAt < 0 {
				// refused: must return an error and leave the cache alone
				if t.Ret[1].isNilConst() && ok {
					ok = false
					c.violated("C19.send-update", name, send.Pos(), "a send returns success without storing the code", c.witness(t, len(t.Events)-1)...)
				}
				continue
			}
			n++
			fail := func(msg string) {
				if ok {
					ok = false
					c.violated("C19.send-update", name, send.Pos(), msg, c.witness(t, len(t.Events)-1)...)
				}
			}
			var gotCode, gotHash, gotTime, gotCnt, gotReset bool
			var hashVal *Sym
			for i, e := range t.Events[:setAt] {
				if e.Kind != EvStore || e.Addr.Kind != KFieldAddr || e.Addr.Args[0].Key() != entry.Key() {
					continue
				}
				switch {
				case e.Addr.isFieldAddrOf(fCode):
					gotCode = true
				case e.Addr.isFieldAddrOf(fHash):
					hashVal = e.Val
					for _, y := range t.Events[:i] {
						if y.Kind == EvCall && y.Res != nil && y.Res.Key() == e.Val.Key() && strings.Contains(y.callName(), "UUID") {
							gotHash = true
						}
					}
				case e.Addr.isFieldAddrOf(fSet):
					gotTime = true
				case e.Addr.isFieldAddrOf(fSendCnt):
					if isIncBy(e, 1) {
						gotCnt = true
					}
				case e.Addr.isFieldAddrOf(fVerCnt):
					if z, isC := e.Val.intConst(); isC && z == 0 {
						gotReset = true
					}
				}
			}
			// refresh() may zero sendCount before the increment: the last sendCount store must be the +1
			if !(gotCode && gotHash && gotTime && gotCnt && gotReset) {
				fail(fmt.Sprintf("the entry written to the cache was not fully updated by the send (code=%v fresh hash=%v send time=%v sendCount+1=%v attempts reset=%v)", gotCode, gotHash, gotTime, gotCnt, gotReset))
				continue
			}
			// the send checks ran before the cache write and passed
			checked := false
			for _, e := range t.Events[:setAt] {
				if e.Kind == EvBranch {
					e.Cond.walk(func(x *Sym) {
						if loadedFrom(t, x, fMinI, 0, setAt) {
							checked = true
						}
					})
				}
			}
			if !checked {
				fail("the code is stored without the minimum-interval check having run")
				continue
			}
			if hashVal != nil && t.Ret[0].Key() != hashVal.Key() {
				if _, isH := isInitOfField(t.Ret[0], fHash); !isH {
					fail("the hash returned to the caller is not the hash stored with the code")
				}
			}
		}
		if n == 0 {
			c.undecided("C19.send-update", name, send.Pos(), "no storing path found")
		} else if ok {
			c.holds("C19.send-update", name, send.Pos(), fmt.Sprintf("%d storing paths", n))
		}
	}

	// (5) checkSend
	if fn := c.fnOrSuccessor(rel, "(*sender).checkSend", fSet, fSendCnt, fCounterT); fn != nil {
		name := "(*vcode.sender).checkSend"
		traces, _ := c.Trace(fn, cfg)
		ok, n := true, 0
		for _, t := range traces {
			if t.End != EndReturn {
				continue
			}
			n++
			facts := t.factsBefore(len(t.Events))
			subOf := func(s *Sym, f *types.Var) bool {
				for _, e := range t.Events {
					if e.Kind == EvCall && e.callName() == "(time.Time).Sub" && e.Res.Key() == s.Key() {
						if _, a := isInitOfField(e.Args[1], f); a {
							return true
						}
					}
				}
				return false
			}
			tooSoon := hasFact(facts, func(f Fact) bool {
				return subOf(f.X, fSet) && f.Op == token.LSS && loadedFrom(t, f.Y, fMinI, 0, len(t.Events))
			})
			notSoon := hasFact(facts, func(f Fact) bool {
				return subOf(f.X, fSet) && f.Op == token.GEQ && loadedFrom(t, f.Y, fMinI, 0, len(t.Events))
			})
			elapsed := hasFact(facts, func(f Fact) bool {
				return subOf(f.X, fCounterT) && f.Op == token.GTR && loadedFrom(t, f.Y, fCntDur, 0, len(t.Events))
			})
			overCnt := hasFact(facts, func(f Fact) bool {
				_, a := isInitOfField(f.X, fSendCnt)
				return a && f.Op == token.GTR && loadedFrom(t, f.Y, fMaxC, 0, len(t.Events))
			})
			underCnt := hasFact(facts, func(f Fact) bool {
				_, a := isInitOfField(f.X, fSendCnt)
				return a && f.Op == token.LEQ && loadedFrom(t, f.Y, fMaxC, 0, len(t.Events))
			})
			r := t.Ret[0]
			refreshed := false
			for _, e := range t.Events {
				if e.Kind == EvStore && e.Addr.isFieldAddrOf(fSendCnt) {
					if z, isC := e.Val.intConst(); isC && z == 0 {
						refreshed = true
					}
				}
			}
			fail := func(msg string) {
				if ok {
					ok = false
					c.violated("C19.send-check", name, fn.Pos(), msg, c.witness(t, len(t.Events)-1)...)
				}
			}
			// a refused send changes nothing about the code that is current: not its text, hash or send time, and not
			// the verify attempts already used on it (a refusal that resets them re-opens an exhausted code)
			if !r.isNilConst() {
				for _, e := range t.Events {
					if e.Kind == EvStore && e.Addr.Args != nil && e.Addr.Kind == KFieldAddr && e.Addr.Args[0].root().Kind != KAlloc {
						for _, fv := range []*types.Var{fVerCnt, fCode, fHash, fSet} {
							if e.Addr.isFieldAddrOf(fv) {
								fail("a send that is refused writes " + fv.Name() + " of the cached entry: the refusal changes the state of the code that is still current (e.g. gives back its verify attempts)")
							}
						}
					}
				}
			}
			switch {
			case r.isNilConst():
				if !notSoon {
					fail("a send is allowed without `now - setTime >= MinInterval` established: sends closer together than the minimum interval pass")
				} else if !(elapsed && refreshed) && !underCnt {
					fail("a send is allowed although neither the counting window was refreshed nor `sendCount <= MaxCount` established: the per-window limit is not enforced")
				}
			case tooSoon:
				if !isErr(r, "ErrSendTooFreq") {
					fail("a send inside the minimum interval is not refused with ErrSendTooFreq")
				}
			case overCnt:
				if !isErr(r, "ErrSendCountLimit") {
					fail("a send beyond the count limit is not refused with ErrSendCountLimit")
				}
			default:
				fail("a send is refused without a reason established on this path")
			}
		}
		if ok && n > 0 {
			c.holds("C19.send-check", name, fn.Pos(), fmt.Sprintf("%d paths", n))
		}
	}

	// (2) alphabet coverage
	if fn := c.mustFn("idgen/random", "genNonceStr"); fn != nil {
		name := "random.genNonceStr"
		traces, _ := c.Trace(fn, TraceConfig{})
		ok, ncall := true, 0
		for _, t := range traces {
			base, length, cb := t.Params[0], t.Params[1], t.Params[2]
			for i, e := range t.Events {
				if e.Kind == EvCall && e.Val != nil && e.Val.Key() == cb.Key() {
					ncall++
					want := &Sym{Kind: KOp, Name: "len", Args: []*Sym{base}}
					if !lf(e.Args[0]).equal(lf(want)) && ok {
						ok = false
						c.violated("C19.alphabet", name, e.Pos, fmt.Sprintf("the index generator is asked for a number below %s, not below len(alphabet): with Intn's contract [0,n) the last character of the alphabet can never occur (or the index can run past the alphabet)", lf(e.Args[0])), c.witness(t, i)...)
					}
					// the result indexes the alphabet and that byte is written
					used := false
					for _, y := range t.Events[i+1:] {
						if y.Kind == EvCall && strings.HasSuffix(y.callName(), ".WriteByte") {
							a := y.Args[len(y.Args)-1]
							if a.Kind == KIndex && a.Args[0].Key() == base.Key() && a.Args[1].Key() == e.Res.Key() {
								used = true
							}
							break
						}
						// or the character is appended to a byte slice / stored into one (out = append(out, base[idx]))
						if y.Kind == EvStore {
							y.Val.walk(func(a *Sym) {
								if a.Kind == KIndex && a.Args[0].Key() == base.Key() && a.Args[1].Key() == e.Res.Key() {
									used = true
								}
							})
							if used {
								break
							}
						}
						if y.Kind == EvCall && y.Val != nil && y.Val.Key() == cb.Key() {
							break
						}
					}
					if !used && ok {
						ok = false
						c.violated("C19.alphabet", name, e.Pos, "the generated index is not used to pick the next output character from the alphabet", c.witness(t, i)...)
					}
				}
				if e.Kind == EvBranch && e.Gen && e.Cond.Kind == KBin && e.Cond.Op == token.LSS && e.Cond.Args[1].Key() != length.Key() && ok {
					ok = false
					c.violated("C19.alphabet", name, e.Pos, "the output loop is not bounded by the requested length", c.witness(t, i)...)
				}
			}
		}
		if ok && ncall > 0 {
			c.holds("C19.alphabet", name, fn.Pos(), "fn(len(alphabet)) indexes the alphabet, once per character")
		} else if ncall == 0 {
			c.undecided("C19.alphabet", name, fn.Pos(), "no call of the index generator found")
		}
	}
}

// checkMockCode: in mock mode the code has exactly CodeLen characters — the tail of the phone when it is long
// enough, otherwise the phone left-padded by a loop that runs CodeLen - len(phone) times. The loop bound must be
// that (loop-invariant) difference: a bound that reads the growing string stops half way, the code is short and
// the properly padded code no longer verifies.
func (c *Ctx) checkMockCode(rel string) {
	fn := c.mustFn(rel, "(*sender).genCode")
	codeLen := c.mustField(rel, "Config", "CodeLen")
	if fn == nil || codeLen == nil {
		return
	}
	cons := "(*vcode.sender).genCode mock"
	noInl := func(*ssa.Function, int) bool { return false }
	traces, complete := c.Trace(fn, TraceConfig{Inline: noInl})
	if !complete {
		c.undecided("C19.mock-code", cons, fn.Pos(), "path budget exceeded")
		return
	}
	phone := &Sym{Kind: KParam, Ref: fn.Params[1], Typ: fn.Params[1].Type()}
	lenPhone := lf(&Sym{Kind: KOp, Name: "len", Args: []*Sym{phone}})
	// isCodeLenMinus: form == CodeLen - len(phone) + k
	diffOK := func(form linForm, k int64) bool {
		d := form.add(lenPhone, 1).add(lfConst(k), -1)
		if len(d.coef) != 1 || d.c.Sign() != 0 {
			return false
		}
		for key, a := range d.coef {
			if !strings.Contains(key, ".CodeLen") || a.Cmp(big.NewInt(1)) != 0 {
				return false
			}
		}
		return true
	}
	ok, loops, tails := true, 0, 0
	for _, t := range traces {
		for i, e := range t.Events {
			if e.Kind != EvBranch || !e.Gen || e.Cond.Kind != KBin || e.Cond.Op != token.LSS {
				continue
			}
			v := e.Cond.Args[0]
			if v.Kind != KFresh || v.Name != "loop" {
				continue
			}
			loops++
			b := e.Cond.Args[1]
			variant := false
			b.walk(func(x *Sym) {
				if x.Kind == KFresh && x.Name == "loop" {
					variant = true
				}
			})
			init, isC := int64(-1), false
			if len(v.Args) == 2 {
				init, isC = v.Args[0].intConst()
			}
			if (variant || !isC || !diffOK(lf(b), init)) && ok {
				ok = false
				c.violated("C19.mock-code", cons, e.Pos, "the padding loop does not run exactly CodeLen - len(phone) times (its bound is "+c.short(b.Key())+"): the mock code comes out shorter or longer than CodeLen, so the code a tester derives from the phone number does not verify", c.witness(t, i)...)
			}
		}
		if t.End == EndReturn && len(t.Ret) == 1 {
			if r := t.Ret[0]; r.Kind == KOp && r.Name == "slice" && r.Args[0].Key() == phone.Key() {
				tails++
				// phone[len(phone)-CodeLen:]
				low := lf(r.Args[1]).scale(big.NewInt(-1))
				if !(r.Args[2].Kind == KConst && r.Args[2].Name == "none" && diffOK(low, 0)) && ok {
					ok = false
					c.violated("C19.mock-code", cons, fn.Pos(), "for a long phone number the mock code is not its last CodeLen characters: "+c.short(r.Key()), c.witness(t, len(t.Events)-1)...)
				}
			}
		}
	}
	// or the loop is driven by the length itself: for len(dist) < CodeLen { dist = "0" + dist } — one character per
	// iteration in front of the phone number, until the length is CodeLen
	for _, t := range traces {
		if t.End != EndCut {
			continue
		}
		for _, e := range t.Events {
			if e.Kind != EvBranch || !e.Gen || e.Cond.Kind != KBin || e.Cond.Op != token.LSS || !strings.Contains(e.Cond.Args[1].Key(), ".CodeLen") {
				continue
			}
			l := e.Cond.Args[0]
			if l.Kind != KOp || l.Name != "len" || len(l.Args) != 1 || l.Args[0].Kind != KFresh || l.Args[0].Name != "loop" {
				continue
			}
			for _, ps := range t.Cut {
				if ps.Cur.Key() != l.Args[0].Key() {
					continue
				}
				nx := ps.Next
				if nx.Kind == KBin && nx.Op == token.ADD && nx.Args[1].Key() == ps.Cur.Key() {
					if pad, isS := constStr(nx.Args[0]); isS && len(pad) == 1 {
						loops++
						continue
					}
				}
				if ok {
					ok = false
					c.violated("C19.mock-code", cons, e.Pos, "the padding loop does not put exactly one character in front of the number per iteration ("+c.short(nx.Key())+"): the mock code does not end up CodeLen characters long with the phone number at its end", c.witness(t, len(t.Events)-1)...)
				}
			}
		}
	}
	// the padding may also be produced at once: strings.Repeat("0", CodeLen-len(phone)) + phone
	for _, t := range traces {
		if t.End != EndReturn || len(t.Ret) != 1 {
			continue
		}
		r := t.Ret[0]
		if r.Kind == KBin && r.Op == token.ADD && r.Args[1].Key() == phone.Key() {
			for _, e := range t.Events {
				if e.Kind == EvCall && e.callName() == "strings.Repeat" && e.Res.Key() == r.Args[0].Key() && len(e.Args) == 2 {
					if pad, isS := constStr(e.Args[0]); isS && len(pad) == 1 && diffOK(lf(e.Args[1]), 0) {
						loops++
					} else if ok {
						ok = false
						c.violated("C19.mock-code", cons, e.Pos, "the padding is not CodeLen - len(phone) copies of one character: the mock code does not have the configured length", c.witness(t, len(t.Events)-1)...)
					}
				}
			}
		}
	}
	if ok {
		c.check(loops > 0 && tails > 0, "C19.mock-code", cons, fn.Pos(), "tail of CodeLen characters, or CodeLen-len(phone) padding iterations", "the mock branch of genCode is not recognised (neither the tail slice nor the padding loop was found)")
	}
}

// checkSimpleCache: the default cache behind the logic stores and finds an item under the key it is given (the
// "area-phone" key): Get/Peek/Set hand their key (and value) to the underlying LRU unchanged. A cache that keys
// by anything else makes one phone's code verify for another.
func (c *Ctx) checkSimpleCache(rel string) {
	noInl := func(*ssa.Function, int) bool { return false }
	for _, m := range []string{"Get", "Peek", "Set"} {
		fn := c.mustFn(rel, "(simpleCache)."+m)
		if fn == nil {
			continue
		}
		ts, _ := c.Trace(fn, TraceConfig{Inline: noInl})
		good, n := true, 0
		key := "$" + fn.Params[1].Name()
		for _, t := range ts {
			if t.End != EndReturn {
				continue
			}
			n++
			for _, e := range t.Events {
				if e.Kind != EvCall || e.Callee == nil || recvNamedName(e.Callee) != "LRUCache" {
					continue
				}
				if len(e.Args) < 2 || e.Args[1].Key() != key {
					good = false
				}
				if m == "Set" && (len(e.Args) < 3 || !e.Args[2].mentions("$"+fn.Params[2].Name())) {
					good = false
				}
				if m != "Set" && e.Callee.Name() != "Get" && e.Callee.Name() != "Peek" {
					good = false
				}
			}
		}
		c.check(good && n > 0, "C19.key-agreement", "(vcode.simpleCache)."+m, fn.Pos(), "key passed through", "the default cache does not pass the caller's key (and value) to the underlying LRU unchanged: items of different (area, phone) pairs collide or are not found")
	}
}
