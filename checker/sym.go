package main

import (
	"fmt"
	"go/constant"
	"go/token"
	"go/types"
	"strings"

	"golang.org/x/tools/go/ssa"
)

// Symbolic values used by the path enumerator (engine E2). A Sym is an immutable expression tree over
// parameters, initial memory contents, fresh unknowns and allocation sites. Two Syms are the same value
// iff their keys are equal.

type SymKind int

const (
	KConst     SymKind = iota // Const (nil Const = zero/nil of Typ)
	KParam                    // parameter or free variable of the entry function (Ref = ssa.Value)
	KInit                     // initial content of a memory cell (Args[0] = address)
	KFresh                    // unknown value (ID), Ref = originating instruction, Name = why
	KAlloc                    // address of an allocation (ID), Ref = *ssa.Alloc / MakeMap / MakeChan / MakeSlice
	KGlobal                   // address of a package-level variable
	KFunc                     // function constant
	KFieldAddr                // &Args[0].Field
	KIndexAddr                // &Args[0][Args[1]]
	KBin                      // Args[0] Op Args[1]
	KUn                       // Op Args[0]   (not loads)
	KConv                     // conversion / change type / make interface of Args[0] to Typ (Name = ssa op)
	KClosure                  // Ref = *ssa.Function, Args = bindings
	KField                    // Args[0].Field (struct value)
	KIndex                    // Args[0][Args[1]] (array value / string index)
	KOp                       // pure pseudo operation Name(Args...): len, cap, slice, typeassert, append, ...
	KTuple                    // tuple of Args
	KStruct                   // struct value with known components (Args per field, nil = unknown)
)

type Sym struct {
	Kind  SymKind
	Op    token.Token
	Const constant.Value
	Typ   types.Type
	Args  []*Sym
	Field *types.Var
	FIdx  int
	ID    int
	Ref   interface{}
	Name  string
	key   string
}

func (s *Sym) Key() string {
	if s == nil {
		return "<nil>"
	}
	if s.key != "" {
		return s.key
	}
	var b strings.Builder
	switch s.Kind {
	case KConst:
		if s.Const == nil {
			b.WriteString("nil")
			if s.Typ != nil {
				if _, ok := s.Typ.Underlying().(*types.Struct); ok {
					b.WriteString("{" + s.Typ.String() + "}")
				}
			}
		} else {
			b.WriteString(s.Const.ExactString())
		}
	case KParam:
		v := s.Ref.(ssa.Value)
		fmt.Fprintf(&b, "$%s", v.Name())
	case KInit:
		fmt.Fprintf(&b, "*%s", s.Args[0].Key())
		if s.ID != 0 {
			fmt.Fprintf(&b, "#%d", s.ID)
		}
	case KFresh:
		fmt.Fprintf(&b, "?%s%d", s.Name, s.ID)
	case KAlloc:
		fmt.Fprintf(&b, "new%d", s.ID)
	case KGlobal:
		fmt.Fprintf(&b, "@%s", s.Ref.(*ssa.Global).Name())
	case KFunc:
		fmt.Fprintf(&b, "func:%s", s.Ref.(*ssa.Function).String())
	case KFieldAddr:
		fmt.Fprintf(&b, "&%s.%s", s.Args[0].Key(), s.Field.Name())
	case KIndexAddr:
		fmt.Fprintf(&b, "&%s[%s]", s.Args[0].Key(), s.Args[1].Key())
	case KBin:
		fmt.Fprintf(&b, "(%s %s %s)", s.Args[0].Key(), s.Op, s.Args[1].Key())
	case KUn:
		fmt.Fprintf(&b, "(%s%s)", s.Op, s.Args[0].Key())
	case KConv:
		fmt.Fprintf(&b, "%s<%s>(%s)", s.Name, typeStr(s.Typ), s.Args[0].Key())
	case KClosure:
		fmt.Fprintf(&b, "closure:%s[", s.Ref.(*ssa.Function).String())
		for i, a := range s.Args {
			if i > 0 {
				b.WriteString(",")
			}
			b.WriteString(a.Key())
		}
		b.WriteString("]")
	case KField:
		fmt.Fprintf(&b, "%s.%s", s.Args[0].Key(), s.Field.Name())
	case KIndex:
		fmt.Fprintf(&b, "%s[%s]", s.Args[0].Key(), s.Args[1].Key())
	case KOp, KTuple, KStruct:
		n := s.Name
		if s.Kind == KTuple {
			n = "tuple"
		} else if s.Kind == KStruct {
			n = "struct"
		}
		b.WriteString(n + "(")
		for i, a := range s.Args {
			if i > 0 {
				b.WriteString(",")
			}
			b.WriteString(a.Key())
		}
		b.WriteString(")")
		if s.Name == "typeassert" && s.Typ != nil {
			b.WriteString("<" + typeStr(s.Typ) + ">")
		}
	}
	s.key = b.String()
	return s.key
}

func (s *Sym) String() string { return s.Key() }

func typeStr(t types.Type) string {
	if t == nil {
		return "?"
	}
	return types.TypeString(t, func(p *types.Package) string { return p.Name() })
}

func symConst(v constant.Value, t types.Type) *Sym { return &Sym{Kind: KConst, Const: v, Typ: t} }
func symInt(i int64, t types.Type) *Sym            { return symConst(constant.MakeInt64(i), t) }
func symBool(b bool) *Sym                          { return symConst(constant.MakeBool(b), types.Typ[types.Bool]) }

func (s *Sym) isConst() bool { return s != nil && s.Kind == KConst }
func (s *Sym) isNilConst() bool {
	return s != nil && s.Kind == KConst && s.Const == nil
}
func (s *Sym) intConst() (int64, bool) {
	if s == nil || s.Kind != KConst || s.Const == nil || s.Const.Kind() != constant.Int {
		return 0, false
	}
	return constant.Int64Val(s.Const)
}
func (s *Sym) boolConst() (bool, bool) {
	if s == nil || s.Kind != KConst || s.Const == nil || s.Const.Kind() != constant.Bool {
		return false, false
	}
	return constant.BoolVal(s.Const), true
}

// root returns the base of an address expression (alloc, param, global, init, fresh).
func (s *Sym) root() *Sym {
	for s != nil {
		switch s.Kind {
		case KFieldAddr, KIndexAddr:
			s = s.Args[0]
		case KConv:
			s = s.Args[0]
		case KOp:
			if s.Name == "slice" && len(s.Args) > 0 {
				s = s.Args[0]
			} else {
				return s
			}
		default:
			return s
		}
	}
	return s
}

// walk visits s and all its sub-expressions.
func (s *Sym) walk(f func(*Sym)) {
	if s == nil {
		return
	}
	f(s)
	for _, a := range s.Args {
		a.walk(f)
	}
}

// mentions reports whether expression s contains a sub-expression with the given key.
func (s *Sym) mentions(key string) bool {
	found := false
	s.walk(func(x *Sym) {
		if x.Key() == key {
			found = true
		}
	})
	return found
}

// isFieldAddrOf reports whether s is &X.f for field object f.
func (s *Sym) isFieldAddrOf(f *types.Var) bool {
	return s != nil && s.Kind == KFieldAddr && f != nil && sameField(s.Field, f)
}

// sameField compares field objects, looking through generic instantiation (origin fields).
func sameField(a, b *types.Var) bool {
	if a == nil || b == nil {
		return false
	}
	return a == b || a.Origin() == b.Origin()
}

// strip removes value-preserving conversions (change type, make interface, change interface).
func (s *Sym) strip() *Sym {
	for s != nil && s.Kind == KConv && (s.Name == "changetype" || s.Name == "makeiface" || s.Name == "changeiface") {
		s = s.Args[0]
	}
	return s
}

// negate comparison operator
func negOp(op token.Token) token.Token {
	switch op {
	case token.EQL:
		return token.NEQ
	case token.NEQ:
		return token.EQL
	case token.LSS:
		return token.GEQ
	case token.GEQ:
		return token.LSS
	case token.GTR:
		return token.LEQ
	case token.LEQ:
		return token.GTR
	}
	return token.ILLEGAL
}

// swap operands of a comparison
func swapOp(op token.Token) token.Token {
	switch op {
	case token.LSS:
		return token.GTR
	case token.GTR:
		return token.LSS
	case token.LEQ:
		return token.GEQ
	case token.GEQ:
		return token.LEQ
	}
	return op
}

// Fact is a normalised atom: X Op Y holds.
type Fact struct {
	Op   token.Token
	X, Y *Sym
	Pos  token.Pos
	Idx  int // index of the branch event that established it
}

func (f Fact) String() string { return fmt.Sprintf("%s %s %s", f.X.Key(), f.Op, f.Y.Key()) }

// factsOf turns a branch condition with its outcome into atoms (conjunctions only: `!x` is unfolded,
// a boolean that is not a comparison becomes `b == true/false`).
func factsOf(cond *Sym, taken bool, pos token.Pos, idx int) []Fact {
	for cond.Kind == KUn && cond.Op == token.NOT {
		cond = cond.Args[0]
		taken = !taken
	}
	if cond.Kind == KBin {
		switch cond.Op {
		case token.EQL, token.NEQ, token.LSS, token.LEQ, token.GTR, token.GEQ:
			op := cond.Op
			if !taken {
				op = negOp(op)
			}
			return []Fact{{Op: op, X: cond.Args[0], Y: cond.Args[1], Pos: pos, Idx: idx}}
		}
	}
	return []Fact{{Op: token.EQL, X: cond, Y: symBool(taken), Pos: pos, Idx: idx}}
}

// mentions2 reports whether s contains a fresh symbol of the given name (e.g. a loop-carried variable).
func (s *Sym) mentions2(name string) bool {
	found := false
	s.walk(func(x *Sym) {
		if x.Kind == KFresh && x.Name == name {
			found = true
		}
	})
	return found
}

// condFact: the truth value the branch facts give to a condition (a comparison the path branched on, or a
// boolean value it tested).
func condFact(facts []Fact, s *Sym) (val, known bool) {
	neg := false
	for s.Kind == KUn && s.Op == token.NOT {
		s, neg = s.Args[0], !neg
	}
	if v, ok := boolFact(facts, s); ok {
		return v != neg, true
	}
	if s.Kind == KBin {
		switch s.Op {
		case token.EQL, token.NEQ, token.LSS, token.LEQ, token.GTR, token.GEQ:
			x, y := s.Args[0].Key(), s.Args[1].Key()
			if hasFact(facts, func(f Fact) bool { return f.X.Key() == x && f.Y.Key() == y && f.Op == s.Op }) {
				return !neg, true
			}
			if hasFact(facts, func(f Fact) bool { return f.X.Key() == x && f.Y.Key() == y && f.Op == negOp(s.Op) }) {
				return neg, true
			}
		}
	}
	return false, false
}

// outerObject: the object a field address through embedded structs belongs to (&x.base.f -> x for an embedded
// base): a field moved into an embedded struct is still a field of the outer object.
func outerObject(a *Sym) *Sym {
	for a != nil && a.Kind == KFieldAddr && a.Field != nil && a.Field.Embedded() {
		a = a.Args[0]
	}
	return a
}
