package main

import (
	"go/constant"
	"go/token"
	"go/types"

	"golang.org/x/tools/go/ssa"
)

// run explores all continuations of st depth first.
func (tr *Tracer) run(st *state) {
	work := []*state{st}
	for len(work) > 0 {
		if tr.over {
			return
		}
		s := work[len(work)-1]
		work = work[:len(work)-1]
		for s != nil {
			s.steps++
			if s.steps > tr.cfg.MaxSteps {
				tr.finish(s, EndLimit, nil)
				tr.over = true
				break
			}
			var forks []*state
			s, forks = tr.step(s)
			work = append(work, forks...)
		}
	}
}

// val evaluates an SSA value in the top frame.
func (tr *Tracer) val(st *state, v ssa.Value) *Sym {
	f := st.top()
	if s, ok := f.regs[v]; ok {
		return s
	}
	switch v := v.(type) {
	case *ssa.Const:
		return &Sym{Kind: KConst, Const: v.Value, Typ: v.Type()}
	case *ssa.Global:
		v = tr.c.globalAlias(v)
		return &Sym{Kind: KGlobal, Ref: v, Typ: v.Type()}
	case *ssa.Function:
		return &Sym{Kind: KFunc, Ref: v, Typ: v.Type()}
	case *ssa.Builtin:
		return &Sym{Kind: KOp, Name: "builtin:" + v.Name(), Typ: v.Type()}
	}
	// value not yet computed on this path (should not happen)
	s := st.fresh("undef", v.Type(), v)
	f.regs[v] = s
	return s
}

func (tr *Tracer) vals(st *state, vs []ssa.Value) []*Sym {
	out := make([]*Sym, len(vs))
	for i, v := range vs {
		out[i] = tr.val(st, v)
	}
	return out
}

// ---------------------------------------------------------------------------------------------
// memory

func isStructType(t types.Type) (*types.Struct, bool) {
	if t == nil {
		return nil, false
	}
	s, ok := t.Underlying().(*types.Struct)
	return s, ok
}

func (tr *Tracer) loadCell(st *state, addr *Sym, t types.Type) *Sym {
	k := addr.Key()
	if c, ok := st.store[k]; ok {
		return c.val
	}
	// a component of a stored whole struct value?
	if addr.Kind == KFieldAddr {
		pk := addr.Args[0].Key()
		if c, ok := st.store[pk]; ok && c.val != nil {
			return fieldOf(c.val, addr.Field, addr.FIdx, t)
		}
	}
	// whole struct whose components are known?
	if stt, ok := isStructType(t); ok && stt.NumFields() > 0 && stt.NumFields() <= 16 {
		any := false
		args := make([]*Sym, stt.NumFields())
		for i := 0; i < stt.NumFields(); i++ {
			fa := &Sym{Kind: KFieldAddr, Args: []*Sym{addr}, Field: stt.Field(i), FIdx: i, Typ: types.NewPointer(stt.Field(i).Type())}
			if c, ok := st.store[fa.Key()]; ok {
				args[i] = c.val
				any = true
			}
		}
		if any {
			for i := range args {
				if args[i] == nil {
					fa := &Sym{Kind: KFieldAddr, Args: []*Sym{addr}, Field: stt.Field(i), FIdx: i}
					args[i] = &Sym{Kind: KInit, Args: []*Sym{fa}, Typ: stt.Field(i).Type()}
				}
			}
			return &Sym{Kind: KStruct, Args: args, Typ: t}
		}
	}
	// whole array (a literal table) whose elements are known?
	if at, ok := t.Underlying().(*types.Array); ok && at.Len() > 0 && at.Len() <= 8 {
		args := make([]*Sym, at.Len())
		all := true
		for i := range args {
			ia := &Sym{Kind: KIndexAddr, Args: []*Sym{addr, symInt(int64(i), types.Typ[types.Int])}, Typ: types.NewPointer(at.Elem())}
			if c, ok := st.store[ia.Key()]; ok && c.val != nil {
				args[i] = c.val
			} else {
				all = false
			}
		}
		if all {
			return &Sym{Kind: KStruct, Args: args, Typ: t}
		}
	}
	var v *Sym
	if addr.root().Kind == KAlloc && addr.Kind != KIndexAddr && !tr.allocHasUnknownContent(addr.root()) && !st.dirty[addr.root().ID] {
		// fresh allocation: zero value
		v = zeroSym(t)
	} else {
		v = &Sym{Kind: KInit, Args: []*Sym{addr}, Typ: t}
	}
	st.store[k] = &cell{addr: addr, val: v}
	return v
}

func (tr *Tracer) allocHasUnknownContent(a *Sym) bool {
	switch a.Ref.(type) {
	case *ssa.Alloc:
		return false
	}
	return true
}

func zeroSym(t types.Type) *Sym {
	if t == nil {
		return &Sym{Kind: KConst, Typ: t}
	}
	switch u := t.Underlying().(type) {
	case *types.Basic:
		switch {
		case u.Info()&types.IsBoolean != 0:
			return symConst(constant.MakeBool(false), t)
		case u.Info()&types.IsInteger != 0:
			return symConst(constant.MakeInt64(0), t)
		case u.Info()&types.IsFloat != 0:
			return symConst(constant.MakeFloat64(0), t)
		case u.Info()&types.IsString != 0:
			return symConst(constant.MakeString(""), t)
		}
	}
	return &Sym{Kind: KConst, Const: nil, Typ: t}
}

func fieldOf(v *Sym, f *types.Var, idx int, t types.Type) *Sym {
	if v.Kind == KStruct && idx < len(v.Args) && v.Args[idx] != nil {
		return v.Args[idx]
	}
	if v.Kind == KConst && v.Const == nil {
		return zeroSym(t)
	}
	return &Sym{Kind: KField, Args: []*Sym{v}, Field: f, FIdx: idx, Typ: t}
}

// storeCell writes a cell, dropping component cells of the same object and havocking cells that may alias.
func (tr *Tracer) storeCell(st *state, addr, val *Sym) {
	// a whole embedded struct assigned at once rewrites the promoted fields, whose cells are named after the outer object
	if addr.Kind == KFieldAddr && addr.Field != nil && addr.Field.Embedded() {
		if est, isSt := addr.Field.Type().Underlying().(*types.Struct); isSt {
			owner := addr.Args[0].Key()
			for ck, c := range st.store {
				if c.addr.Kind == KFieldAddr && c.addr.Args[0].Key() == owner && c.addr.Field != nil {
					for i := 0; i < est.NumFields(); i++ {
						if sameField(est.Field(i), c.addr.Field) {
							delete(st.store, ck)
						}
					}
				}
			}
		}
	}
	k := addr.Key()
	prefix1, prefix2 := "&"+k+".", "&"+k+"["
	for ck, c := range st.store {
		if ck == k {
			continue
		}
		if len(ck) > len(k) && (hasPrefix(ck, prefix1) || hasPrefix(ck, prefix2)) {
			delete(st.store, ck)
			continue
		}
		// may-alias: same field through a different base that is not provably distinct
		if addr.Kind == KFieldAddr && c.addr.Kind == KFieldAddr && sameField(addr.Field, c.addr.Field) && mayAlias(addr.Args[0], c.addr.Args[0]) {
			st.store[ck] = &cell{addr: c.addr, val: st.later(c.addr, symValType(c.val))}
		}
		if addr.Kind == KIndexAddr && c.addr.Kind == KIndexAddr && mayAlias(addr.Args[0], c.addr.Args[0]) && !distinctConst(addr.Args[1], c.addr.Args[1]) && sameElemType(addr, c.addr) {
			st.store[ck] = &cell{addr: c.addr, val: st.later(c.addr, symValType(c.val))}
		}
		if (addr.Kind == KParam || addr.Kind == KInit || addr.Kind == KFresh) && (c.addr.Kind == KParam || c.addr.Kind == KInit || c.addr.Kind == KFresh) && types.Identical(typeOf(addr), typeOf(c.addr)) {
			st.store[ck] = &cell{addr: c.addr, val: st.later(c.addr, symValType(c.val))}
		}
	}
	st.store[k] = &cell{addr: addr, val: val}
	// escaping: storing an address rooted at a local allocation into non-local memory
	if addr.root().Kind != KAlloc || st.escaped[addr.root().ID] {
		tr.escape(st, val)
	}
}

// sameElemType: two element addresses can only alias when their element types agree
func sameElemType(a, b *Sym) bool {
	if a.Typ == nil || b.Typ == nil {
		return true
	}
	return types.Identical(a.Typ, b.Typ)
}

func typeOf(s *Sym) types.Type {
	if s.Typ != nil {
		return s.Typ
	}
	return types.Typ[types.Invalid]
}

func hasPrefix(s, p string) bool { return len(s) >= len(p) && s[:len(p)] == p }

func distinctConst(a, b *Sym) bool {
	x, ok1 := a.intConst()
	y, ok2 := b.intConst()
	return ok1 && ok2 && x != y
}

func mayAlias(a, b *Sym) bool {
	if a.Key() == b.Key() {
		return false // same cell: handled as the exact store
	}
	ra, rb := a.root(), b.root()
	if ra.Kind == KAlloc && rb.Kind == KAlloc {
		return false
	}
	if ra.Kind == KAlloc && isAllocFresh(ra) && rb.Kind != KAlloc {
		// a fresh local allocation cannot be reached through pre-existing memory unless it escaped;
		// escaping is tracked separately and is conservative enough for the rules here.
		return false
	}
	if rb.Kind == KAlloc && isAllocFresh(rb) && ra.Kind != KAlloc {
		return false
	}
	if ra.Kind == KGlobal && rb.Kind == KGlobal {
		return ra.Key() == rb.Key()
	}
	return true
}

func isAllocFresh(a *Sym) bool { return a.Kind == KAlloc }

func (tr *Tracer) escape(st *state, v *Sym) {
	if v == nil {
		return
	}
	v.walk(func(x *Sym) {
		if x.Kind == KAlloc {
			st.escaped[x.ID] = true
		}
	})
}

// havoc forgets the content of every cell that other code may change: everything except cells of
// fields that are immutable after construction and cells rooted at allocations that did not escape.
func (tr *Tracer) havoc(st *state, why string) {
	// escaped allocations may have been written by other code: cells not yet materialised are unknown too
	for id := range st.escaped {
		if !st.dirty[id] {
			st.dirty[id] = true
		}
	}
	for k, c := range st.store {
		if tr.keepOnHavoc(st, c.addr) {
			continue
		}
		st.store[k] = &cell{addr: c.addr, val: st.later(c.addr, symValType(c.val))}
	}
}

func symValType(s *Sym) types.Type {
	if s == nil {
		return nil
	}
	return s.Typ
}

func (tr *Tracer) keepOnHavoc(st *state, addr *Sym) bool {
	r := addr.root()
	if r.Kind == KAlloc && !st.escaped[r.ID] {
		return true
	}
	// package-level tables written only during package initialisation
	if r.Kind == KGlobal && addr.Kind != KGlobal {
		if g, ok := r.Ref.(*ssa.Global); ok && tr.c.initOnlyGlobal(g) {
			return true
		}
	}
	// a cell of a field that is immutable after construction: its base is a fixed symbolic pointer, so
	// whatever way that pointer was obtained the content cannot change (objects under construction are
	// local allocations and handled above).
	if addr.Kind == KFieldAddr && tr.c.immutableField(addr.Field) {
		return true
	}
	return false
}

// ---------------------------------------------------------------------------------------------
// deciding branch conditions from what the path already knows

func (tr *Tracer) decide(st *state, cond *Sym) (bool, bool) {
	if b, ok := cond.boolConst(); ok {
		return b, true
	}
	if v, ok := st.facts[cond.Key()]; ok {
		return v, true
	}
	if cond.Kind == KUn && cond.Op == token.NOT {
		v, ok := tr.decide(st, cond.Args[0])
		return !v, ok
	}
	if cond.Kind == KBin && (cond.Op == token.EQL || cond.Op == token.NEQ) {
		x, y := cond.Args[0], cond.Args[1]
		if x.isConst() && !y.isConst() {
			x, y = y, x
		}
		eq, known := tr.equalKnown(st, x, y)
		if known {
			if cond.Op == token.NEQ {
				return !eq, true
			}
			return eq, true
		}
	}
	return false, false
}

func nonNilSym(s *Sym) bool {
	s2 := s
	for s2.Kind == KConv && s2.Name != "makeiface" {
		s2 = s2.Args[0]
	}
	switch s2.Kind {
	case KAlloc, KFunc, KClosure, KGlobal, KFieldAddr, KIndexAddr:
		return true
	case KConv:
		return s2.Name == "makeiface"
	case KFresh:
		// results of error constructors are never nil
		if call, ok := s2.Ref.(*ssa.Call); ok && s2.Name == "ret" {
			if callee := call.Call.StaticCallee(); callee != nil {
				switch callee.String() {
				case "fmt.Errorf", "errors.New", "google.golang.org/grpc/status.Error", "google.golang.org/grpc/status.Errorf":
					return true
				}
			}
		}
	}
	return false
}

func (tr *Tracer) equalKnown(st *state, x, y *Sym) (bool, bool) {
	if x.Key() == y.Key() {
		if x.Typ != nil {
			if b, ok := x.Typ.Underlying().(*types.Basic); ok && b.Info()&types.IsFloat != 0 {
				return false, false
			}
		}
		return true, true
	}
	if y.isConst() {
		if x.isConst() {
			if x.Const == nil || y.Const == nil {
				return x.Const == nil && y.Const == nil, true
			}
			return constant.Compare(x.Const, token.EQL, y.Const), true
		}
		if y.Const == nil && (nonNilSym(x) || tr.c.nonNilGlobalContent(x)) {
			return false, true
		}
		if c, ok := st.eqc[x.Key()]; ok {
			if c.Const == nil || y.Const == nil {
				return c.Const == nil && y.Const == nil, true
			}
			return constant.Compare(c.Const, token.EQL, y.Const), true
		}
		for _, c := range st.nec[x.Key()] {
			if c.Key() == y.Key() {
				return false, true
			}
		}
	}
	return false, false
}

func (tr *Tracer) assume(st *state, cond *Sym, v bool) {
	st.facts[cond.Key()] = v
	c := cond
	for c.Kind == KUn && c.Op == token.NOT {
		c = c.Args[0]
		v = !v
		st.facts[c.Key()] = v
	}
	if c.Kind == KBin && (c.Op == token.EQL || c.Op == token.NEQ) {
		x, y := c.Args[0], c.Args[1]
		if x.isConst() && !y.isConst() {
			x, y = y, x
		}
		if y.isConst() && !x.isConst() {
			eq := v == (c.Op == token.EQL)
			if eq {
				st.eqc[x.Key()] = y
			} else {
				st.nec[x.Key()] = append(append([]*Sym(nil), st.nec[x.Key()]...), y)
			}
		}
	}
}

// ---------------------------------------------------------------------------------------------
// arithmetic

func (tr *Tracer) binop(op token.Token, x, y *Sym, t types.Type) *Sym {
	if x.isConst() && y.isConst() && x.Const != nil && y.Const != nil {
		if r := foldBin(op, x.Const, y.Const, t); r != nil {
			return r
		}
	}
	if (op == token.EQL || op == token.NEQ) && x.isConst() && y.isConst() && (x.Const == nil || y.Const == nil) {
		eq := x.Const == nil && y.Const == nil
		return symBool(eq == (op == token.EQL))
	}
	return &Sym{Kind: KBin, Op: op, Args: []*Sym{x, y}, Typ: t}
}

func foldBin(op token.Token, x, y constant.Value, t types.Type) (res *Sym) {
	defer func() {
		if recover() != nil {
			res = nil
		}
	}()
	switch op {
	case token.EQL, token.NEQ, token.LSS, token.LEQ, token.GTR, token.GEQ:
		return symBool(constant.Compare(x, op, y))
	case token.SHL, token.SHR:
		s, ok := constant.Uint64Val(y)
		if !ok || s > 200 {
			return nil
		}
		return wrapConst(constant.Shift(x, op, uint(s)), t)
	case token.QUO:
		if constant.Sign(y) == 0 {
			return nil
		}
		if x.Kind() == constant.Int && y.Kind() == constant.Int {
			return wrapConst(constant.BinaryOp(x, token.QUO_ASSIGN, y), t)
		}
		return wrapConst(constant.BinaryOp(x, op, y), t)
	case token.REM:
		if constant.Sign(y) == 0 {
			return nil
		}
		return wrapConst(constant.BinaryOp(x, op, y), t)
	case token.ADD, token.SUB, token.MUL, token.AND, token.OR, token.XOR, token.AND_NOT, token.LAND, token.LOR:
		return wrapConst(constant.BinaryOp(x, op, y), t)
	}
	return nil
}

// wrapConst reduces an integer constant to the range of its type (two's complement wrap-around).
func wrapConst(v constant.Value, t types.Type) *Sym {
	if v.Kind() == constant.Int && t != nil {
		if b, ok := t.Underlying().(*types.Basic); ok && b.Info()&types.IsInteger != 0 {
			bits := intBits(b)
			if bits > 0 {
				mod := constant.Shift(constant.MakeInt64(1), token.SHL, uint(bits))
				m := constant.BinaryOp(v, token.REM, mod)
				if constant.Sign(m) < 0 {
					m = constant.BinaryOp(m, token.ADD, mod)
				}
				if b.Info()&types.IsUnsigned == 0 {
					half := constant.Shift(constant.MakeInt64(1), token.SHL, uint(bits-1))
					if constant.Compare(m, token.GEQ, half) {
						m = constant.BinaryOp(m, token.SUB, mod)
					}
				}
				v = m
			}
		}
	}
	return symConst(v, t)
}

func intBits(b *types.Basic) int {
	switch b.Kind() {
	case types.Int8, types.Uint8:
		return 8
	case types.Int16, types.Uint16:
		return 16
	case types.Int32, types.Uint32:
		return 32
	case types.Int64, types.Uint64, types.Int, types.Uint, types.Uintptr:
		return 64
	}
	return 0
}
