package main

import "encoding/json"

func jsonUnmarshal(b []byte, v interface{}) error { return json.Unmarshal(b, v) }
