#!/usr/bin/env python3
# usage: do.py ID n target runre "breaks || needs"
import json, subprocess, sys, os, shutil
ID, n, target, runre, text = sys.argv[1:6]
out = "/tmp/seed/%s/%s" % (ID, os.environ.get("SEEDOUT", "_out"))
patch = "%s/change%s.diff" % (out, n)
demo = "%s/demo%s_test.go" % (out, n)
if not os.path.exists(demo):
    demo = "%s/demo%s" % (out, n)
p = subprocess.run(["python3", "/verif/tools/seedconfirm.py", ID, "/tmp/seed/" + ID, patch, demo, target, runre], capture_output=True, text=True)
try:
    r = json.loads(p.stdout)
except Exception:
    print("BAD", p.stdout[-500:], p.stderr[-500:]); sys.exit(1)
good = r.get("demo_unchanged") == "PASS" and r.get("build") == "ok" and r.get("demo_changed") == "FAIL" and "lost: none" in r.get("existing_tests", "")
rules = sorted({l.split("rule=")[1].split()[0] for l in r.get("check_fired", []) if "rule=" in l})
caught = ("CAUGHT by " + ", ".join(rules)) if r.get("check_exit") == 1 and rules else "MISSED"
print(ID + "-" + n, "CONFIRMED" if good else "NOT-CONFIRMED", caught, "|", r.get("existing_tests"), "|", r.get("demo_unchanged"), r.get("build"), r.get("demo_changed"))
if not good:
    print(json.dumps(r, indent=1)[:1500])
    sys.exit(1)
subprocess.run(["python3", "/verif/tools/seedstore.py", ID, os.environ.get("SEEDN", n), patch, demo, target, runre or "-", caught, text, r["existing_tests"]], check=True)
shutil.copy(out + "/notes.md", "/verif/seeded/%s-%s/agent-notes.md" % (ID, os.environ.get("SEEDN", n)))
