#!/usr/bin/env python3
"""Regenerates /verif/MANIFEST.json from the table below (kept here so that the manifest stays valid and in
step with the checks that exist)."""
import json, os
V = os.path.dirname(os.path.dirname(os.path.abspath(__file__)))
props = [json.loads(l) for l in open(os.path.join(V, "properties.jsonl"))]
claims = json.load(open(os.path.join(V, "tools", "claims.json")))
checks, na = [], []
for p in props:
    pid = p["id"]
    c = claims.get(pid)
    if not c or c.get("not_applicable"):
        na.append({"property_id": pid, "reason": (c or {}).get("not_applicable", "check under construction in this round (see DESIGN.md section 3); not yet claimed")})
        continue
    checks.append({
        "property_id": pid,
        "quick_cmd": "bin/nepcheck -property %s -tier quick" % pid,
        "thorough_cmd": "bin/nepcheck -property %s -tier thorough" % pid,
        "evidence_file": "evidence/%s.json" % pid,
        "replay_cmd_template": "bin/nepcheck -replay {path}",
        "engine": "nepcheck",
        "level_claimed": {"category": "other", "text": c["text"], "design_ref": "DESIGN.md section 3, " + pid},
        "level_note": c["note"],
        "technique": c["technique"],
    })
m = {
    "version": 1,
    "setup_cmd": "cd /verif/checker && GOFLAGS=-mod=mod GOPROXY=off GOSUMDB=off GOTOOLCHAIN=local GOWORK=off go build -o /verif/bin/nepcheck .",
    "hooks": {"guard": "verif", "enable": "none needed: the checks are static and read /repo's working tree as it is (no instrumentation, no build of /repo)",
              "baseline_off_cmd": "cd /repo && go test -vet=off -count=1 -timeout 25m ./...", "source_commits": [], "add_only": True},
    "engines": [{"name": "nepcheck", "path": "checker", "serves_properties": [c["property_id"] for c in checks],
                 "kind_free_text": "repository-specific static analyser on go/packages + go/ssa (x/tools v0.29.0): path enumeration with module callees inlined (typestate, guard facts, lockset, coupled updates), interval/range evaluation, sibling and codec tables, call-graph rules. Nothing from /repo is executed."}],
    "checks": checks,
    "not_applicable": na,
    "notes": "All claims are at level 'other': each check decides named structural necessary conditions of its property on every path of the current source and says which clauses it does not decide (level_claimed.text, evidence coverage.explanation, DESIGN.md). Genuine defects found are listed in known_findings.json.",
}
json.dump(m, open(os.path.join(V, "MANIFEST.json"), "w"), indent=1)
print("checks:", len(checks), "not_applicable:", len(na))
