#!/usr/bin/env python3
"""Checker self-validation: apply single-edit mutants (in memory, through the loader's overlay) to the
current /repo sources and report whether the named rule fires.  Development / thorough-tier aid; its
outcome never changes a property verdict.

usage: mutants.py [-p C01] [-j 8] [-v]
mutants/<ID>.json: [{"name":..., "file":..., "old":..., "new":..., "expect": "<rule prefix>"|"" (benign: must stay silent)}]
"""
import json, os, subprocess, sys, tempfile, shutil, glob, argparse
from concurrent.futures import ThreadPoolExecutor

VERIF = os.path.dirname(os.path.dirname(os.path.abspath(__file__)))
REPO = os.environ.get("NEPCHECK_REPO", "/repo")

def apply_patch(patch_text, read):
    """apply a unified diff in memory; read(rel) gives the current content. Returns {rel: new content} or raises."""
    out = {}
    cur, hunks = None, {}
    for line in patch_text.splitlines():
        if line.startswith("+++ b/"):
            cur = line[6:].strip(); hunks[cur] = []
        elif line.startswith("@@") and cur:
            try:
                start = int(line.split()[1].split(",")[0].lstrip("-"))
            except Exception:
                start = 0
            hunks[cur].append(["@%d" % start])
        elif cur and hunks[cur] and (line[:1] in " +-" or line == ""):
            if line.startswith("--- ") or line.startswith("diff "):
                continue
            hunks[cur][-1].append(line if line else " ")
        elif line.startswith("diff "):
            cur = None
    for rel, hs in hunks.items():
        src = read(rel).split("\n")
        shift = 0
        for h in hs:
            start = int(h[0][1:]) if h and h[0].startswith("@") else 0
            h = h[1:] if h and h[0].startswith("@") else h
            old = [l[1:] for l in h if l[0] in " -"]
            new = [l[1:] for l in h if l[0] in " +"]
            pos = [i for i in range(len(src) - len(old) + 1) if src[i:i + len(old)] == old]
            if not pos:
                raise ValueError("hunk matches 0 places in %s" % rel)
            # several identical contexts (sibling functions): take the one nearest to the hunk's line number
            best = min(pos, key=lambda i: abs(i - (start - 1 + shift)))
            src[best:best + len(old)] = new
            shift += len(new) - len(old)
        out[rel] = "\n".join(src)
    return out


def run_one(pid, m):
    edits = [m] + m.get("also", [])
    files = {}
    if "patch" in m:
        try:
            files = apply_patch(open(os.path.join(VERIF, m["patch"])).read(), lambda rel: open(os.path.join(REPO, rel)).read())
        except Exception as ex:
            return (pid, m["name"], "STALE", str(ex))
        edits = []
    for e in edits:
        if e["file"] not in files:
            files[e["file"]] = open(os.path.join(REPO, e["file"])).read()
        src = files[e["file"]]
        if src.count(e["old"]) != 1:
            return (pid, m["name"], "STALE", "pattern occurs %d times in %s" % (src.count(e["old"]), e["file"]))
        files[e["file"]] = src.replace(e["old"], e["new"])
    d = tempfile.mkdtemp(prefix="nepmut-")
    try:
        args = [os.path.join(VERIF, "bin/nepcheck"), "-property", pid, "-repo", REPO, "-out", d]
        for k, (fn, content) in enumerate(files.items()):
            f = os.path.join(d, "mut%d.go" % k)
            open(f, "w").write(content)
            args += ["-overlay", fn + "=" + f]
        r = subprocess.run(args, capture_output=True, text=True)
        out = r.stdout
        fired = [l for l in out.splitlines() if l.startswith("VIOLATED") or l.startswith("UNDECIDED")]
        if "FATAL" in out:
            return (pid, m["name"], "NOCOMPILE", out[out.index("FATAL"):][:300])
        exp = m.get("expect", "")
        if exp == "":
            if r.returncode != 0 and m.get("limit"):
                return (pid, m["name"], "KNOWN-LIMIT", m["limit"][:200])
            return (pid, m["name"], "OK-SILENT" if r.returncode == 0 else "FALSE-ALARM", "; ".join(fired)[:400])
        hit = [l for l in fired if ("rule=" + exp) in l]
        if hit:
            return (pid, m["name"], "FLAGGED", hit[0][:200])
        if r.returncode != 0:
            return (pid, m["name"], "FLAGGED-OTHER", "; ".join(fired)[:300])
        return (pid, m["name"], "MISSED", "")
    finally:
        shutil.rmtree(d, ignore_errors=True)

def main():
    ap = argparse.ArgumentParser()
    ap.add_argument("-p", default="")
    ap.add_argument("-j", type=int, default=8)
    ap.add_argument("-v", action="store_true")
    a = ap.parse_args()
    jobs = []
    for fn in sorted(glob.glob(os.path.join(VERIF, "mutants", "*.json"))):
        pid = os.path.basename(fn)[:-5]
        if a.p and pid != a.p:
            continue
        for m in json.load(open(fn)):
            jobs.append((pid, m))
    # the independently seeded changes (seeded/<ID>-<n>/patch.diff) are permanent members of the mutant set
    for d in sorted(glob.glob(os.path.join(VERIF, "seeded", "C*-*"))):
        pid = os.path.basename(d).split("-")[0]
        if a.p and pid != a.p:
            continue
        if os.path.exists(os.path.join(d, "patch.diff")):
            jobs.append((pid, {"name": "seeded " + os.path.basename(d), "patch": os.path.relpath(os.path.join(d, "patch.diff"), VERIF), "expect": pid + "."}))
    # behaviour-preserving refactorings written by independent agents (benign/<ID>-<n>.diff) must stay silent;
    # those listed in benign/KNOWN-LIMITS.json are shapes the rules do not recognise (documented in DESIGN.md)
    limits = {}
    lp = os.path.join(VERIF, "benign", "KNOWN-LIMITS.json")
    if os.path.exists(lp):
        limits = json.load(open(lp))
    for d in sorted(glob.glob(os.path.join(VERIF, "benign", "C*-*.diff"))):
        name = os.path.basename(d)[:-5]
        pid = name.split("-")[0]
        if a.p and pid != a.p:
            continue
        jobs.append((pid, {"name": "benign refactor " + name, "patch": os.path.relpath(d, VERIF), "expect": "", "limit": limits.get(name, "")}))
    bad = 0
    with ThreadPoolExecutor(a.j) as ex:
        for pid, name, st, info in ex.map(lambda j: run_one(*j), jobs):
            if st in ("MISSED", "FALSE-ALARM", "STALE", "NOCOMPILE"):
                bad += 1
            print("%-4s %-12s %-45s %s" % (pid, st, name, info if (a.v or st not in ("FLAGGED", "OK-SILENT", "KNOWN-LIMIT")) else ""))
    print("mutants=%d attention=%d" % (len(jobs), bad))

if __name__ == "__main__":
    main()
