#!/usr/bin/env python3
"""Run behaviour-preserving refactorings (unified diffs) against the checks of a property through the loader overlay.
usage: bencheck.py <ID> <diff>...   -- prints FALSE-ALARM lines for every diff on which the check reports anything."""
import sys, os, subprocess, tempfile, shutil
sys.path.insert(0, os.path.dirname(os.path.abspath(__file__)))
from mutants import apply_patch, VERIF, REPO
pid = sys.argv[1]
bad = 0
for d in sys.argv[2:]:
    try:
        files = apply_patch(open(d).read(), lambda rel: open(os.path.join(REPO, rel)).read())
    except Exception as ex:
        print("STALE", d, ex); continue
    tmp = tempfile.mkdtemp(prefix="nepben-")
    args = [os.path.join(VERIF, "bin/nepcheck"), "-property", pid, "-repo", REPO, "-out", tmp]
    for k, (fn, content) in enumerate(files.items()):
        f = os.path.join(tmp, "s%d.go" % k); open(f, "w").write(content); args += ["-overlay", fn + "=" + f]
    if os.environ.get("NEPDUMP"):
        args += ["-dump", os.environ["NEPDUMP"]]
        r = subprocess.run(args, capture_output=True, text=True)
        print(r.stdout, r.stderr); shutil.rmtree(tmp, ignore_errors=True); continue
    r = subprocess.run(args, capture_output=True, text=True)
    shutil.rmtree(tmp, ignore_errors=True)
    fired = [l for l in r.stdout.splitlines() if l.startswith("VIOLATED") or l.startswith("UNDECIDED") or "FATAL" in l]
    if r.returncode != 0 or fired:
        bad += 1
        print("FALSE-ALARM?", pid, os.path.basename(d))
        for l in r.stdout.splitlines():
            if l.startswith("VIOLATED") or l.startswith("UNDECIDED") or l.startswith("    ") and not l.startswith("      ") or "FATAL" in l:
                print("   ", l[:330])
    else:
        print("silent", pid, os.path.basename(d))
print("diffs=%d alarms=%d" % (len(sys.argv) - 2, bad))
