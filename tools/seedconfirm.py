#!/usr/bin/env python3
"""Confirm an independently seeded change in a scratch worktree and run the property's check against it.

usage: seedconfirm.py <ID> <worktree> <patch.diff> <demo file> <demo target dir (relative to the worktree)> [go test -run regex] [extra test pkgs...]

Steps (all in the scratch worktree, never in /repo):
  1. clean worktree; place the demo; run it -> must PASS on the unchanged tree
  2. apply the patch; go build ./... ; run the demo -> must FAIL
  3. run the existing tests of the touched packages -> must pass (compared with the unchanged tree by the caller)
  4. run bin/nepcheck -property <ID> -repo <worktree> -> report whether the check flags the change
  5. restore the worktree
Prints a JSON summary.
"""
import json, os, shutil, subprocess, sys, tempfile

ENV = dict(os.environ, GOFLAGS="-mod=mod", GOPROXY="off", GOSUMDB="off", GOTOOLCHAIN="local")
ENV.pop("GOWORK", None)
VERIF = os.path.dirname(os.path.dirname(os.path.abspath(__file__)))


def run(cmd, cwd, timeout=1800):
    p = subprocess.run(cmd, cwd=cwd, env=ENV, capture_output=True, text=True, timeout=timeout, shell=isinstance(cmd, str))
    return p.returncode, (p.stdout + p.stderr)


def passing(wt, pkgs):
    """set of tests that pass in the given packages (a panicking test binary simply contributes fewer)"""
    rc, out = run("go test -count=1 -vet=off -timeout 10m -json " + " ".join(pkgs), wt)
    ok = set()
    for l in out.splitlines():
        try:
            ev = json.loads(l)
        except Exception:
            continue
        if ev.get("Action") == "pass" and ev.get("Test"):
            ok.add(ev["Package"] + "." + ev["Test"])
    return ok


def touched(patch):
    pk = set()
    for l in open(patch):
        if l.startswith("+++ b/"):
            pk.add("./" + os.path.dirname(l[6:].strip()))
    return sorted(pk)


def main():
    pid, wt, patch, demo, target = sys.argv[1:6]
    runre = sys.argv[6] if len(sys.argv) > 6 else ""
    res = {"property": pid, "patch": patch}
    run("git checkout -- . && git clean -fdq -e _out -e _out2 -e _out3 -e _out4 -e _out5 -e _out7", wt)
    pkgs = touched(patch)
    before = passing(wt, pkgs)
    dst = os.path.join(wt, target, os.path.basename(demo))
    if os.path.isdir(demo):
        dst = os.path.join(wt, target)
        shutil.copytree(demo, dst, dirs_exist_ok=True)
    else:
        os.makedirs(os.path.dirname(dst), exist_ok=True)
        shutil.copy(demo, dst)
    pkg = "./" + target.strip("/")
    if os.path.isdir(demo) or demo.endswith("main.go"):
        democmd = "go run " + pkg
    else:
        democmd = "go test -count=1 " + (("-run '%s' " % runre) if runre else "") + pkg
    rc, out = run(democmd, wt)
    res["demo_unchanged"] = "PASS" if rc == 0 else "FAIL"
    res["demo_unchanged_tail"] = out[-300:]
    rc, out = run(["git", "apply", patch], wt)
    if rc != 0:
        res["apply"] = out[-300:]
        print(json.dumps(res, indent=1))
        return
    rc, out = run("go build ./...", wt)
    res["build"] = "ok" if rc == 0 else out[-300:]
    rc, out = run(democmd, wt)
    res["demo_changed"] = "PASS" if rc == 0 else "FAIL"
    res["demo_changed_tail"] = out[-400:]
    # the check, against the changed worktree
    d = tempfile.mkdtemp(prefix="nepseed-")
    rc, out = run([os.path.join(VERIF, "bin/nepcheck"), "-property", pid, "-repo", wt, "-out", d], VERIF)
    shutil.rmtree(d, ignore_errors=True)
    fired = [l for l in out.splitlines() if l.startswith("VIOLATED") or l.startswith("UNDECIDED")]
    res["check_exit"] = rc
    res["check_fired"] = [l[:220] for l in fired][:6]
    # remove the demo, keep the patch for the existing tests
    if not os.path.isdir(demo):
        os.remove(dst)
    elif target.strip("/") not in [p[2:] for p in pkgs]:
        shutil.rmtree(dst, ignore_errors=True)
    after = passing(wt, pkgs)
    res["existing_tests"] = "go test -count=1 %s: %d tests pass unchanged, %d with the patch, lost: %s" % (" ".join(pkgs), len(before), len(after), sorted(before - after) or "none")
    run("git checkout -- . && git clean -fdq -e _out -e _out2 -e _out3 -e _out4 -e _out5 -e _out7", wt)
    print(json.dumps(res, indent=1))


if __name__ == "__main__":
    main()
