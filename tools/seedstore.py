#!/usr/bin/env python3
"""Store a confirmed seeded change under /verif/seeded/<ID>-<n>/ (patch.diff, demo, meta.json).
usage: seedstore.py <ID> <n> <patch> <demo> <demo target dir> <run regex or -> <caught: rule list or MISSED> <needs text> [<existing tests cmd + result>]"""
import json, os, shutil, sys
V = os.path.dirname(os.path.dirname(os.path.abspath(__file__)))
pid, n, patch, demo, target, runre, caught, needs = sys.argv[1:9]
tests = sys.argv[9] if len(sys.argv) > 9 else ""
d = os.path.join(V, "seeded", "%s-%s" % (pid, n))
os.makedirs(d, exist_ok=True)
shutil.copy(patch, os.path.join(d, "patch.diff"))
if os.path.isdir(demo):
    shutil.copytree(demo, os.path.join(d, "demo"), dirs_exist_ok=True)
    demoname = "demo/"
else:
    demoname = os.path.basename(demo)
    shutil.copy(demo, os.path.join(d, demoname))
democmd = ("go test -count=1 %s./%s" % (("-run '%s' " % runre) if runre != "-" else "", target)) if not (os.path.isdir(demo) or demo.endswith("main.go")) else "go run ./" + target
meta = {
    "property": pid,
    "origin": "independent sub-agent given only the property text and a scratch worktree",
    "breaks": needs.split("||")[0].strip(),
    "needs_to_manifest": needs.split("||")[1].strip() if "||" in needs else "",
    "demonstration": {"file": demoname, "place_in": target, "command": democmd,
                      "observed": "passes on the unchanged tree, fails with patch.diff applied (confirmed in a scratch worktree with tools/seedconfirm.py)"},
    "existing_tests": tests or "go build ./... and the existing tests of the touched package pass with the patch (run in the scratch worktree)",
    "check_result": caught,
    "how_checked": "git apply patch.diff in a scratch worktree; bin/nepcheck -property %s -repo <worktree>; worktree restored" % pid,
}
json.dump(meta, open(os.path.join(d, "meta.json"), "w"), indent=1)
print(d)
